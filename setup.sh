#!/bin/bash
# Build the overlay venv used by every check: /venv's packages + /repo on the
# path + z3-solver / cvc5 / crosshair-tool from the offline wheelhouse.
# Idempotent; offline (PIP_NO_INDEX); safe to call concurrently (lock).
set -e
cd "$(dirname "$0")"
V=/verif/.venv
exec 9>/verif/.setup.lock
flock 9
if [ ! -x "$V/bin/python" ] || ! "$V/bin/python" -c "import z3, numba, numpy" >/dev/null 2>&1; then
  rm -rf "$V"
  /venv/bin/python -m venv "$V"
  SP=$("$V/bin/python" -c "import sysconfig; print(sysconfig.get_paths()['purelib'])")
  printf '%s\n' "import site; site.addsitedir('/venv/lib/python3.12/site-packages')" > "$SP/_verif_overlay.pth"
  PIP_NO_INDEX=1 "$V/bin/pip" install -q --no-index --find-links /opt/veriftools/wheels z3-solver cvc5 crosshair-tool >/dev/null 2>&1 \
   || PIP_NO_INDEX=1 "$V/bin/pip" install -q --no-index --find-links /opt/veriftools/wheels z3-solver
fi
"$V/bin/python" -c "import z3; print('z3', z3.get_version_string())"
mkdir -p /verif/.cache/numba /verif/evidence /verif/replays
# warm the numba cache of the repo's kernels (kept outside /repo)
PYTHONPATH=/repo NUMBA_CACHE_DIR=/verif/.cache/numba "$V/bin/python" -c "import sigpyproc.core.kernels" || true
echo setup-ok
