"""symx - solver-based checking of sigpyproc3 (see /verif/DESIGN.md)."""
