"""Functional symbolic arrays for the E2 engine.

An FArr is (length term, dtype tag, index -> value term).  Slicing, reshape,
slice assignment and concatenation build new closures; nothing is enumerated,
so lengths stay symbolic and unbounded.  Final obligations are discharged with
a fresh Skolem index.
"""
from __future__ import annotations

import z3

from .core import Ctx, SBool, SInt, SReal, Unsupported, is_sym, term, wrap

IntS, RealS = z3.IntSort(), z3.RealSort()


def iterm(x):
    x = wrap(x)
    if isinstance(x, SReal):
        raise Unsupported("real used as index")
    return x.e


def s_len(x):
    if isinstance(x, (FArr, F2, MV, SymBuf)) or hasattr(x, "slen"):
        return x.slen()
    return len(x)


def _slice_bounds(sl, length):
    """Python slice semantics for step None/1 with symbolic bounds (clipped)."""
    if sl.step not in (None, 1):
        raise Unsupported("slice step")
    L = length
    def norm(v, default):
        if v is None:
            return default
        v = iterm(v)
        v = z3.If(v < 0, v + L, v)
        return z3.If(v < 0, z3.IntVal(0), z3.If(v > L, L, v))
    lo = norm(sl.start, z3.IntVal(0))
    hi = norm(sl.stop, L)
    n = z3.If(hi > lo, hi - lo, z3.IntVal(0))
    return z3.simplify(lo), z3.simplify(n)


class FArr:
    """1-D functional array."""
    ndim = 1

    def __init__(self, length, fn, dtype="u1", name="arr"):
        self.length = term(length)
        self.fn = fn
        self.dt = _dt(dtype)
        self.name = name

    @property
    def dtype(self):
        return np_dtype(self.dt)

    @property
    def itemsize(self):
        return np_dtype(self.dt).itemsize

    # numpy-like surface
    @property
    def size(self):
        return SInt(self.length)

    @property
    def shape(self):
        return (SInt(self.length),)

    def slen(self):
        return SInt(self.length)

    def __len__(self):
        raise Unsupported("len() of a symbolic array: rebind len -> s_len")

    def at(self, j):
        return self.fn(iterm(j))

    def snapshot(self):
        """index -> value closure frozen at the array's *current* content (views over buffers are lazy)"""
        sn = getattr(self, "snap", None)
        return sn() if sn is not None else self.fn

    def __getitem__(self, k):
        if isinstance(k, slice):
            lo, n = _slice_bounds(k, self.length)
            base = self.fn
            child = FArr(n, lambda j, lo=lo, base=base: base(lo + j), self.dt, self.name)
            if getattr(self, "snap", None) is not None:
                parent = self
                child.snap = lambda lo=lo, parent=parent: (lambda j, f=parent.snapshot(): f(lo + j))
            wt = getattr(self, "write_through", None)
            if wt is not None:
                child.write_through = lambda n2, src, lo=lo, wt=wt: wt(n2, src, lo)
            return child
        if isinstance(k, (int, SInt)):
            return _scalar(self.fn(iterm(k)), self.dt)
        raise Unsupported(f"FArr index {type(k).__name__}")

    def __setitem__(self, k, v):
        if isinstance(k, slice):
            lo, n = _slice_bounds(k, self.length)
            old = self.fn
            if isinstance(v, FArr):
                # numpy requires equal length (or broadcast from 1): record the requirement
                Ctx.cur.notes.append(("setitem-len", n, v.length))
                if Ctx.cur.sat(z3.And(n != v.length, v.length != 1)):
                    # feasible shape mismatch -> numpy raises ValueError on that region
                    if not Ctx.cur.branch(z3.Or(n == v.length, v.length == 1)):
                        raise ValueError("could not broadcast input array (symbolic)")
                vf = v.snapshot()
                vl = v.length
                self.fn = lambda j, old=old, lo=lo, n=n, vf=vf, vl=vl: z3.If(
                    z3.And(j >= lo, j < lo + n), z3.If(vl == 1, vf(z3.IntVal(0)), vf(j - lo)), old(j))
            else:
                c = _valterm(v)
                self.fn = lambda j, old=old, lo=lo, n=n, c=c: z3.If(z3.And(j >= lo, j < lo + n), c, old(j))
            return
        if isinstance(k, (int, SInt)):
            i = iterm(k)
            old = self.fn
            c = _valterm(v)
            self.fn = lambda j, old=old, i=i, c=c: z3.If(j == i, c, old(j))
            return
        raise Unsupported(f"FArr setitem {type(k).__name__}")

    def reshape(self, *shape):
        if len(shape) == 1 and isinstance(shape[0], tuple):
            shape = shape[0]
        if len(shape) == 1:
            return self
        if len(shape) != 2:
            raise Unsupported("reshape ndim")
        r, c = shape
        r = z3.IntVal(-1) if (isinstance(r, int) and r == -1) else iterm(r)
        c = iterm(c)
        if z3.is_int_value(r) and r.as_long() == -1:
            r = self.length / c
        ok = SBool(r * c == self.length)
        if not ok:
            raise ValueError("cannot reshape array (symbolic)")
        out = F2(r, c, lambda i, j, f=self.fn, c=c: f(i * c + j), self.dt)
        if getattr(self, "snap", None) is not None:
            parent = self
            out.snap = lambda parent=parent, c=c: (lambda i, j, f=parent.snapshot(): f(i * c + j))
        return out

    def ravel(self):
        return self

    def flatten(self):
        return self.copy()

    def copy(self):
        return FArr(self.length, self.fn, self.dt, self.name)

    def astype(self, dt, copy=True):
        to = _dt(dt)
        fn = self.fn
        if self.dt in ("f4", "f8") and to not in ("f4", "f8"):
            def fn(j, f=self.fn):   # float -> integer conversion truncates toward zero
                t = f(j)
                if t.sort() == IntS:
                    return t
                fl = z3.ToInt(t)
                return z3.If(z3.Or(t >= 0, z3.ToReal(fl) == t), fl, fl + 1)
        out = FArr(self.length, fn, to, self.name)
        if to == self.dt:
            for a in ("snap", "write_through", "packed_from"):
                if hasattr(self, a):
                    setattr(out, a, getattr(self, a))
        elif getattr(self, "snap", None) is not None:
            parent = self
            out.snap = lambda parent=parent: parent.snapshot()
        return out

    def fill(self, v):
        c = _valterm(v)
        if self.dt in ("f4", "f8") and c.sort() == IntS:
            c = z3.ToReal(c)
        self.fn = lambda j, c=c: c

    def view(self, dt):
        if _dt(dt) == self.dt:
            return self
        raise Unsupported("view dtype change")

    def tofile(self, f):
        f.write_arr(self)

    def sum(self):
        n = z3.simplify(self.length)
        if not z3.is_int_value(n):
            raise Unsupported("FArr.sum over a symbolic length")
        tot = z3.Sum([_r(self.fn(z3.IntVal(i))) for i in range(n.as_long())]) if n.as_long() else z3.RealVal(0)
        return SReal(tot)

    def _binop(self, o, f, inplace=False):
        a = self.fn
        if isinstance(o, FArr):
            b = o.fn
            g = lambda j: f(_r(a(j)), _r(b(j)))
        else:
            c = _valterm(o)
            g = lambda j: f(_r(a(j)), _r(c))
        if inplace:
            self.fn = g
            return self
        return FArr(self.length, g, "f4" if self.dt != "f8" else "f8", self.name)

    def __itruediv__(self, o):
        if isinstance(o, FArr):
            self.div_by = o
        else:
            self.divisors = getattr(self, "divisors", []) + [term(o)]
        return self._binop(o, lambda x, y: x / y, True)

    def __truediv__(self, o):
        return self._binop(o, lambda x, y: x / y)

    def __mul__(self, o):
        return self._binop(o, lambda x, y: x * y)

    def __sub__(self, o):
        return self._binop(o, lambda x, y: x - y)

    def __add__(self, o):
        return self._binop(o, lambda x, y: x + y)


def _r(t):
    return z3.ToReal(t) if t.sort() == IntS else t


def _dt(dt):
    import numpy as np
    if getattr(dt, "_symx_dt", None):
        return dt._symx_dt
    if isinstance(dt, str) and dt in ("u1", "u2", "f4", "f8", "i4", "i8", "b1"):
        return dt
    if dt is bool or dt == "bool":
        return "b1"
    d = np.dtype(dt)
    return {"uint8": "u1", "uint16": "u2", "float32": "f4", "float64": "f8", "int32": "i4",
            "int64": "i8", "bool": "b1"}[d.name]


def np_dtype(tag):
    import numpy as np
    return np.dtype({"u1": "<u1", "u2": "<u2", "f4": "<f4", "f8": "<f8", "i4": "<i4", "i8": "<i8", "b1": "bool"}[tag])


def _valterm(v):
    if isinstance(v, z3.ExprRef):
        return v
    return term(v)


def _scalar(t, dtype):
    if t.sort() == IntS:
        return SInt(t)
    if t.sort() == RealS:
        return SReal(t)
    return SBool(t)


class F2:
    """2-D functional array (row-major view)."""
    ndim = 2

    def __init__(self, rows, cols, fn, dtype):
        self.rows, self.cols, self.fn, self.dt = term(rows), term(cols), fn, _dt(dtype)

    @property
    def dtype(self):
        return np_dtype(self.dt)

    @property
    def shape(self):
        return (SInt(self.rows), SInt(self.cols))

    @property
    def size(self):
        return SInt(self.rows * self.cols)

    def slen(self):
        return SInt(self.rows)

    def snapshot(self):
        sn = getattr(self, "snap", None)
        return sn() if sn is not None else self.fn

    def _child(self, child, mk):
        """child view: mk(f2) builds the child's index->value closure from a 2-D closure"""
        if getattr(self, "snap", None) is not None:
            parent = self
            child.snap = lambda parent=parent, mk=mk: mk(parent.snapshot())
        return child

    def transpose(self):
        return self._child(F2(self.cols, self.rows, lambda i, j, f=self.fn: f(j, i), self.dt), lambda f: (lambda i, j: f(j, i)))

    @property
    def T(self):
        return self.transpose()

    def ravel(self):
        c = self.cols
        return self._child(FArr(self.rows * self.cols, lambda k, f=self.fn, c=c: f(k / c, k % c), self.dt), lambda f: (lambda k: f(k / c, k % c)))

    flatten = ravel

    def astype(self, dt, copy=True):
        return F2(self.rows, self.cols, self.fn, dt)

    def __getitem__(self, k):
        if isinstance(k, slice):
            k = (k, slice(None))
        if not (isinstance(k, tuple) and len(k) == 2):
            raise Unsupported("F2 index")
        a, b = k
        import numpy as _np
        if isinstance(a, _np.integer):
            a = int(a)
        if isinstance(b, _np.integer):
            b = int(b)
        f = self.fn
        if isinstance(a, slice) and isinstance(b, slice):
            lo, n = _slice_bounds(a, self.rows)
            lo2, n2 = _slice_bounds(b, self.cols)
            return self._child(F2(n, n2, lambda i, j: f(lo + i, lo2 + j), self.dt), lambda f: (lambda i, j: f(lo + i, lo2 + j)))
        if isinstance(a, slice) and isinstance(b, (int, SInt)):
            lo, n = _slice_bounds(a, self.rows)
            c = iterm(b)
            # numpy raises IndexError for out-of-range integer indices
            if not SBool(z3.And(c >= -self.cols, c < self.cols)):
                raise IndexError("index out of bounds (symbolic)")
            c = z3.If(c < 0, c + self.cols, c)
            return self._child(FArr(n, lambda i: f(lo + i, c), self.dt), lambda f: (lambda i: f(lo + i, c)))
        if isinstance(a, (int, SInt)) and isinstance(b, slice):
            lo2, n2 = _slice_bounds(b, self.cols)
            r = iterm(a)
            if not SBool(z3.And(r >= -self.rows, r < self.rows)):
                raise IndexError("index out of bounds (symbolic)")
            r = z3.If(r < 0, r + self.rows, r)
            return self._child(FArr(n2, lambda j: f(r, lo2 + j), self.dt), lambda f: (lambda j: f(r, lo2 + j)))
        raise Unsupported("F2 index kinds")


# ---------------------------------------------------------------- byte buffers

class SymBuf:
    """bytearray(n) replacement: n bytes, content = layered writes (uninitialised = fresh garbage)."""

    def __init__(self, n=0):
        self.n = term(n)
        g = z3.Function(f"garbage!{id(self)}", IntS, IntS)
        self.fn = lambda j, g=g: g(j)

    def slen(self):
        return SInt(self.n)

    def __buffer__(self, flags):  # so that isinstance(x, collections.abc.Buffer) holds
        raise Unsupported("real buffer access on SymBuf")

    def write(self, off, n, src):
        """bytes [off, off+n) := src(k) for k in [0,n)."""
        old = self.fn
        self.fn = lambda j, old=old, off=off, n=n, src=src: z3.If(z3.And(j >= off, j < off + n), src(j - off), old(j))


class MV:
    """memoryview replacement over SymBuf (offset/length window)."""

    def __init__(self, buf, off=None, n=None):
        if isinstance(buf, MV):
            self.buf, self.off, self.n = buf.buf, buf.off, buf.n
        elif isinstance(buf, SymBuf):
            self.buf, self.off, self.n = buf, z3.IntVal(0), buf.n
        elif isinstance(buf, FArr):
            raise Unsupported("memoryview of array")
        else:
            raise Unsupported(f"memoryview({type(buf).__name__})")
        if off is not None:
            self.off, self.n = off, n

    def slen(self):
        return SInt(self.n)

    def __len__(self):
        raise Unsupported("len(memoryview): rebind len")

    def __getitem__(self, sl):
        if not isinstance(sl, slice):
            raise Unsupported("MV index")
        lo, n = _slice_bounds(sl, self.n)
        return MV(self.buf, self.off + lo, n)

    def __buffer__(self, flags):
        raise Unsupported("real buffer access on MV")

    def at(self, j):
        return self.buf.fn(self.off + j)

    def write(self, off, n, src):
        self.buf.write(self.off + off, n, src)
