"""Concrete driver for C01: real FilReader.read_plan on real files vs the numpy array written."""
from __future__ import annotations

import json
import sys
import tempfile

import numpy as np

from .sigfile import random_samples, write_set


def run(p):
    """p: nbits nchans splits gulp start nsamps(None ok) skipback.  returns (outcome, mismatches)"""
    from sigpyproc.readers import FilReader
    rng = np.random.default_rng(p.get("seed", 1))
    N = sum(p["splits"])
    x = random_samples(rng, N, p["nchans"], p["nbits"])
    bad, blocks = [], []
    with tempfile.TemporaryDirectory() as d:
        names = write_set(d, x, p["nbits"], p["splits"])
        fil = FilReader(names, check_contiguity=False)
        if fil.header.nsamples != N:
            return ("setup", []), [f"header.nsamples {fil.header.nsamples} != {N}"]
        start, nsamps, gulp, skip = p["start"], p["nsamps"], p["gulp"], p["skipback"]
        ns_eff = N - start if nsamps is None else nsamps
        geff = min(gulp, ns_eff)
        err = None
        try:
            for ns, ii, data in fil.read_plan(gulp=gulp, start=start, nsamps=nsamps, skipback=skip, quiet=True):
                blocks.append((int(ns), int(ii), np.array(data, copy=True)))
        except ValueError as e:
            err = e
        except Exception as e:  # noqa: BLE001
            err = e
            bad.append(f"unexpected {type(e).__name__}: {e}")
    lens = [b[0] for b in blocks]
    if err is not None:
        if blocks:
            bad.append(f"raised {type(err).__name__} after yielding {len(blocks)} block(s): {err}")
        if 2 * abs(skip) <= geff and isinstance(err, ValueError):
            bad.append(f"in-range plan with skipback<=gulp/2 rejected: {err}")
        return ("raise", type(err).__name__, lens), bad
    if abs(skip) >= geff:
        bad.append(f"plan with skipback {skip} >= effective gulp {geff} was accepted")
    pos = start
    end = None
    for k, (ns, ii, data) in enumerate(blocks):
        if ii != k:
            bad.append(f"block {k}: index {ii}")
        if data.size != ns * p["nchans"]:
            bad.append(f"block {k}: reported {ns} samples but array has {data.size} elements")
        if ns < 1 or ns > gulp:
            bad.append(f"block {k}: {ns} samples (gulp {gulp})")
        if k > 0 and ns < abs(skip):
            bad.append(f"block {k}: shorter than skipback")
        if pos < start or pos + ns > start + ns_eff:
            bad.append(f"block {k}: covers [{pos},{pos + ns}) outside the request [{start},{start + ns_eff})")
        else:
            ref = x[pos:pos + ns].ravel()
            if data.size == ref.size and not np.array_equal(data, ref):
                bad.append(f"block {k}: values differ from samples [{pos},{pos + ns})")
        end = pos + ns
        pos = end - abs(skip)
    if end is None:
        bad.append("accepted plan yielded nothing")
    elif end != start + ns_eff:
        bad.append(f"blocks end at sample {end}, request ends at {start + ns_eff}")
    return ("ok", lens), bad


def main(p):
    out, bad = run(p)
    print("params:", json.dumps(p))
    print("outcome:", out)
    for b in bad:
        print("MISMATCH:", b)
    return 1 if bad else 0


if __name__ == "__main__":
    sys.exit(main(json.loads(sys.argv[1])))


def run_block(p):
    """real FilReader.read_block(start, nsamps) vs the numpy array written"""
    from sigpyproc.readers import FilReader
    rng = np.random.default_rng(p.get("seed", 1))
    N = sum(p["splits"])
    x = random_samples(rng, N, p["nchans"], p["nbits"])
    bad = []
    with tempfile.TemporaryDirectory() as d:
        names = write_set(d, x, p["nbits"], p["splits"])
        fil = FilReader(names, check_contiguity=False)
        start, nsamps = p["start"], p["nsamps"]
        inr = start >= 0 and start + nsamps <= N
        try:
            blk = fil.read_block(start, nsamps)
        except ValueError as e:
            if inr:
                bad.append(f"in-range read_block({start},{nsamps}) on {N} samples raised ValueError: {e}")
            return ("raise", "ValueError"), bad
        except Exception as e:  # noqa: BLE001
            bad.append(f"read_block({start},{nsamps}) raised {type(e).__name__}: {e}")
            return ("raise", type(e).__name__), bad
        if not inr:
            bad.append(f"out-of-range read_block({start},{nsamps}) on {N} samples returned shape {blk.data.shape}")
            return ("ok", list(blk.data.shape)), bad
        ref = x[start:start + nsamps].T
        if blk.data.shape != ref.shape or not np.array_equal(np.asarray(blk.data), ref):
            bad.append(f"read_block({start},{nsamps}) differs from the model slice (shape {blk.data.shape} vs {ref.shape})")
        if blk.header.nsamples != nsamps:
            bad.append(f"header.nsamples {blk.header.nsamples} != {nsamps}")
        return ("ok", list(blk.data.shape)), bad


def main_block(p):
    out, bad = run_block(p)
    print("params:", json.dumps(p))
    print("outcome:", out)
    for b in bad:
        print("MISMATCH:", b)
    return 1 if bad else 0
