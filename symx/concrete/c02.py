"""Concrete driver for C02: runs operation histories on the REAL FileReader over real
files and compares with a plain bytes model.  Used for replay and path-witness validation."""
from __future__ import annotations

import json
import os
import sys
import tempfile

import numpy as np


def build(params, d):
    from sigpyproc.io.fileio import FileReader
    from sigpyproc.io.sigproc import FileInfo, StreamInfo
    rng = np.random.default_rng(params.get("seed", 1))
    entries, model = [], b""
    for i, (h, dl) in enumerate(params["files"]):
        hdr = bytes(rng.integers(0, 256, h, dtype=np.uint8))
        dat = bytes(rng.integers(0, 256, dl, dtype=np.uint8))
        if params["nbits"] == 32:  # keep floats finite / comparable
            dat = np.frombuffer(dat, dtype=np.uint8).copy()
            dat[3::4] = (dat[3::4] & 0x3F) | 0x40 if len(dat) >= 4 else dat[3::4]
            dat = bytes(dat)
        fn = os.path.join(d, f"f{i}.raw")
        with open(fn, "wb") as f:
            f.write(hdr + dat)
        entries.append(FileInfo(filename=fn, hdrlen=h, datalen=dl, nsamples=dl, tstart=0.0, tsamp=1.0))
        model += dat
    return FileReader(StreamInfo(entries), mode="r", nbits=params["nbits"]), model


def run(params):
    """returns list of outcomes (one per op) + list of mismatches against the bytes model"""
    from sigpyproc.io.bits import BitsInfo
    bi = BitsInfo(params["nbits"])
    outcomes, bad = [], []
    with tempfile.TemporaryDirectory() as d:
        r, model = build(params, d)
        T = len(model)
        p = None
        for op in params["ops"]:
            kind = op[0]
            try:
                if kind == "seek0" or kind == "seek1":
                    off = op[1]
                    new = off if kind == "seek0" else (p + off)
                    r.seek(off, 0 if kind == "seek0" else 1)
                    if not (0 <= new < T):
                        bad.append(f"{op}: out-of-range seek to {new} (T={T}) accepted")
                    p = new
                    outcomes.append(["ok", r.cur_data_pos_stream])
                    if r.cur_data_pos_stream != p:
                        bad.append(f"{op}: position {r.cur_data_pos_stream} != model {p}")
                elif kind == "creadinto":
                    n = op[1]
                    buf = bytearray(b"\xAA" * n)
                    ub = bytearray(n * bi.bitfact) if bi.unpack else None
                    m = r.creadinto(buf, ub)
                    exp = min(n, T - p)
                    outcomes.append(["ok", m, r.cur_data_pos_stream])
                    if m != exp:
                        bad.append(f"{op}: returned {m} bytes, model {exp}")
                    elif bytes(buf[:m]) != model[p:p + m]:
                        bad.append(f"{op}: bytes differ from model slice [{p},{p + m})")
                    elif ub is not None and m == n:
                        from sigpyproc.io.bits import unpack
                        ref = unpack(np.frombuffer(model[p:p + m], dtype=np.uint8).copy(), bi.nbits, bitorder=bi.bitorder)
                        if not np.array_equal(np.frombuffer(ub, dtype=np.uint8), ref):
                            bad.append(f"{op}: unpacked buffer differs from model")
                    p += m
                    if r.cur_data_pos_stream != p:
                        bad.append(f"{op}: position {r.cur_data_pos_stream} != model {p}")
                elif kind == "cread":
                    n = op[1]
                    count = n // bi.bitfact
                    nb = count * bi.itemsize
                    data = r.cread(n)
                    outcomes.append(["ok", int(data.size), r.cur_data_pos_stream])
                    if p + nb > T:
                        bad.append(f"{op}: counted read past the end returned {data.size} items instead of raising")
                    else:
                        ref = np.frombuffer(model[p:p + nb], dtype=bi.dtype).copy()
                        if bi.unpack:
                            from sigpyproc.io.bits import unpack
                            ref = unpack(ref, bi.nbits, bitorder=bi.bitorder)
                        if data.size != ref.size or not np.array_equal(data, ref):
                            bad.append(f"{op}: data differ from model slice (got {data.size} items, want {ref.size})")
                        p += nb
                        if r.cur_data_pos_stream != p:
                            bad.append(f"{op}: position {r.cur_data_pos_stream} != model {p}")
                else:
                    raise RuntimeError(kind)
            except (ValueError, OSError, IndexError) as e:
                outcomes.append(["raise", type(e).__name__])
                legit = False
                if kind in ("seek0", "seek1"):
                    new = op[1] if kind == "seek0" else (p + op[1])
                    legit = isinstance(e, ValueError) and not (0 <= new < T)
                    if legit and r.ifile_cur is not None and p is not None and r.cur_data_pos_stream != p:
                        bad.append(f"{op}: rejected seek moved the position to {r.cur_data_pos_stream} (model {p})")
                elif kind == "cread":
                    legit = p + (op[1] // bi.bitfact) * bi.itemsize > T
                if not legit:
                    bad.append(f"{op}: raised {type(e).__name__}: {e}")
                if kind != "seek0" and kind != "seek1":
                    break
        r.close()
    return outcomes, bad


def main(params):
    outcomes, bad = run(params)
    print("params:", json.dumps(params))
    print("outcomes:", outcomes)
    for b in bad:
        print("MISMATCH:", b)
    return 1 if bad else 0


if __name__ == "__main__":
    sys.exit(main(json.loads(sys.argv[1])))
