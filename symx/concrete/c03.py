"""Concrete replay for C03 against the real bits.pack/unpack (compiled kernels)."""
from __future__ import annotations

import json
import sys

import numpy as np


def field(b, nbits, order, k):
    f = 8 // nbits
    pos = (f - 1 - k) if order == "big" else k
    return (b >> (pos * nbits)) & ((1 << nbits) - 1)


def main(p):
    from sigpyproc.io import bits
    bad = []
    print("params:", json.dumps(p))
    if p["kind"] == "wrapper":
        dt = {"u1": np.uint8, "u2": np.uint16, "f4": np.float32, "i8": np.int64}[p["dtype"]]
        fn = getattr(bits, p["which"])
        nbits, order = p["nbits"], p["order"]
        f = 8 // nbits if nbits in (1, 2, 4) else 1
        arr = np.zeros(p["n"], dtype=dt)
        buf = None if p["m"] is None else np.zeros(p["m"], dtype=np.uint8)
        valid = dt is np.uint8 and nbits in (1, 2, 4) and bool(order) and order[0] in "bl"
        if buf is not None:
            valid = valid and (p["m"] == (p["n"] * f if p["which"] == "unpack" else p["n"] // f))
        try:
            r = fn(arr, nbits, buf, bitorder=order)
        except ValueError as e:
            if valid:
                bad.append(f"valid call rejected: {e}")
        except Exception as e:  # noqa: BLE001
            bad.append(f"raised {type(e).__name__}: {e}")
        else:
            if not valid:
                bad.append(f"invalid arguments accepted (returned array of size {r.size})")
            else:
                exp = p["n"] * f if p["which"] == "unpack" else p["n"] // f
                if r.size != exp or r.dtype != np.uint8:
                    bad.append(f"result size/dtype {r.size}/{r.dtype}, expected {exp}/uint8")
                if buf is not None and r is not buf:
                    bad.append("result is not the caller's buffer")
    else:
        nbits, order, vals = p["nbits"], p["order"], p["vals"]
        f = 8 // nbits
        if p["kind"] in ("unpack", "pack-unpack"):
            b = np.array(vals, dtype=np.uint8)
            u = bits.unpack(b, nbits, bitorder=order)
            want = [field(int(x), nbits, order, k) for x in vals for k in range(f)]
            if list(map(int, u)) != want:
                bad.append(f"unpack({vals}) = {list(map(int, u))}, bit-field definition gives {want}")
            u_buf = np.full(len(vals) * f, 0xEE, dtype=np.uint8)
            bits.unpack(b, nbits, u_buf, bitorder=order)
            if not np.array_equal(u, u_buf):
                bad.append("unpack with and without caller buffer differ")
            back = bits.pack(u, nbits, bitorder=order)
            if not np.array_equal(back, b):
                bad.append(f"pack(unpack({vals})) = {list(map(int, back))}")
            for fill in ([p["stale"]] if p.get("stale") and len(p["stale"]) == len(vals) else []) + [[0xEE] * len(vals)]:
                pbuf = np.array(fill, dtype=np.uint8)
                bits.pack(u, nbits, pbuf, bitorder=order)
                if not np.array_equal(pbuf, b):
                    bad.append(f"pack(unpack({vals})) into a caller buffer holding {fill} = {list(map(int, pbuf))}")
                    break
        else:
            v = np.array(vals, dtype=np.uint8)
            pk = bits.pack(v, nbits, bitorder=order)
            back = bits.unpack(pk, nbits, bitorder=order)
            if not np.array_equal(back, v):
                bad.append(f"unpack(pack({vals})) = {list(map(int, back))}")
            for fill in ([p["stale"]] if p.get("stale") and len(p["stale"]) == len(vals) // f else []) + [[0xEE] * (len(vals) // f)]:
                pbuf = np.array(fill, dtype=np.uint8)
                bits.pack(v, nbits, pbuf, bitorder=order)
                if not np.array_equal(bits.unpack(pbuf, nbits, bitorder=order), v):
                    bad.append(f"unpack(pack({vals}) into a caller buffer holding {fill}) = {list(map(int, bits.unpack(pbuf, nbits, bitorder=order)))}")
                    break
            want = [sum(int(v[i * f + k]) << (((f - 1 - k) if order == 'big' else k) * nbits) for k in range(f)) for i in range(len(vals) // f)]
            if list(map(int, pk)) != want:
                bad.append(f"pack({vals}) = {list(map(int, pk))}, definition gives {want}")
    for x in bad:
        print("MISMATCH:", x)
    return 1 if bad else 0


if __name__ == "__main__":
    sys.exit(main(json.loads(sys.argv[1])))
