"""Concrete replay for C04: real writers and readers on real files."""
from __future__ import annotations

import json
import os
import sys
import tempfile

import numpy as np

from .sigfile import random_samples, write_set

NP = {"u1": np.uint8, "u2": np.uint16, "i8": np.int64, "f4": np.float32, "f8": np.float64}


def base_header(d, nchans=1, nsamps=4, nbits=8):
    from sigpyproc.header import Header
    return Header.from_sigproc(write_set(d, np.zeros((nsamps, nchans), np.uint8), 8, [nsamps], prefix="base"))


def main(p):
    from sigpyproc.readers import FilReader
    from . import c07
    bad = []
    rng = np.random.default_rng(6)
    print("params:", json.dumps(p))
    n = max(1, min(int(p["n"]), 5000))
    with tempfile.TemporaryDirectory() as d0:
        # history: an earlier, unrelated depth-changing write in the same process must not influence this one
        try:
            w0 = base_header(d0, 2, 4).prep_outfile(os.path.join(d0, "pre.fil"), nbits=16)
            w0.cwrite(np.zeros(8, dtype=np.uint16))
            w0.close()
        except Exception:  # noqa: BLE001
            pass
    with tempfile.TemporaryDirectory() as d:
        if p["kind"] == "fmt":
            fmt = p["item"][0]
            if fmt in ("tim", "dat"):
                from sigpyproc.timeseries import TimeSeries
                hdr = base_header(d, 1, n)
                x = rng.integers(0, 1000, n).astype(np.float32)
                ts = TimeSeries(x, hdr.new_header({"nchans": 1, "nsamples": n}))
                if fmt == "tim":
                    back = TimeSeries.from_tim(ts.to_tim(os.path.join(d, "o.tim")))
                else:
                    back = TimeSeries.from_dat(ts.to_dat(os.path.join(d, "o")))
                if back.data.size != n or not np.array_equal(back.data, x):
                    bad.append(f".{fmt}: wrote {n} samples, read {back.data.size}; values equal: {back.data.size == n and bool(np.array_equal(back.data, x))}")
            elif fmt in ("spec", "fft"):
                from sigpyproc.fourierseries import FourierSeries
                hdr = base_header(d, 1, 2 * n)
                x = (rng.integers(0, 100, n) + 1j * rng.integers(0, 100, n)).astype(np.complex64)
                fs = FourierSeries(x, hdr.new_header({"nchans": 1, "nsamples": 2 * n}))
                if fmt == "spec":
                    back = FourierSeries.from_spec(fs.to_spec(os.path.join(d, "o.spec")))
                else:
                    back = FourierSeries.from_fft(fs.to_fft(os.path.join(d, "o")))
                if back.data.size != n or not np.array_equal(back.data, x):
                    bad.append(f".{fmt}: wrote {n} bins, read {back.data.size}")
            else:
                from sigpyproc.block import FilterbankBlock
                C = 3
                # the solver's length and a longer one, in both memory layouts a block can have (a fresh (nchans, nsamples)
                # array is C-ordered, the view read_block returns is Fortran-ordered)
                for nn in sorted({n, n + 4}):
                    for order in ("C", "F"):
                        hdr = base_header(d, C, nn)
                        x = np.array(rng.integers(0, 200, (C, nn)).astype(np.float32), order=order)
                        blk = FilterbankBlock(x, hdr.new_header({"nsamples": nn}))
                        fn = blk.to_file(os.path.join(d, f"o{nn}{order}.fil"))
                        f = FilReader(fn)
                        if f.header.nbits != 32 or f.header.nsamples != nn or not np.array_equal(np.asarray(f.read_block(0, f.header.nsamples).data), x):
                            bad.append(f"to_file ({order}-ordered block of {nn} samples): nbits {f.header.nbits}, nsamples {f.header.nsamples}, values equal: "
                                       f"{f.header.nsamples == nn and bool(np.array_equal(np.asarray(f.read_block(0, f.header.nsamples).data), x))}")
        elif p["kind"] == "cwrite":
            nbits, dt, nchans = p["item"]
            hdr = base_header(d, nchans, n)
            hi = min(2 ** min(nbits, 8), 200) if nbits != 32 else 200
            x = rng.integers(0, hi, n * nchans).astype(NP[dt])
            out = os.path.join(d, "o.fil")
            try:
                w = hdr.prep_outfile(out, nbits=nbits)
                w.cwrite(x)
                w.close()
            except ValueError:
                w.close()
                h, data, err = c07.read_data(out)
                if data is not None and data.size:
                    bad.append("refused write left data in the file")
                data = None
            else:
                h, data, err = c07.read_data(out)
                if err:
                    bad.append(err)
                else:
                    try:
                        f = FilReader(out)
                        if f.header.nsamples != n:
                            bad.append(f"the library's reader infers {f.header.nsamples} samples, {n} were written")
                        elif not np.array_equal(np.asarray(f.read_block(0, n).data).T.ravel().astype(np.float64), x.astype(np.float64)):
                            bad.append("FilReader.read_block differs from the samples written")
                    except Exception as e:  # noqa: BLE001
                        bad.append(f"the written file cannot be read back: {type(e).__name__}: {e}")
                if not err and (h["nbits"] != nbits or data.shape != (n, nchans) or not np.array_equal(data.ravel(), x.astype(np.float64))):
                    bad.append(f"cwrite({dt} array) into a {nbits}-bit file: header nbits {h['nbits']}, read back shape {data.shape} for ({n},{nchans}) written, equal: {data.shape == (n, nchans) and bool(np.array_equal(data.ravel(), x.astype(np.float64)))}")
        else:
            a, b, nchans = p["item"]
            x = random_samples(rng, n, nchans, a)
            if b < a:
                x = (x.astype(np.int64) % (2 ** min(b, 8))).astype(x.dtype)
            names = write_set(d, x, a, [n])
            fil = FilReader(names)
            out = os.path.join(d, "q.fil")
            try:
                fil.requantize(b, outfile_name=out, gulp=max(1, n // 2 + 1), quiet=True)
            except ValueError:
                pass
            else:
                h, data, err = c07.read_data(out)
                if err:
                    bad.append(err)
                elif h["nbits"] != b or data.shape != (n, nchans) or not np.array_equal(data, x.astype(np.float64)):
                    bad.append(f"requantize {a}->{b}: header nbits {h['nbits']}, shape {data.shape} for ({n},{nchans})")
    for b_ in bad:
        print("MISMATCH:", b_)
    return 1 if bad else 0
