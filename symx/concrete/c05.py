"""Concrete replay for C05 on the real codec with real struct / files."""
from __future__ import annotations

import json
import os
import struct
import sys
import tempfile

import numpy as np

STRS = ["", "J0", "B1937+21", "pad  ", " lead"]


def enc_str(s):
    return struct.pack("<I", len(s)) + s.encode()


def sample_value(fmt, rng):
    if fmt == "I":
        return int(rng.integers(1, 2**31))
    if fmt == "b":
        return int(rng.integers(-128, 128))
    return float(rng.normal() * 1e3)


def build(keys, rng, with_defaults=True, sshift=0):
    from sigpyproc.io.sigproc import header_keys
    ents = []
    for i, k in enumerate(keys):
        f = header_keys[k]
        if f == "str" and not with_defaults:      # same strings as the edit harness
            sv = STRS[2] if k == "source_name" else STRS[1]
        else:
            sv = STRS[(i + len(k) + sshift) % len(STRS)]
        ents.append((k, f, sv if f == "str" else sample_value(f, rng)))
    if with_defaults:
        if "nbits" not in keys:
            ents.append(("nbits", "I", 8))
        if "nchans" not in keys:
            ents.append(("nchans", "I", 4))
    b = enc_str("HEADER_START")
    for k, f, v in ents:
        b += enc_str(k) + (enc_str(v) if f == "str" else struct.pack(f, v))
    return b + enc_str("HEADER_END"), ents


def main(p):
    from sigpyproc.io import sigproc
    rng = np.random.default_rng(9)
    bad = []
    print("params:", json.dumps(p))
    with tempfile.TemporaryDirectory() as d:
        fn = os.path.join(d, "h.fil")
        if p["kind"] == "roundtrip":
            raw, ents = build(p["keys"], rng, sshift=p.get("sshift", 0))
            data = bytes(rng.integers(0, 256, 37, dtype=np.uint8))
            open(fn, "wb").write(raw + data)
            try:
                h = sigproc.parse_header(fn)
                if sigproc.encode_header(h) != raw:
                    bad.append("encode(parse(bytes)) != bytes")
                if h["hdrlen"] != len(raw) or h["datalen"] != len(data):
                    bad.append(f"hdrlen/datalen {h['hdrlen']}/{h['datalen']} != {len(raw)}/{len(data)}")
                for k, f, v in ents:
                    if h.get(k) != v:
                        bad.append(f"{k}: parsed {h.get(k)!r}, written {v!r}")
            except Exception as e:  # noqa: BLE001
                bad.append(f"raised {type(e).__name__}: {e}")
        elif p["kind"] == "edit":
            raw, ents = build(p["keys"], rng, with_defaults=False)
            data = bytes(rng.integers(0, 256, 64, dtype=np.uint8))
            open(fn, "wb").write(raw + data)
            f = sigproc.header_keys.get(p["ekey"], "I")
            kind = p["evalkind"]
            value = sample_value(f if f != "str" else "I", rng) if kind == "sym" else {"short": "X", "long": "a-much-longer-source-name"}.get(kind, kind)
            before = open(fn, "rb").read()
            try:
                sigproc.edit_header(fn, p["ekey"], value)
                after = open(fn, "rb").read()
                if len(after) != len(before) or after[len(raw):] != data:
                    bad.append("edit changed the file length or the data bytes")
                exp = []
                for k, ff, v in ents:
                    if k == p["ekey"]:
                        nv = value
                        if ff == "str" and isinstance(nv, str):
                            nv = nv[:len(v)] + " " * (len(v) - len(nv))
                        exp.append((k, ff, nv))
                    else:
                        exp.append((k, ff, v))
                want = enc_str("HEADER_START")
                for k, ff, v in exp:
                    want += enc_str(k) + (enc_str(v) if ff == "str" else struct.pack(ff, v))
                want += enc_str("HEADER_END")
                if after[:len(raw)] != want:
                    bad.append("bytes other than the edited key's value changed (or the value is not the requested one)")
            except Exception as e:  # noqa: BLE001
                if open(fn, "rb").read() != before:
                    bad.append(f"edit raised {type(e).__name__} but the file changed")
        elif p["kind"] == "frame":
            from sigpyproc.header import Header
            from .sigfile import write_set
            hdr = Header.from_sigproc(write_set(d, np.zeros((4, 2), np.uint8), 8, [4]))
            for fr in ("topocentric", "pulsarcentric", "barycentric"):
                out = os.path.join(d, fr + ".fil")
                w = hdr.new_header({"frame": fr}).prep_outfile(out)
                w.cwrite(np.zeros(8, np.uint8))
                w.close()
                back = Header.from_sigproc(out).frame
                if back != fr:
                    bad.append(f"frame {fr!r} read back as {back!r}")
        elif p["kind"] == "radec":
            c = sigproc.parse_radec(p["src_raj"], p["src_dej"])
            a = abs(p["src_dej"])
            want = (a // 10000 + (a % 10000) // 100 / 60 + (a % 100) / 3600) * (-1 if p["src_dej"] < 0 else 1)
            if abs(c.dec.deg - want) > 1e-5:
                bad.append(f"src_dej={p['src_dej']} parsed as {c.dec.deg} deg, expected {want}")
    for b in bad:
        print("MISMATCH:", b)
    return 1 if bad else 0
