"""Concrete replay for C05 on the real codec with real struct / files."""
from __future__ import annotations

import json
import os
import struct
import sys
import tempfile

import numpy as np

STRS = ["", "J0", "B1937+21", "pad  ", " lead"]


def enc_str(s):
    return struct.pack("<I", len(s)) + s.encode()


def sample_value(fmt, rng):
    if fmt == "I":
        return int(rng.integers(1, 2**31))
    if fmt == "b":
        return int(rng.integers(-128, 128))
    return float(rng.normal() * 1e3)


def build(keys, rng, with_defaults=True, sshift=0):
    from sigpyproc.io.sigproc import header_keys
    ents = []
    for i, k in enumerate(keys):
        f = header_keys[k]
        if f == "str" and not with_defaults:      # same strings as the edit harness
            sv = STRS[2] if k == "source_name" else STRS[1]
        else:
            sv = STRS[(i + len(k) + sshift) % len(STRS)]
        ents.append((k, f, sv if f == "str" else sample_value(f, rng)))
    if with_defaults:
        if "nbits" not in keys:
            ents.append(("nbits", "I", 8))
        if "nchans" not in keys:
            ents.append(("nchans", "I", 4))
    b = enc_str("HEADER_START")
    for k, f, v in ents:
        b += enc_str(k) + (enc_str(v) if f == "str" else struct.pack(f, v))
    return b + enc_str("HEADER_END"), ents


def main(p):
    from sigpyproc.io import sigproc
    rng = np.random.default_rng(9)
    bad = []
    print("params:", json.dumps(p))
    with tempfile.TemporaryDirectory() as d:
        fn = os.path.join(d, "h.fil")
        if p["kind"] == "roundtrip":
            raw, ents = build(p["keys"], rng, sshift=p.get("sshift", 0))
            data = bytes(rng.integers(0, 256, 37, dtype=np.uint8))
            open(fn, "wb").write(raw + data)
            try:
                h = sigproc.parse_header(fn)
                if sigproc.encode_header(h) != raw:
                    bad.append("encode(parse(bytes)) != bytes")
                if h["hdrlen"] != len(raw) or h["datalen"] != len(data):
                    bad.append(f"hdrlen/datalen {h['hdrlen']}/{h['datalen']} != {len(raw)}/{len(data)}")
                for k, f, v in ents:
                    if h.get(k) != v:
                        bad.append(f"{k}: parsed {h.get(k)!r}, written {v!r}")
            except Exception as e:  # noqa: BLE001
                bad.append(f"raised {type(e).__name__}: {e}")
        elif p["kind"] == "mapping":
            from astropy.coordinates import Angle, SkyCoord
            from sigpyproc.header import Header
            tel, be = p["telescope"], p["backend"]
            for dec in (22.0144, -0.50125, -45.123456):
                hdr = Header(filename=os.path.join(d, "obs.fil"), data_type=p["data_type"], nchans=4, foff=-0.390625, fch1=1510.0, nbits=8, tsamp=6.4e-5,
                             tstart=58000.25, nsamples=16, nifs=1, coord=SkyCoord(83.633212, dec, unit="deg"), azimuth=Angle("12.5d"), zenith=Angle("33.25d"),
                             telescope=tel, backend=be, source="J0534+2200", frame=p["frame"], ibeam=3, nbeams=13, dm=56.77, signed=True, rawdatafile="raw_0001.dat")
                w = hdr.prep_outfile(fn)
                w.cwrite(np.zeros(64, np.uint8))
                w.close()
                b = Header.from_sigproc(fn)
                exp_t = tel if tel in sigproc.telescope_ids else "Fake"
                exp_b = be if be in sigproc.machine_ids else "FAKE"
                for f in ("nchans", "foff", "fch1", "nbits", "tsamp", "tstart", "nsamples", "nifs", "source", "frame", "ibeam", "nbeams", "dm", "signed", "rawdatafile", "data_type"):
                    if getattr(hdr, f) != getattr(b, f):
                        bad.append(f"{f}: wrote {getattr(hdr, f)!r}, read {getattr(b, f)!r}")
                if b.telescope != exp_t or b.backend != exp_b:
                    bad.append(f"telescope/backend: wrote {tel}/{be}, read {b.telescope}/{b.backend}")
                if hdr.coord.separation(b.coord).arcsec > 0.01:
                    bad.append(f"sky position moved by {hdr.coord.separation(b.coord).arcsec} arcsec (dec {dec})")
                if abs(hdr.azimuth.deg - b.azimuth.deg) > 1e-9 or abs(hdr.zenith.deg - b.zenith.deg) > 1e-9:
                    bad.append(f"pointing angles: wrote {hdr.azimuth.deg}/{hdr.zenith.deg}, read {b.azimuth.deg}/{b.zenith.deg}")
        elif p["kind"] == "edit":
            raw, ents = build(p["keys"], rng, with_defaults=False)
            data = bytes(rng.integers(0, 256, 64, dtype=np.uint8))
            open(fn, "wb").write(raw + data)
            f = sigproc.header_keys.get(p["ekey"], "I")
            kind = p["evalkind"]
            value = sample_value(f if f != "str" else "I", rng) if kind == "sym" else {"short": "X", "long": "a-much-longer-source-name"}.get(kind, kind)
            before = open(fn, "rb").read()
            try:
                sigproc.edit_header(fn, p["ekey"], value)
                after = open(fn, "rb").read()
                if len(after) != len(before) or after[len(raw):] != data:
                    bad.append("edit changed the file length or the data bytes")
                exp = []
                for k, ff, v in ents:
                    if k == p["ekey"]:
                        nv = value
                        if ff == "str" and isinstance(nv, str):
                            nv = nv[:len(v)] + " " * (len(v) - len(nv))
                        exp.append((k, ff, nv))
                    else:
                        exp.append((k, ff, v))
                want = enc_str("HEADER_START")
                for k, ff, v in exp:
                    want += enc_str(k) + (enc_str(v) if ff == "str" else struct.pack(ff, v))
                want += enc_str("HEADER_END")
                if after[:len(raw)] != want:
                    bad.append("bytes other than the edited key's value changed (or the value is not the requested one)")
            except Exception as e:  # noqa: BLE001
                if open(fn, "rb").read() != before:
                    bad.append(f"edit raised {type(e).__name__} but the file changed")
        elif p["kind"] == "frame":
            from sigpyproc.header import Header
            from .sigfile import write_set
            hdr = Header.from_sigproc(write_set(d, np.zeros((4, 2), np.uint8), 8, [4]))
            for fr in ("topocentric", "pulsarcentric", "barycentric"):
                out = os.path.join(d, fr + ".fil")
                w = hdr.new_header({"frame": fr}).prep_outfile(out)
                w.cwrite(np.zeros(8, np.uint8))
                w.close()
                back = Header.from_sigproc(out).frame
                if back != fr:
                    bad.append(f"frame {fr!r} read back as {back!r}")
        elif p["kind"] == "radec":
            c = sigproc.parse_radec(p["src_raj"], p["src_dej"])
            a = abs(p["src_dej"])
            want = (a // 10000 + (a % 10000) // 100 / 60 + (a % 100) / 3600) * (-1 if p["src_dej"] < 0 else 1)
            if abs(c.dec.deg - want) > 1e-5:
                bad.append(f"src_dej={p['src_dej']} parsed as {c.dec.deg} deg, expected {want}")
    for b in bad:
        print("MISMATCH:", b)
    return 1 if bad else 0
