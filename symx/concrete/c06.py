"""Concrete driver for C06: real streaming reductions on real files vs numpy on the array written."""
from __future__ import annotations

import json
import sys
import tempfile

import numpy as np

from .sigfile import random_samples, write_set


def run(p):
    from sigpyproc.readers import FilReader
    rng = np.random.default_rng(p.get("seed", 1))
    N = sum(p["splits"])
    nchans, nbits = p["nchans"], p["nbits"]
    x = random_samples(rng, N, nchans, nbits).astype(np.float64)
    bad = []
    start, nsamps, gulp = p["start"], p["nsamps"], p["gulp"]
    ne = N - start if nsamps is None else nsamps
    sel = x[start:start + ne]
    with tempfile.TemporaryDirectory() as d:
        names = write_set(d, x.astype(np.float32) if nbits == 32 else x.astype(np.uint16 if nbits == 16 else np.uint8), nbits, p["splits"])
        fil = FilReader(names, check_contiguity=False)
        op = p["op"]
        try:
            if op == "collapse":
                out = fil.collapse(gulp=gulp, start=start, nsamps=nsamps, quiet=True)
                ref = sel.sum(axis=1)
            elif op == "bandpass":
                out = fil.bandpass(gulp=gulp, start=start, nsamps=nsamps, quiet=True)
                ref = sel.mean(axis=0)
            elif op == "read_chan":
                out = fil.read_chan(p["ichan"], gulp=gulp, start=start, nsamps=nsamps, quiet=True)
                ref = sel[:, p["ichan"]]
            elif op == "dedisperse":
                delays = np.array(p["delays"], dtype=np.int32)
                from unittest import mock
                from sigpyproc.header import Header
                with mock.patch.object(Header, "get_dmdelays", lambda self, dm, *a, **k: delays):
                    out = fil.dedisperse(1.0, gulp=gulp, start=start, nsamps=nsamps, quiet=True)
                D = int(delays.max())
                ref = np.array([sum(sel[t + delays[c], c] for c in range(nchans)) for t in range(ne - D)])
            elif op in ("compute_stats", "compute_stats_basic"):
                getattr(fil, op)(gulp=gulp, start=start, nsamps=nsamps, quiet=True)
                cs = fil.chan_stats
                if not np.array_equal(cs.moments["count"], np.full(nchans, ne)):
                    bad.append(f"count {cs.moments['count']} != {ne}")
                if not np.allclose(cs.mean, sel.mean(axis=0), rtol=1e-4, atol=1e-4):
                    bad.append(f"mean {cs.mean} != {sel.mean(axis=0)}")
                if not np.allclose(cs.var, sel.var(axis=0), rtol=1e-3, atol=1e-3):
                    bad.append(f"var {cs.var} != two-pass {sel.var(axis=0)}")
                if not (np.array_equal(cs.maxima, sel.max(axis=0)) and np.array_equal(cs.minima, sel.min(axis=0))):
                    bad.append("min/max differ")
                return ("ok", ne), bad
            else:
                raise RuntimeError(op)
        except Exception as e:  # noqa: BLE001
            bad.append(f"in-range {op}(gulp={gulp}, start={start}, nsamps={nsamps}) raised {type(e).__name__}: {e}")
            return ("raise", type(e).__name__), bad
        got = np.asarray(out.data, dtype=np.float64)
        if got.shape != ref.shape:
            bad.append(f"{op}: output length {got.shape} != {ref.shape}")
        elif not np.allclose(got, ref, rtol=1e-5, atol=1e-5):
            k = int(np.argmax(~np.isclose(got, ref, rtol=1e-5, atol=1e-5)))
            bad.append(f"{op}: element {k} is {got[k]}, definition gives {ref[k]}")
        if out.header.nsamples != got.size:
            bad.append(f"{op}: header.nsamples {out.header.nsamples} != data length {got.size}")
        return ("ok", int(got.size)), bad


def main(p):
    out, bad = run(p)
    print("params:", json.dumps(p))
    print("outcome:", out)
    for b in bad:
        print("MISMATCH:", b)
    return 1 if bad else 0


if __name__ == "__main__":
    sys.exit(main(json.loads(sys.argv[1])))
