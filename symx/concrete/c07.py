"""Concrete driver for C07/C20/C08: real streaming file-to-file transforms on real files vs
whole-array numpy definitions; also checks that the output is a well-formed file of its
declared depth (read back with an independent parser)."""
from __future__ import annotations

import json
import os
import struct
import sys
import tempfile

import numpy as np

from .sigfile import random_samples, write_set


def parse(fn):
    """independent minimal SIGPROC header parser -> (dict, hdrlen)"""
    b = open(fn, "rb").read()
    pos = 0

    def rs():
        nonlocal pos
        n = struct.unpack("<I", b[pos:pos + 4])[0]
        s = b[pos + 4:pos + 4 + n].decode()
        pos += 4 + n
        return s
    from sigpyproc.io.sigproc import header_keys
    assert rs() == "HEADER_START"
    h = {}
    while True:
        k = rs()
        if k == "HEADER_END":
            break
        t = header_keys[k]
        if t == "str":
            h[k] = rs()
        else:
            sz = struct.calcsize(t)
            h[k] = struct.unpack(t, b[pos:pos + sz])[0]
            pos += sz
    return h, pos, b


def read_data(fn):
    h, hl, b = parse(fn)
    nbits, nchans = h["nbits"], h["nchans"]
    raw = np.frombuffer(b[hl:], dtype=np.uint8)
    nbytes = len(raw)
    if (nbytes * 8) % (nbits * nchans) != 0:
        return h, None, f"data section of {nbytes} bytes is not a whole number of {nchans}x{nbits}-bit samples"
    if nbits in (1, 2, 4):
        f = 8 // nbits
        out = np.zeros(nbytes * f, np.uint8)
        for k in range(f):
            pos = k if nbits == 1 else (f - 1 - k)
            out[k::f] = (raw >> (pos * nbits)) & ((1 << nbits) - 1)
        d = out
    elif nbits == 8:
        d = raw
    elif nbits == 16:
        d = raw.view("<u2")
    else:
        d = raw.view("<f4")
    return h, d.reshape(-1, nchans).astype(np.float64), None


def cast_out(v, nbits):
    if nbits == 32:
        return v
    return np.trunc(v)


def run(p):
    from sigpyproc.readers import FilReader
    rng = np.random.default_rng(p.get("seed", 1))
    N = sum(p["splits"])
    nchans, nbits = p["nchans"], p["nbits"]
    xi = random_samples(rng, N, nchans, nbits)
    x = xi.astype(np.float64)
    start, nsamps, gulp = p["start"], p["nsamps"], p["gulp"]
    ne = N - start if nsamps is None else nsamps
    sel = x[start:start + ne]
    bad = []
    op = p["op"]
    tsamp, tstart, fch1, foff = 0.001, 50000.0, 1500.0, -1.0
    with tempfile.TemporaryDirectory() as d:
        names = write_set(d, xi, nbits, p["splits"], tsamp=tsamp, tstart=tstart, fch1=fch1, foff=foff)
        fil = FilReader(names, check_contiguity=False)
        kw = dict(gulp=gulp, start=start, nsamps=nsamps, quiet=True)
        outs = []   # (filename, expected (T,C) array, expected nbits, expected header updates)
        try:
            if op == "invert_freq":
                o = fil.invert_freq(outfile_name=os.path.join(d, "o.fil"), **kw)
                outs.append((o, sel[:, ::-1], nbits, dict(fch1=fch1 + (nchans - 1) * foff, foff=-foff, nchans=nchans)))
            elif op == "apply_channel_mask":
                m = np.array(p["mask"], dtype=bool)
                o = fil.apply_channel_mask(m, p["maskvalue"], outfile_name=os.path.join(d, "o.fil"), **kw)
                e = sel.copy()
                e[:, m] = p["maskvalue"]
                outs.append((o, e, nbits, dict(fch1=fch1, foff=foff, nchans=nchans)))
            elif op == "extract_samps":
                o = fil.extract_samps(start, ne, outfile_name=os.path.join(d, "o.fil"), gulp=gulp, quiet=True)
                outs.append((o, sel, nbits, dict(fch1=fch1, foff=foff, nchans=nchans, tstart=tstart + start * tsamp / 86400.0)))
            elif op == "extract_chans":
                fs = fil.extract_chans(np.array(p["chans"]), outfile_base=os.path.join(d, "o"), batch_size=p.get("batch_size", 200), **kw)
                for f, c in zip(fs, p["chans"]):
                    outs.append((f, sel[:, [c]], 32, dict(nchans=1)))
            elif op == "extract_bands":
                cs, ncs, cps = p["chanstart"], p["nchans_sel"], p["chanpersub"]
                fs = fil.extract_bands(cs, ncs, cps, outfile_base=os.path.join(d, "o"), batch_size=p.get("batch_size", 200), **kw)
                if len(fs) < ncs // cps:
                    bad.append(f"extract_bands wrote {len(fs)} files, the request needs {ncs // cps}")
                for b_, f in enumerate(fs):
                    lo = cs + b_ * cps
                    outs.append((f, sel[:, lo:lo + cps], nbits, dict(nchans=cps, fch1=fch1 + lo * foff, foff=foff)))
            elif op == "downsample":
                tf, ff = p["tfactor"], p["ffactor"]
                o = fil.downsample(tfactor=tf, ffactor=ff, outfile_name=os.path.join(d, "o.fil"), **kw)
                # definition per block of the (tfactor-rounded) gulp: full groups, remainder of each block dropped
                g = int(np.ceil(gulp / tf) * tf)
                g = min(g, ne)
                rows = []
                pos = 0
                while pos < ne:
                    blk = sel[pos:pos + g]
                    nt = blk.shape[0] // tf
                    if nt:
                        rows.append(cast_out(blk[:nt * tf].reshape(nt, tf, nchans // ff, ff).mean(axis=(1, 3)), nbits))
                    pos += g
                e = np.concatenate(rows) if rows else np.zeros((0, nchans // ff))
                whole = cast_out(sel[:(ne // tf) * tf].reshape(ne // tf, tf, nchans // ff, ff).mean(axis=(1, 3)), nbits)
                if e.shape != whole.shape or not np.array_equal(e, whole):
                    e = whole   # the property's definition is the whole-array one
                outs.append((o, e, nbits, dict(nchans=nchans // ff, tsamp=tsamp * tf, foff=foff * ff)))
            elif op == "subband":
                from unittest import mock
                from sigpyproc.header import Header
                delays = np.array(p["delays"], dtype=np.int32)
                nsub = p["nsub"]
                with mock.patch.object(Header, "get_dmdelays", lambda self, dm, *a, **k: delays):
                    o = fil.subband(1.0, nsub, outfile_name=os.path.join(d, "o.fil"), **kw)
                D = int(delays.max())
                sf = nchans // nsub
                e = np.zeros((ne - D, nsub))
                for t in range(ne - D):
                    for c in range(nchans):
                        e[t, c // sf] += sel[t + delays[c], c]
                outs.append((o, e, 32, dict(nchans=nsub)))
            elif op == "remove_zerodm":
                o = fil.remove_zerodm(outfile_name=os.path.join(d, "o.fil"), **kw)
                bp = x.mean(axis=0).astype(np.float32).astype(np.float64)
                cw = (bp / bp.sum())
                e = (sel - sel.sum(axis=1, keepdims=True) * cw) + bp
                outs.append((o, e, nbits, dict(nchans=nchans, tol=1.0 if nbits != 32 else 1e-3)))
            else:
                raise RuntimeError(op)
        except Exception as e:  # noqa: BLE001
            bad.append(f"{op}({p}) raised {type(e).__name__}: {e}")
            return ("raise", type(e).__name__), bad
        shapes = []
        for fn, exp, enb, hd in outs:
            h, got, err = read_data(fn)
            if h["nbits"] != enb:
                bad.append(f"{os.path.basename(fn)}: header nbits {h['nbits']} != {enb}")
            if err:
                bad.append(f"{os.path.basename(fn)}: {err}")
                continue
            shapes.append(list(got.shape))
            tol = hd.pop("tol", 0)
            if got.shape != exp.shape:
                bad.append(f"{os.path.basename(fn)}: data section holds {got.shape} (samples, channels), definition gives {exp.shape}")
            else:
                ok = np.all(np.abs(got - exp) <= tol + 1e-9 * np.abs(exp)) if tol else np.array_equal(got, exp) or np.allclose(got, exp, rtol=1e-6, atol=1e-6)
                if not ok:
                    k = np.argwhere(~np.isclose(got, exp, rtol=1e-6, atol=max(tol, 1e-6)))[0]
                    bad.append(f"{os.path.basename(fn)}: sample {tuple(int(i) for i in k)} is {got[tuple(k)]}, definition gives {exp[tuple(k)]}")
            for k_, v in hd.items():
                if k_ in h and abs(h[k_] - v) > 1e-9 * max(1, abs(v)):
                    bad.append(f"{os.path.basename(fn)}: header {k_}={h[k_]}, expected {v}")
                elif k_ not in h:
                    bad.append(f"{os.path.basename(fn)}: header lacks {k_}")
        return ("ok", shapes), bad


def main(p):
    out, bad = run(p)
    print("params:", json.dumps(p))
    print("outcome:", out)
    for b in bad:
        print("MISMATCH:", b)
    return 1 if bad else 0


if __name__ == "__main__":
    sys.exit(main(json.loads(sys.argv[1])))
