"""Concrete replay for C08: headers of real outputs vs the data they contain."""
from __future__ import annotations

import json
import os
import sys
import tempfile

import numpy as np

from .sigfile import random_samples, write_set


def main_mjd(p):
    from sigpyproc.header import Header
    bad = []
    with tempfile.TemporaryDirectory() as d:
        for tsamp, tstart in ((0.001, 50000.0), (6.4e-5, 58123.456789), (1.0, 58000.5)):
            hdr = Header.from_sigproc(write_set(d, np.zeros((4, 2), np.uint8), 8, [4], tsamp=tsamp, tstart=tstart))
            for n in (0, 1, 7, 1000, 123456, 86400000):
                got = hdr.mjd_after_nsamps(n)
                want = tstart + n * tsamp / 86400.0     # epochs chosen after the last leap second (2017-01-01): UTC days are 86400 s
                if abs(got - want) * 86400.0 > 5e-6 + 1e-11 * abs(want) * 86400.0:
                    bad.append(f"mjd_after_nsamps({n}) with tstart={tstart}, tsamp={tsamp} = {got!r}, expected {want!r}")
    print("params:", json.dumps(p))
    for b in bad[:3]:
        print("MISMATCH:", b)
    return 1 if bad else 0


def main_methods(p):
    """headers of containers derived from containers, on the real classes"""
    from sigpyproc.block import FilterbankBlock
    from sigpyproc.header import Header
    from sigpyproc.timeseries import TimeSeries
    bad = []
    rng = np.random.default_rng(8)
    with tempfile.TemporaryDirectory() as d:
        hdr = Header.from_sigproc(write_set(d, np.zeros((16, 4), np.uint8), 8, [16], tsamp=0.002, tstart=58000.0, fch1=1500.0, foff=-50.0))
    for n, factor in ((7, 2), (9, 3), (8, 4), (5, 5)):
        ts = TimeSeries(rng.normal(size=n).astype(np.float32), hdr.new_header({"nchans": 1, "nsamples": n}))
        o = ts.downsample(factor)
        if abs(o.header.tsamp - 0.002 * factor) > 1e-15 or o.header.nsamples != n // factor or o.data.size != n // factor:
            bad.append(f"TimeSeries.downsample(n={n}, factor={factor}): tsamp {o.header.tsamp} (expected {0.002 * factor}), nsamples {o.header.nsamples}, data {o.data.size}")
    ts = TimeSeries(rng.normal(size=6).astype(np.float32), hdr.new_header({"nchans": 1, "nsamples": 6}))
    o = ts.pad(3)
    if o.header.nsamples != 9 or o.data.size != 9:
        bad.append(f"TimeSeries.pad: nsamples {o.header.nsamples}, data {o.data.size}")
    x = rng.integers(0, 50, (4, 16)).astype(np.float32)
    blk = FilterbankBlock(x, hdr.new_header({"nsamples": 16}), dm=12.5)
    t = blk.get_tim()
    if t.header.dm != 12.5 or t.header.nchans != 1 or t.data.size != 16:
        bad.append(f"get_tim of a block with dm=12.5: header dm {t.header.dm}, nchans {t.header.nchans}, {t.data.size} samples")
    for valid in (False, True):
        dd = FilterbankBlock(x, hdr.new_header({"nsamples": 16})).dedisperse(30.0, only_valid_samples=valid)
        if dd.dm != 30.0 or dd.header.nsamples != dd.data.shape[1]:
            bad.append(f"dedisperse(30, valid={valid}): block dm {dd.dm}, header nsamples {dd.header.nsamples} vs {dd.data.shape[1]}")
        t = dd.get_tim()
        if t.header.dm != 30.0:
            bad.append(f"dedisperse(30, valid={valid}).get_tim(): header dm {t.header.dm}")
    print("params:", json.dumps(p))
    for b in bad[:4]:
        print("MISMATCH:", b)
    return 1 if bad else 0


def main(p):
    """file transforms: the C07 driver already compares header fields (nbits, nchans, fch1, foff, tsamp, tstart)"""
    if p.get("kind") == "mjd":
        return main_mjd(p)
    if p.get("kind") == "methods":
        return main_methods(p)
    from . import c07
    q = dict(p)
    q.pop("check", None)
    q.pop("chan", None)
    out, bad = c07.run(q)
    bad = [b for b in bad if "header" in b or "raised" in b or "lacks" in b]
    # tstart for start > 0
    print("params:", json.dumps(p))
    extra = tstart_check(p)
    for b in bad + extra:
        print("MISMATCH:", b)
    return 1 if (bad or extra) else 0


def tstart_check(p):
    from sigpyproc.readers import FilReader
    from unittest import mock
    from sigpyproc.header import Header
    bad = []
    rng = np.random.default_rng(1)
    N = sum(p["splits"])
    f0, fo = p.get("chan", (1500.0, -1.0))
    x = random_samples(rng, N, p["nchans"], p["nbits"])
    tsamp, tstart = 0.001, 50000.0
    with tempfile.TemporaryDirectory() as d:
        names = write_set(d, x, p["nbits"], p["splits"], tsamp=tsamp, tstart=tstart, fch1=f0, foff=fo)
        fil = FilReader(names, check_contiguity=False)
        kw = dict(gulp=p["gulp"], start=p["start"], nsamps=p["nsamps"], quiet=True)
        op = p["op"]
        outs = []
        delays = np.array(p.get("delays") or [0] * p["nchans"], dtype=np.int32)
        with mock.patch.object(Header, "get_dmdelays", lambda self, dm, *a, **k: delays):
            o = os.path.join(d, "o.fil")
            if op == "invert_freq":
                outs = [(fil.invert_freq(outfile_name=o, **kw), lambda c: p["nchans"] - 1 - c, 1)]
            elif op == "apply_channel_mask":
                outs = [(fil.apply_channel_mask(np.array(p["mask"], bool), p["maskvalue"], outfile_name=o, **kw), lambda c: c, 1)]
            elif op == "extract_samps":
                outs = [(fil.extract_samps(p["start"], p["nsamps"], outfile_name=o, gulp=p["gulp"], quiet=True), lambda c: c, 1)]
            elif op == "extract_chans":
                outs = [(f, (lambda c, ch=ch: ch), 1) for f, ch in zip(fil.extract_chans(np.array(p["chans"]), outfile_base=os.path.join(d, "o"), batch_size=p.get("batch_size", 200), **kw), p["chans"])]
            elif op == "extract_bands":
                fs = fil.extract_bands(p["chanstart"], p["nchans_sel"], p["chanpersub"], outfile_base=os.path.join(d, "o"), batch_size=p.get("batch_size", 200), **kw)
                outs = [(f, (lambda c, lo=p["chanstart"] + b * p["chanpersub"]: lo + c), 1) for b, f in enumerate(fs)]
            elif op == "downsample":
                ff = p["ffactor"]
                outs = [(fil.downsample(tfactor=p["tfactor"], ffactor=ff, outfile_name=o, **kw), lambda c: (c * ff, c * ff + ff - 1), ff)]
            elif op == "subband":
                sf = p["nchans"] // p["nsub"]
                outs = [(fil.subband(1.0, p["nsub"], outfile_name=o, **kw), lambda c: (c * sf, c * sf + sf - 1), sf)]
            elif op == "remove_zerodm":
                outs = [(fil.remove_zerodm(outfile_name=o, **kw), lambda c: c, 1)]
        for fn, span, width in outs:
            h = FilReader(fn).header
            exp = tstart + p["start"] * tsamp / 86400.0
            if abs(h.tstart - exp) * 86400.0 > 5e-6:
                bad.append(f"{os.path.basename(fn)}: tstart {h.tstart!r}, input advanced by start*tsamp is {exp!r}")
            for c in range(h.nchans):
                sp = span(c)
                a, b = sp if isinstance(sp, tuple) else (sp, sp)
                lo, hi = sorted((f0 + a * fo, f0 + b * fo))
                lab = h.fch1 + c * h.foff
                if not (lo - 1e-6 <= lab <= hi + 1e-6):
                    bad.append(f"{os.path.basename(fn)}: channel {c} labelled {lab}, its input channel(s) span [{lo},{hi}]")
                    break
            if abs(abs(h.foff) - abs(fo) * width) > 1e-9:
                bad.append(f"{os.path.basename(fn)}: foff {h.foff}, expected magnitude {abs(fo) * width}")
    return bad


def main_container(p):
    from sigpyproc.readers import FilReader
    from unittest import mock
    from sigpyproc.header import Header
    rng = np.random.default_rng(1)
    N = sum(p["splits"])
    x = random_samples(rng, N, p["nchans"], p["nbits"])
    tsamp, tstart, f0, fo = 0.001, 50000.0, 1500.0, -1.0
    bad = []
    with tempfile.TemporaryDirectory() as d:
        names = write_set(d, x, p["nbits"], p["splits"], tsamp=tsamp, tstart=tstart, fch1=f0, foff=fo)
        fil = FilReader(names, check_contiguity=False)
        kw = dict(gulp=p["gulp"], start=p["start"], nsamps=p["nsamps"], quiet=True)
        delays = np.array(p.get("delays") or [0] * p["nchans"], dtype=np.int32)
        with mock.patch.object(Header, "get_dmdelays", lambda self, dm, *a, **k: delays):
            if p["op"] == "collapse":
                ts, dm = fil.collapse(**kw), 0
            elif p["op"] == "read_chan":
                ts, dm = fil.read_chan(p["ichan"], **kw), 0
            else:
                ts, dm = fil.dedisperse(1.0, **kw), 1.0
        h = ts.header
        if h.nsamples != ts.data.size:
            bad.append(f"nsamples {h.nsamples} != data length {ts.data.size}")
        if h.nchans != 1:
            bad.append(f"nchans {h.nchans}")
        if h.dm != dm:
            bad.append(f"dm {h.dm} != applied {dm}")
        exp = tstart + p["start"] * tsamp / 86400.0
        if abs(h.tstart - exp) * 86400.0 > 5e-6:
            bad.append(f"tstart {h.tstart!r}, input advanced by start*tsamp is {exp!r}")
        if p["op"] == "read_chan" and abs(h.fch1 - (f0 + p["ichan"] * fo)) > 1e-9:
            bad.append(f"fch1 {h.fch1} does not label channel {p['ichan']} ({f0 + p['ichan'] * fo})")
    print("params:", json.dumps(p))
    for b in bad:
        print("MISMATCH:", b)
    return 1 if bad else 0


def main_readblock(p):
    from sigpyproc.readers import FilReader
    f0, fo, k, C = p["fch1"], p["foff"], p["k"], p["nchans"]
    x = (np.arange(C, dtype=np.uint16) % 251).astype(np.uint8)[None, :].repeat(2, axis=0)
    bad = []
    with tempfile.TemporaryDirectory() as d:
        names = write_set(d, x, 8, [2], fch1=f0, foff=fo)
        fil = FilReader(names)
        label = f0 + k * fo
        try:
            blk = fil.read_block(0, 2, fch1=label, nchans=1)
            if blk.data[0, 0] != x[0, k]:
                got = [c for c in range(C) if x[0, c] == blk.data[0, 0] and abs(c - k) < 3]
                bad.append(f"read_block(fch1={label!r}) (label of channel {k}) returned channel {got}")
        except Exception as e:  # noqa: BLE001
            bad.append(f"raised {type(e).__name__}: {e}")
    print("params:", json.dumps(p))
    for b in bad:
        print("MISMATCH:", b)
    return 1 if bad else 0
