"""Concrete replay for C09 against the real kernels / FilterbankBlock / FilReader."""
from __future__ import annotations

import json
import sys
import tempfile

import numpy as np

from .sigfile import write_set


def main(p):
    from unittest import mock
    from sigpyproc.core import kernels as K
    from sigpyproc.header import Header
    bad = []
    print("params:", json.dumps(p))
    rng = np.random.default_rng(2)
    if p["kind"] == "kernel":
        rows, cols = p["rows"], p["cols"]
        x = rng.integers(1, 50, (rows, cols)).astype(np.float32)
        name = p["kernel"]
        if name in ("roll_block", "roll_block_valid"):
            sh = np.array(p["shifts"], dtype=np.int32)
            mx, mn = max(0, int(sh.max())), min(0, int(sh.min()))
            try:
                r = getattr(K, name)(x, sh)
            except ValueError as e:
                if name == "roll_block" or cols + mn - mx > 0:
                    bad.append(f"{name} raised although valid columns exist: {e}")
                r = None
            if r is not None:
                if name == "roll_block":
                    want = np.stack([np.roll(x[i], int(sh[i])) for i in range(rows)])
                else:
                    if cols + mn - mx <= 0:
                        bad.append(f"{name} returned {r.shape} although no valid column exists")
                        want = r
                    else:
                        want = np.stack([x[i, mx - sh[i]: cols + mn - sh[i]] for i in range(rows)])
                if r.shape != want.shape or not np.array_equal(r, want):
                    bad.append(f"{name}(shifts={sh.tolist()}) = {r.tolist()}, definition gives {want.tolist()}")
        else:
            ndm = p["ndm"]
            dl = np.array(p["shifts"], dtype=np.int32).reshape(ndm, rows)
            mx, mn = max(0, int(dl.max())), min(0, int(dl.min()))
            try:
                r = getattr(K, name)(x, dl)
            except ValueError as e:
                if name == "dmt_block" or cols + mn - mx > 0:
                    bad.append(f"{name} raised although valid columns exist: {e}")
                r = None
            if r is not None:
                if name == "dmt_block":
                    want = np.stack([sum(np.roll(x[c], int(dl[d, c])) for c in range(rows)) for d in range(ndm)])
                else:
                    want = np.stack([sum(x[c, mx - dl[d, c]: cols + mn - dl[d, c]] for c in range(rows)) for d in range(ndm)])
                if r.shape != want.shape or not np.allclose(r, want):
                    bad.append(f"{name}(delays={dl.tolist()}) = {np.asarray(r).tolist()}, definition gives {want.tolist()}")
    elif p["kind"] == "block":
        from sigpyproc.block import FilterbankBlock
        rows, cols = p["rows"], p["cols"]
        x = rng.integers(1, 50, (rows, cols)).astype(np.float32)
        with tempfile.TemporaryDirectory() as d:
            names = write_set(d, np.zeros((cols, rows), np.uint8), 8, [cols])
            hdr = Header.from_sigproc(names)
        blk = FilterbankBlock(x, hdr.new_header({"nsamples": cols, "nchans": rows}))
        if p["method"] == "dedisperse":
            dl = np.array(p["delays"], dtype=np.int32)
            D = int(dl.max())
            with mock.patch.object(Header, "get_dmdelays", lambda self, dm, **k: dl):
                try:
                    out = blk.dedisperse(10.0, only_valid_samples=p["valid"])
                except ValueError as e:
                    out = None
                    if not p["valid"] or D < cols:
                        bad.append(f"dedisperse raised: {e}")
            if out is not None:
                if p["valid"]:
                    want = np.stack([x[c, dl[c]: cols - D + dl[c]] for c in range(rows)])
                else:
                    want = np.stack([np.roll(x[c], -int(dl[c])) for c in range(rows)])
                if out.data.shape != want.shape or not np.array_equal(np.asarray(out.data), want):
                    bad.append(f"dedisperse(delays={dl.tolist()}, valid={p['valid']}) differs from x[c,t+delay_c]: {np.asarray(out.data).tolist()} vs {want.tolist()}")
                if out.header.nsamples != out.data.shape[1]:
                    bad.append("header nsamples != data length")
        else:
            ndm = p["ndm"]
            dl = np.array(p["delays"], dtype=np.int32).reshape(ndm, rows)
            D = int(dl.max())
            with mock.patch.object(Header, "get_dmdelays", lambda self, dm, **k: dl):
                try:
                    out = blk.dmt_transform(10.0, dmsteps=ndm, only_valid_samples=p["valid"])
                except ValueError as e:
                    out = None
                    if not p["valid"] or D < cols:
                        bad.append(f"dmt_transform raised: {e}")
            if out is not None:
                if p["valid"]:
                    want = np.stack([sum(x[c, dl[d, c]: cols - D + dl[d, c]] for c in range(rows)) for d in range(ndm)])
                else:
                    want = np.stack([sum(np.roll(x[c], -int(dl[d, c])) for c in range(rows)) for d in range(ndm)])
                if out.data.shape != want.shape or not np.allclose(np.asarray(out.data), want):
                    bad.append(f"dmt_transform(delays={dl.tolist()}, valid={p['valid']}) rows differ from sum_c x[c,t+delay_c]: {np.asarray(out.data).tolist()} vs {want.tolist()}")
    elif p["kind"] == "read_dedisp_block":
        from sigpyproc.readers import FilReader
        nchans, nsamps, start = p["nchans"], p["nsamps"], p["start"]
        dl = np.array(p["delays"], dtype=np.int32)
        N = start + nsamps + int(dl.max()) + 2
        x = rng.integers(1, 200, (N, nchans)).astype(np.uint8)
        with tempfile.TemporaryDirectory() as d:
            names = write_set(d, x, 8, [N])
            fil = FilReader(names)
            with mock.patch.object(Header, "get_dmdelays", lambda self, dm, **k: dl):
                try:
                    blk = fil.read_dedisp_block(start, nsamps, 10.0)
                    want = np.stack([x[start + dl[c]: start + dl[c] + nsamps, c] for c in range(nchans)])
                    if blk.data.shape != want.shape or not np.array_equal(np.asarray(blk.data), want):
                        bad.append(f"read_dedisp_block(start={start}, nsamps={nsamps}, delays={dl.tolist()}) = {np.asarray(blk.data).tolist()}, x[c,t+delay_c] = {want.tolist()}")
                except Exception as e:  # noqa: BLE001
                    bad.append(f"raised {type(e).__name__}: {e}")
    elif p["kind"] == "reffreq":
        DM_CONSTANT_LK = 4.148808e3      # the documented constant
        nch, rf = p["nchans"], p["ref_freq"]
        fch1, foff = float(p.get("fch1", 1500.0)), float(p.get("foff", -1.0))
        cases = [(fch1, foff)] if 100 < fch1 < 1e5 and 1e-3 < abs(foff) < 50 and fch1 + foff * nch > 50 else []
        cases += [(1500.0, -2.0), (1200.0, 1.5)]
        for fch1, foff in cases:
            with tempfile.TemporaryDirectory() as d:
                names = write_set(d, np.zeros((4, nch), np.uint8), 8, [4], fch1=fch1, foff=foff)
                hdr = Header.from_sigproc(names)
            cf = fch1 + foff * np.arange(nch)
            want = {"ch1": fch1, "max": cf.max(), "min": cf.min(), "center": 0.5 * (cf.max() + cf.min())}.get(rf, rf)
            try:
                got = np.atleast_1d(hdr.get_dmdelays(10.0, ref_freq=rf, in_samples=False)).astype(np.float64)
            except ValueError as e:
                if rf != "bogus":
                    bad.append(f"raised {e}")
                continue
            if rf == "bogus":
                bad.append("an undefined reference frequency name was accepted")
                continue
            exact = DM_CONSTANT_LK * 10.0 * (cf ** -2.0 - float(want) ** -2.0)
            if not np.allclose(got, exact, rtol=2e-3, atol=1e-6):
                bad.append(f"get_dmdelays(ref_freq={rf!r}) on fch1={fch1}, foff={foff}, nchans={nch} = {got.tolist()} but the delays relative to {want} MHz are {exact.tolist()}")
    elif p["kind"] == "delays":
        from sigpyproc.params import compute_dmdelays
        DM_CONSTANT_LK = 4.148808e3      # the documented constant
        f = np.array(p["freqs"], dtype=np.float64)
        ref, dm, ts = p["ref"], p["dm"], p["tsamp"]
        d = np.atleast_1d(compute_dmdelays(f, dm, ts, ref)).astype(np.int64)
        dn = np.atleast_1d(compute_dmdelays(f, -dm, ts, ref)).astype(np.int64)
        exact = DM_CONSTANT_LK * dm * (f ** -2.0 - ref ** -2.0) / ts
        near = np.abs(np.abs(exact - np.floor(exact)) - 0.5) < 1e-3     # too close to a rounding boundary to judge in float32
        if int(np.atleast_1d(compute_dmdelays(np.array([ref]), dm, ts, ref))[0]) != 0:
            bad.append("delay at the reference frequency is not zero")
        if np.any((d != -dn) & ~near):
            bad.append(f"delays({dm}) = {d.tolist()} but delays({-dm}) = {dn.tolist()} (not antisymmetric)")
        if np.any((np.abs(d - exact) > 0.5 + 1e-3) & ~near):
            bad.append(f"delays {d.tolist()} are not the formula {exact.tolist()} rounded to the nearest sample")
        o = np.argsort(f)
        if dm >= 0 and np.any(np.diff(d[o]) > 0):
            bad.append(f"delays {d[o].tolist()} increase with frequency")
    for b in bad:
        print("MISMATCH:", b[:700])
    return 1 if bad else 0


if __name__ == "__main__":
    sys.exit(main(json.loads(sys.argv[1])))
