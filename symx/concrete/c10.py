"""Concrete replay for C10 against the real ChannelStats / compiled kernels."""
from __future__ import annotations

import json
import sys

import numpy as np


def two_pass(x):
    x = np.asarray(x, dtype=np.float64)
    m = x.mean(axis=0)
    d = x - m
    return dict(count=x.shape[0], m1=m, m2=(d**2).sum(0), m3=(d**3).sum(0), m4=(d**4).sum(0), min=x.min(0), max=x.max(0))


def push(cs, x, chunks, mode):
    pos = 0
    for ci, n in enumerate(chunks):
        cs.push_data(np.ascontiguousarray(x[pos:pos + n]).ravel().astype(np.float32), ci, mode=mode)
        pos += n


def compare(bad, what, cs, ref, fields):
    for f in fields:
        got = np.asarray(cs.moments[f], dtype=np.float64)
        want = np.asarray(ref[f], dtype=np.float64) if f != "count" else np.full(got.shape, ref[f])
        scale = np.maximum(1.0, np.abs(want))
        if not np.all(np.abs(got - want) <= 2e-3 * scale):
            bad.append(f"{what}: {f} = {got.tolist()}, two-pass float64 definition gives {want.tolist()}")


def main(p):
    from sigpyproc.core.stats import ChannelStats
    bad = []
    print("params:", json.dumps(p))
    if p["kind"] in ("chunks", "merge"):
        nch = p["nchans"]
        x = np.array(p["data"], dtype=np.float64).reshape(-1, nch)
        scale = max(1.0, float(np.abs(x).max()))
        x = x / scale * 8.0   # keep float32 accumulation error small; the identities are scale free
        x = np.round(x * 16) / 16
        ref = two_pass(x)
        if p["kind"] == "chunks":
            cs = ChannelStats(nch, x.shape[0])
            push(cs, x, p["chunks"], p["mode"])
            fields = ("count", "m1", "m2", "m3", "m4", "min", "max") if p["mode"] == "full" else ("count", "m1", "m2", "min", "max")
            compare(bad, f"chunks {p['chunks']}", cs, ref, fields)
        else:
            s = p["split"]
            a, b = ChannelStats(nch, s), ChannelStats(nch, x.shape[0] - s)
            push(a, x[:s], p["chunks_a"], "full")
            push(b, x[s:], p["chunks_b"], "full")
            compare(bad, f"merge at {s}", a + b, ref, ("count", "m1", "m2", "m3", "m4", "min", "max"))
    elif p["kind"] == "push_wrapper":
        x = np.array([[5.0], [1.0], [9.0], [3.0], [2.0], [4.0]])
        cs = ChannelStats(1, 6)
        push(cs, x, [2, 2, 2], p["mode"])
        fields = ("count", "m1", "m2", "min", "max") + (("m3", "m4") if p["mode"] == "full" else ())
        compare(bad, f"push_data mode={p['mode']} in 3 chunks", cs, two_pass(x), fields)
    elif p["kind"] == "overflow":
        na, nb = p["count_a"], p["count_b"]
        rng = np.random.default_rng(3)
        xa = rng.integers(0, 4, na).astype(np.float32)
        xb = (rng.integers(0, 4, nb) + 4).astype(np.float32)   # different mean: the merge's delta terms matter
        a, b = ChannelStats(1, na), ChannelStats(1, nb)
        a.push_data(xa, 0, mode="full")
        b.push_data(xb, 0, mode="full")
        c = a + b
        ref = two_pass(np.concatenate([xa, xb])[:, None])
        for f in ("m2", "m3", "m4"):
            got, want = float(c.moments[f][0]), float(ref[f][0])
            if abs(got - want) > 1e-2 * max(1.0, abs(want)):
                bad.append(f"merge of {na}+{nb} samples: {f} = {got}, definition {want}")
    elif p["kind"] == "division":
        from sigpyproc.core import kernels
        cs = ChannelStats(1, p["nsamps"])
        for f, v in p["moments"].items():
            cs._moments[f][0] = np.float32(v)
        import warnings
        with warnings.catch_warnings():
            warnings.simplefilter("ignore")
            val = getattr(cs, p["prop"])
        if not np.all(np.isfinite(val)):
            bad.append(f"ChannelStats.{p['prop']} = {val} for finite moments {p['moments']}")
    for b_ in bad:
        print("MISMATCH:", b_)
    return 1 if bad else 0


if __name__ == "__main__":
    sys.exit(main(json.loads(sys.argv[1])))
