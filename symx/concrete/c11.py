"""Concrete replay for C11: the real fold kernel / Filterbank.fold / TimeSeries.fold vs an
independently written numpy oracle of the documented cell assignment."""
from __future__ import annotations

import json
import sys
import tempfile
from fractions import Fraction

import numpy as np

from .sigfile import random_samples, write_set

C_LIGHT = 299792458.0


def cell(t, c, tsamp, period, accel, N, nbins, nints, nsubs, nchans):
    tj = t * tsamp
    tobs = N * tsamp
    phase = nbins * tj * (1 + accel * (tj - tobs) / (2 * C_LIGHT)) / period + 0.5
    pb = abs(int(phase)) % nbins
    subint = int(t // (N / nints))
    sb = int(c // (nchans / nsubs))
    return subint * nbins * nsubs + sb * nbins + pb


def main(p):
    from sigpyproc.core import kernels as K
    bad = []
    print("params:", json.dumps(p)[:600])
    if p["kind"] == "kernel":
        c = p["cfg"]
        nchans, nsamps, D = c["nchans"], c["nsamps"], c["maxdelay"]
        ncell = c["nbins"] * c["nints"] * c["nsubs"]
        x = np.array(p["data"], dtype=np.uint8)
        dl = np.array(p["delays"], dtype=np.int32)
        fold, cnt = np.zeros(ncell, np.float32), np.zeros(ncell, np.int32)
        K.fold(x, fold, cnt, dl, D, c["tsamp"], c["period"], c["accel"], c["total"], nsamps, nchans, c["nbins"], c["nints"], c["nsubs"], p["index"])
        wf, wc = np.zeros(ncell), np.zeros(ncell, int)
        for i in range(nsamps - D):
            for ch in range(nchans):
                k = cell(i + p["index"], ch, c["tsamp"], c["period"], c["accel"], c["total"], c["nbins"], c["nints"], c["nsubs"], nchans)
                wf[k] += x[nchans * (i + dl[ch]) + ch]
                wc[k] += 1
        if not np.array_equal(cnt, wc) or not np.allclose(fold, wf):
            bad.append(f"fold kernel: fold={fold.tolist()} count={cnt.tolist()}, cell definition gives fold={wf.tolist()} count={wc.tolist()}")
    elif p["kind"] == "stream":
        from unittest import mock
        from sigpyproc.header import Header
        from sigpyproc.readers import FilReader
        rng = np.random.default_rng(1)
        N = sum(p["splits"])
        nchans = p["nchans"]
        x = random_samples(rng, N, nchans, p["nbits"]).astype(np.float64)
        dl = np.array(p["delays"], dtype=np.int32)
        D = int(dl.max())
        tsamp, period = 0.5, 1.5
        with tempfile.TemporaryDirectory() as d:
            names = write_set(d, x.astype(np.float32) if p["nbits"] == 32 else x.astype(np.uint8), p["nbits"], p["splits"], tsamp=tsamp)
            fil = FilReader(names, check_contiguity=False)
            nb = min(p["nbands"], nchans)
            with mock.patch.object(Header, "get_dmdelays", lambda self, dm, **k: dl):
                try:
                    fd = fil.fold(period, 10.0, nbins=p["nbins"], nints=p["nints"], nbands=p["nbands"], gulp=p["gulp"], start=p["start"], nsamps=p["nsamps"], quiet=True)
                except Exception as e:  # noqa: BLE001
                    bad.append(f"Filterbank.fold raised {type(e).__name__}: {e}")
                    fd = None
            if fd is not None:
                ncell = p["nbins"] * p["nints"] * nb
                wf, wc = np.zeros(ncell), np.zeros(ncell)
                for t in range(p["nsamps"] - D):
                    for ch in range(nchans):
                        k = cell(t, ch, np.float32(tsamp), np.float32(period), 0.0, N, p["nbins"], p["nints"], nb, nchans)
                        wf[k] += x[p["start"] + t + dl[ch], ch]
                        wc[k] += 1
                with np.errstate(all="ignore"):
                    want = (wf / wc).reshape(p["nints"], nb, p["nbins"])
                got = np.asarray(fd.data, dtype=np.float64)
                if got.shape != want.shape or not np.allclose(np.nan_to_num(got, nan=-1), np.nan_to_num(want, nan=-1), rtol=1e-5, atol=1e-5):
                    bad.append(f"Filterbank.fold(gulp={p['gulp']}, start={p['start']}, nsamps={p['nsamps']}) differs from the cell definition")
    else:
        from sigpyproc.timeseries import TimeSeries
        from sigpyproc.readers import FilReader
        n = p["n"]
        rng = np.random.default_rng(1)
        with tempfile.TemporaryDirectory() as d:
            names = write_set(d, rng.integers(0, 9, (max(n, 1), 1)).astype(np.uint8), 8, [max(n, 1)], tsamp=0.5)
            fil = FilReader(names)
            ts = fil.collapse()
        try:
            fd = ts.fold(1.5, nbins=3, nints=2)
            ok = n // 6 >= 10
            if not ok:
                bad.append(f"TimeSeries.fold accepted {n} samples for 6 cells")
            else:
                x = np.asarray(ts.data, dtype=np.float64)
                wf, wc = np.zeros(6), np.zeros(6)
                for t in range(n):
                    k = cell(t, 0, np.float32(0.5), np.float32(1.5), 0.0, n, 3, 2, 1, 1)
                    wf[k] += x[t]
                    wc[k] += 1
                if not np.allclose(np.asarray(fd.data).ravel(), wf / wc, rtol=1e-5):
                    bad.append("TimeSeries.fold differs from the cell definition")
        except ValueError as e:
            if n // 6 >= 10:
                bad.append(f"TimeSeries.fold refused {n} samples: {e}")
    for b in bad:
        print("MISMATCH:", b[:600])
    return 1 if bad else 0
