"""Concrete replay for C12 on the real kernels / TimeSeries / FourierSeries (float64 direct definitions)."""
from __future__ import annotations

import json
import sys
import tempfile

import numpy as np

from .sigfile import write_set


def series(x):
    from sigpyproc.header import Header
    from sigpyproc.timeseries import TimeSeries
    n = len(x)
    with tempfile.TemporaryDirectory() as d:
        hdr = Header.from_sigproc(write_set(d, np.zeros((max(n, 1), 1), np.uint8), 8, [max(n, 1)]))
    return TimeSeries(np.asarray(x, dtype=np.float32), hdr.new_header({"nchans": 1, "nsamples": n}))


def main(p):
    from sigpyproc.core import kernels as K
    rng = np.random.default_rng(8)
    bad = []
    print("params:", json.dumps(p))
    k = p["kind"]
    if k in ("fftconvolve", "correlate"):
        x = rng.integers(1, 9, p["n"]).astype(np.float32)
        y = rng.integers(1, 9, p["m"]).astype(np.float32)
        try:
            if k == "fftconvolve":
                got = K.fftconvolve(x, y)
                want = np.convolve(x.astype(np.float64), y.astype(np.float64), mode="full")
            else:
                got = np.asarray(series(x).correlate(series(y)).data)
                want = np.correlate(x.astype(np.float64), y.astype(np.float64), mode="full")
            if got.shape != want.shape or not np.allclose(got, want, rtol=1e-4, atol=1e-3):
                bad.append(f"{k}(n={p['n']}, m={p['m']}) = {np.asarray(got).tolist()}, direct definition {want.tolist()}")
        except Exception as e:  # noqa: BLE001
            bad.append(f"{k} raised {type(e).__name__}: {e}")
    elif k == "roundtrip":
        n = p["n"]
        x = rng.integers(1, 9, n).astype(np.float32)
        try:
            ts = series(x)
            f = ts.rfft()
            b = f.ifft()
            ng = f.header.nsamples
            want = np.concatenate([x, np.zeros(ng - n)])
            if b.data.size != ng or b.header.nsamples != ng or not np.allclose(b.data, want, rtol=1e-4, atol=1e-3):
                bad.append(f"rfft().ifft() of {n} samples: length {b.data.size}, header {b.header.nsamples}, good size {ng}")
        except Exception as e:  # noqa: BLE001
            bad.append(f"rfft().ifft() of {n} samples raised {type(e).__name__}: {e}")
    elif k == "pad":
        n = p["n"]
        x = rng.integers(1, 9, n).astype(np.float32)
        got = K.circular_pad_goodsize(x)
        if not np.array_equal(got, x[np.arange(len(got)) % n]):
            bad.append(f"circular_pad_goodsize({x.tolist()}) = {got.tolist()}")
    for b_ in bad:
        print("MISMATCH:", b_[:600])
    return 1 if bad else 0
