"""Concrete replay for C13: real convolve_templates / normalize_template vs the direct definition."""
from __future__ import annotations

import json
import sys

import numpy as np


def main(p):
    from numba import typed
    from sigpyproc.core import kernels as K
    rng = np.random.default_rng(3)
    bad = []
    print("params:", json.dumps(p))
    if p["kind"] == "normalize":
        for trial in range(5):
            x = rng.integers(0, 9, p["n"]).astype(np.float32)
            out = K.normalize_template(x.copy())
            d = x.astype(np.float64) - x.mean()
            pw = np.sqrt((d ** 2).sum())
            want = d / pw if pw else d
            if not np.allclose(out, want, rtol=1e-4, atol=1e-5):
                bad.append(f"normalize_template({x.tolist()}) = {out.tolist()}, definition {want.tolist()}")
                break
    else:
        n, tl, ref = p["n"], p["tl"], p["ref"]
        z = rng.integers(0, 9, n).astype(np.float32)
        h = rng.integers(1, 9, tl).astype(np.float32)
        N = int(K.nb_fft_good_size(n, True))
        try:
            got = K.convolve_templates(z, typed.List([h]), typed.List([ref]))
            hp = np.zeros(N)
            hp[:tl] = h
            d = hp - hp.mean()
            pw = np.sqrt((d ** 2).sum())
            hn = d / pw if pw else d
            zp = z.astype(np.float64)[np.arange(N) % n]
            want = np.array([sum(zp[(t + k - ref) % N] * hn[k] for k in range(N)) for t in range(n)])
            if got.shape != (1, n) or not np.allclose(got[0], want, rtol=1e-4, atol=1e-4):
                bad.append(f"convolve_templates(n={n}, template {tl}, ref {ref}) = {np.asarray(got).tolist()}, definition {want.tolist()}")
        except Exception as e:  # noqa: BLE001
            bad.append(f"convolve_templates(n={n}, template {tl}, ref {ref}) raised {type(e).__name__}: {e}")
    for b in bad:
        print("MISMATCH:", b[:600])
    return 1 if bad else 0
