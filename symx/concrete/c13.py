"""Concrete replay for C13: real convolve_templates / normalize_template vs the direct definition."""
from __future__ import annotations

import json
import sys

import numpy as np


def main(p):
    from numba import typed
    from sigpyproc.core import kernels as K
    rng = np.random.default_rng(3)
    bad = []
    print("params:", json.dumps(p))
    if p["kind"] == "compute":
        from unittest import mock
        from sigpyproc.core import filters
        convs = np.array(p["convs"], dtype=np.float32)
        T_, N_ = convs.shape
        mf = object.__new__(filters.MatchedFilter)
        mf._temp_bank = [filters.Template.gen_boxcar(k + 1) for k in range(T_)]

        class ZS:
            data = np.zeros(N_, dtype=np.float32)
        mf._zscores = ZS()
        seen = []
        with mock.patch.object(filters.kernels, "convolve_templates", lambda z, t, r: (seen.append((z, [np.asarray(x).tolist() for x in t], list(r))), convs)[1]):
            mf._compute()
        it, pk = np.unravel_index(np.argmax(convs), convs.shape)
        if not (mf.snr == convs.max() and convs[mf._itemp, mf.peak_bin] == convs.max()):
            bad.append(f"snr {mf.snr} at ({mf._itemp},{mf.peak_bin}) is not the maximum {convs.max()} of {convs.tolist()}")
        if mf.best_temp is not mf._temp_bank[int(mf._itemp)]:
            bad.append("best template is not the bank entry of the peak row")
        if not seen or seen[0][0] is not ZS.data or seen[0][1] != [[1.0] * (k + 1) for k in range(T_)] or seen[0][2] != [0] * T_:
            bad.append("convolve_templates did not receive the z-scores and the bank in order")
    elif p["kind"] == "init":
        from unittest import mock
        from sigpyproc.core import filters
        seen = []
        real = filters.estimate_zscore
        with mock.patch.object(filters, "estimate_zscore", lambda d, **k: (seen.append((np.asarray(d).tolist(), k)), real(d, **k))[1]):
            x = rng.normal(size=64).astype(np.float32)
            filters.MatchedFilter(x, loc_method="mean", scale_method="mad", nbins_max=4)
        if not seen or seen[0][0] != x.tolist() or seen[0][1] != dict(loc_method="mean", scale_method="mad"):
            bad.append(f"estimate_zscore received {seen[0][1] if seen else None}")
        try:
            filters.MatchedFilter(np.zeros((4, 4), dtype=np.float32))
            bad.append("2-D data accepted")
        except ValueError:
            pass
    elif p["kind"] == "widths":
        from sigpyproc.core import filters
        for f in (p["factor"], 1.5, 2.0, 1.0, 0.7, 3.3):
            got = [float(v) for v in filters.MatchedFilter.get_box_width_spacing(p["size_max"], f)]
            want = [1.0]
            while True:
                nxt = float(int(max(want[-1] + 1, f * want[-1])))
                if nxt > p["size_max"]:
                    break
                want.append(nxt)
            if got != want:
                bad.append(f"get_box_width_spacing({p['size_max']}, {f}) = {got}, expected {want}")
                break
    elif p["kind"] == "normalize":
        for trial in range(5):
            x = rng.integers(0, 9, p["n"]).astype(np.float32)
            out = K.normalize_template(x.copy())
            d = x.astype(np.float64) - x.mean()
            pw = np.sqrt((d ** 2).sum())
            want = d / pw if pw else d
            if not np.allclose(out, want, rtol=1e-4, atol=1e-5):
                bad.append(f"normalize_template({x.tolist()}) = {out.tolist()}, definition {want.tolist()}")
                break
    else:
        n, tl, ref = p["n"], p["tl"], p["ref"]
        z = rng.integers(0, 9, n).astype(np.float32)
        h = rng.integers(1, 9, tl).astype(np.float32)
        N = int(K.nb_fft_good_size(n, True))
        try:
            got = K.convolve_templates(z, typed.List([h]), typed.List([ref]))
            hp = np.zeros(N)
            hp[:tl] = h
            d = hp - hp.mean()
            pw = np.sqrt((d ** 2).sum())
            hn = d / pw if pw else d
            zp = z.astype(np.float64)[np.arange(N) % n]
            want = np.array([sum(zp[(t + k - ref) % N] * hn[k] for k in range(N)) for t in range(n)])
            if got.shape != (1, n) or not np.allclose(got[0], want, rtol=1e-4, atol=1e-4):
                bad.append(f"convolve_templates(n={n}, template {tl}, ref {ref}) = {np.asarray(got).tolist()}, definition {want.tolist()}")
        except Exception as e:  # noqa: BLE001
            bad.append(f"convolve_templates(n={n}, template {tl}, ref {ref}) raised {type(e).__name__}: {e}")
    for b in bad:
        print("MISMATCH:", b[:600])
    return 1 if bad else 0
