"""Concrete replay for C14 against the real stats functions / kernels (brute-force numpy definitions)."""
from __future__ import annotations

import json
import sys

import numpy as np


def reflect(x, i):
    n = len(x)
    m = i % (2 * n)
    return x[m] if m < n else x[2 * n - 1 - m]


def main(p):
    from sigpyproc.core import kernels as K, stats
    rng = np.random.default_rng(4)
    bad = []
    print("params:", json.dumps(p)[:500])
    k = p["kind"]
    if k == "ds1d":
        dt = np.uint8 if p["dtype"] == "u1" else np.float32
        x = np.array(p["data"], dtype=np.float64).astype(dt)
        f = p["factor"]
        got = K.downsample_1d_mean(x, f)
        want = x[:(len(x) // f) * f].astype(np.float64).reshape(-1, f).mean(axis=1)
        if dt is np.uint8:
            want = np.trunc(want)
        if got.shape != want.shape or not np.allclose(got, want, rtol=1e-6):
            bad.append(f"downsample_1d_mean({x.tolist()}, {f}) = {got.tolist()}, definition {want.tolist()}")
    elif k == "ds2d":
        dt = np.uint8 if p["dtype"] == "u1" else np.float32
        d1, d2 = p["dims"]
        f1, f2 = p["factors"]
        x = np.array(p["data"], dtype=np.float64).astype(dt)
        got = K.downsample_2d_mean_flat(x, f1, f2, d1, d2)
        x2 = x.astype(np.float64).reshape(d1, d2)[:(d1 // f1) * f1, :(d2 // f2) * f2]
        want = x2.reshape(d1 // f1, f1, d2 // f2, f2).mean(axis=(1, 3)).ravel()
        if dt is np.uint8:
            want = np.trunc(want)
        if got.shape != want.shape or not np.allclose(got, want, rtol=1e-6):
            bad.append(f"downsample_2d_mean_flat dims={d1}x{d2} factors=({f1},{f2}): {got.tolist()} vs {want.tolist()}")
    elif k == "detrend":
        x = np.array(p["data"], dtype=np.float64)
        got = K.detrend_1d(x)
        i = np.arange(len(x))
        if len(x) >= 2:
            a, b = np.polyfit(i, x, 1)
            want = x - (a * i + b)
        else:
            want = np.zeros(len(x))
        if got.shape != want.shape or not np.allclose(got, want, atol=1e-6 * max(1, np.abs(x).max())):
            bad.append(f"detrend_1d({x.tolist()}) = {got.tolist()}, least-squares residual {want.tolist()}")
    elif k in ("running", "deredden"):
        n, w, method = p["n"], p["window"], p["method"]
        x = rng.integers(0, 100, n).astype(np.float64)
        op = np.mean if method == "mean" else np.median
        filt = np.array([op([reflect(x, i - w // 2 + j) for j in range(w)]) for i in range(n)])
        if k == "running":
            got = stats.running_filter(x, w, method)
            want = filt
        else:
            from sigpyproc.timeseries import TimeSeries
            from sigpyproc.header import Header
            import tempfile
            from .sigfile import write_set
            with tempfile.TemporaryDirectory() as d:
                hdr = Header.from_sigproc(write_set(d, np.zeros((n, 1), np.uint8), 8, [n], tsamp=0.5))
            ts = TimeSeries(x.astype(np.float32), hdr.new_header({"nchans": 1, "nsamples": n}))
            got = np.asarray(ts.deredden(method=method, window=w * 0.5).data, dtype=np.float64)
            want = x - filt
        if len(got) != n or not np.allclose(got, want, rtol=1e-5, atol=1e-5):
            bad.append(f"{k}(n={n}, window={w}, {method}) = {np.asarray(got).tolist()}, definition {want.tolist()} for x={x.tolist()}")
    elif k == "ds1d_glue":
        n, f, method = p["n"], p["factor"], p["method"]
        x = rng.integers(0, 100, n).astype(np.float64)
        try:
            got = stats.downsample_1d(x, f, method)
            op = np.mean if method == "mean" else np.median
            want = op(x[:(n // f) * f].reshape(-1, f), axis=1)
            if f > n or got.shape != want.shape or not np.allclose(got, want):
                bad.append(f"downsample_1d(n={n}, factor={f}, {method}) = {got.tolist()}, definition {want.tolist()}")
        except ValueError as e:
            if f <= n:
                bad.append(f"downsample_1d(n={n}, factor={f}) raised {e}")
    elif k == "ds2d_glue":
        d1, d2 = p["dims"]
        f1, f2 = p["factors"]
        method = p["method"]
        x = rng.integers(0, 100, (d1, d2)).astype(np.float64)
        if p.get("dtype") == "uint8":
            x = (np.array(p["data"], dtype=np.uint8) if p.get("data") else rng.integers(150, 256, (d1, d2)).astype(np.uint8))
        op = np.mean if method == "mean" else np.median
        want = op(x[:(d1 // f1) * f1, :(d2 // f2) * f2].astype(np.float64).reshape(d1 // f1, f1, d2 // f2, f2), axis=(1, 3))
        if p["which"] == "block":
            from sigpyproc.block import FilterbankBlock
            from sigpyproc.header import Header
            import tempfile
            from .sigfile import write_set
            with tempfile.TemporaryDirectory() as d:
                hdr = Header.from_sigproc(write_set(d, np.zeros((d2, d1), np.uint8), 8, [d2]))
            got = np.asarray(FilterbankBlock(x, hdr.new_header({"nsamples": d2, "nchans": d1})).downsample(tfactor=f2, ffactor=f1, filter_method=method).data)
        elif p["which"] == "ds2dflat":
            got = stats.downsample_2d_flat(x.ravel(), f1, f2, d1, d2, method).reshape(d1 // f1, d2 // f2)
        else:
            got = stats.downsample_2d(x, (f1, f2), method)
        if got.shape != want.shape or not np.allclose(got, want):
            bad.append(f"{p['which']}({d1}x{d2}, ({f1},{f2}), {method}) = {got.tolist()}, definition {want.tolist()}")
    for b in bad:
        print("MISMATCH:", b[:700])
    return 1 if bad else 0
