"""Concrete replay for C15 on the real estimators."""
from __future__ import annotations

import json
import sys

import numpy as np


def equivariance(p, rng):
    """scale(a*x+b) = |a| scale(x), loc(a*x+b) = a loc(x)+b, zscore(a*x+b) = sign(a) zscore(x) on the real estimators,
    for the solver's x (if any) and for data with ties / a sample at the median."""
    import warnings
    from sigpyproc.core import stats
    n, a = p["n"], p["a"][0] / p["a"][1]
    b = float(p.get("b", 0.75))
    xs = []
    if "x" in p:
        xs.append(np.array(p["x"], dtype=np.float64))
    base = np.round(rng.normal(size=n) * 4) + 10
    xs += [base, np.sort(base)[::-1].copy(), np.concatenate([base[: n // 2], base[: n - n // 2]]), rng.normal(size=n) * 3 + 1]
    bad = []
    for x in xs:
        if not np.all(np.abs(x) < 1e6):
            continue
        y = a * x + b
        with warnings.catch_warnings():
            warnings.simplefilter("ignore")
            try:
                if p["kind"] == "equiv" and p["what"] == "scale":
                    sx, sy = np.asarray(stats.estimate_scale(x, p["method"])), np.asarray(stats.estimate_scale(y, p["method"]))
                    if np.any((np.abs(sx) > 0) & (np.abs(sx) < 1e-4)):
                        continue
                    if not np.allclose(sy, abs(a) * sx, rtol=1e-6, atol=1e-9):
                        bad.append(f"scale[{p['method']}]({a}*x+{b}) = {sy.tolist()} but |a|*scale(x) = {(abs(a) * sx).tolist()} for x = {x.tolist()}")
                elif p["kind"] == "equiv":
                    lx, ly = stats.estimate_loc(x, p["method"]), stats.estimate_loc(y, p["method"])
                    if not np.allclose(ly, a * lx + b, rtol=1e-9, atol=1e-9):
                        bad.append(f"loc[{p['method']}]({a}*x+{b}) = {ly} but a*loc(x)+b = {a * lx + b} for x = {x.tolist()}")
                else:
                    zx, zy = stats.estimate_zscore(x, p["loc"], p["scale"], 0), stats.estimate_zscore(y, p["loc"], p["scale"], 0)
                    sx = np.asarray(zx.scale, dtype=np.float64)
                    sraw = np.asarray(stats.estimate_scale(x.astype(np.float32), p["scale"], 0)) if p["scale"] != "norm" else np.ones(1)
                    if p["scale"] == "norm" or p["loc"] == "norm":
                        continue     # 'norm' switches the estimator off: no equivariance is claimed for it
                    if np.any(np.abs(sraw) < 1e-4):
                        continue     # degenerate scale: the unit-scale fallback applies
                    if not np.allclose(zy.data, np.sign(a) * zx.data, rtol=2e-3, atol=2e-3):
                        bad.append(f"zscore[{p['loc']},{p['scale']}]({a}*x+{b}) = {zy.data.tolist()} but sign(a)*zscore(x) = {(np.sign(a) * zx.data).tolist()} for x = {x.tolist()}")
            except Exception as e:  # noqa: BLE001
                bad.append(f"raised {type(e).__name__}: {e}")
    for m in bad[:3]:
        print("MISMATCH:", m[:700])
    return 1 if bad else 0


def main(p):
    from sigpyproc import utils
    from sigpyproc.core import stats
    rng = np.random.default_rng(11)
    bad = []
    print("params:", json.dumps(p))
    if p["kind"] == "finite":
        # the scale estimate (and with it every z-score) of finite data must be finite: many lanes, smooth ones included
        from sigpyproc.core import stats
        import warnings
        n = max(int(p["n"]), 8)
        for trial in range(400):
            x = rng.normal(size=n) if trial % 2 else np.cumsum(rng.normal(size=n))
            with warnings.catch_warnings():
                warnings.simplefilter("ignore")
                sc = stats.estimate_scale(x, p["method"])
                z = stats.estimate_zscore(x.astype(np.float32), "median", p["method"], 0).data
            if not np.all(np.isfinite(np.atleast_1d(sc))) or not np.all(np.isfinite(z)):
                print("params:", json.dumps(p))
                print(f"MISMATCH: estimate_scale({p['method']}) = {sc} / z-scores {np.asarray(z).tolist()} for finite data {x.tolist()}")
                return 1
        print("params:", json.dumps(p))
        return 0
    if p["kind"] in ("equiv", "zequiv"):
        return equivariance(p, rng)
    shape = tuple(p["shape"])
    if "x" in p and p["kind"] != "zscore":
        # the solver's data first, then tie-heavy and generic data
        for xx in (np.array(p["x"], dtype=np.float64), np.round(rng.normal(size=shape)) * 0 + (np.arange(int(np.prod(shape))).reshape(shape) % 2 == 0) * (np.arange(shape[0])[:, None] if len(shape) == 2 else 1.0),
                   np.round(rng.normal(size=shape) * 2)):
            q = {k_: v for k_, v in p.items() if k_ != "x"}
            q["_x"] = np.asarray(xx, dtype=np.float64).tolist()
            if main(q):
                return 1
    x = np.array(p["_x"], dtype=np.float64) if "_x" in p else rng.normal(size=shape) * 3 + 1
    axis = p.get("axis")
    axis = tuple(axis) if isinstance(axis, list) else axis
    k = p["kind"]

    def lanes(f, keepdims=False):
        if axis is None:
            r = np.asarray(f(x.ravel()))
            return r.reshape((1,) * x.ndim) if keepdims else r
        axes = (axis,) if isinstance(axis, int) else axis
        axes = tuple(a % x.ndim for a in axes)
        moved = np.moveaxis(x, axes, range(len(axes)))
        flat = moved.reshape(-1, *moved.shape[len(axes):])
        out = np.apply_along_axis(f, 0, flat)
        return np.expand_dims(out, axes) if keepdims else out
    import warnings
    warnings.simplefilter("ignore")
    try:
        if k == "apply":
            got = utils.apply_along_axes(lambda lane: float(np.sum(lane * np.arange(1, lane.size + 1))), x, axis)
            want = lanes(lambda lane: float(np.sum(lane * np.arange(1, lane.size + 1))))
            if not np.allclose(got, want):
                bad.append(f"apply_along_axes(axis={axis}) = {np.asarray(got).tolist()}, per-lane {np.asarray(want).tolist()}")
        elif k in ("scale", "loc"):
            f = stats.estimate_scale if k == "scale" else stats.estimate_loc
            got = np.asarray(f(x, p["method"], axis, keepdims=p["keepdims"]))
            want = lanes(lambda lane: float(f(lane, p["method"])), p["keepdims"])
            if got.shape != np.asarray(want).shape or not np.allclose(got, want, equal_nan=True):
                bad.append(f"estimate_{k}({p['method']}, axis={axis}, keepdims={p['keepdims']}) = {got.tolist()} but the 1-D estimator per lane gives {np.asarray(want).tolist()}")
        else:
            for xc in (np.ones(shape), np.where(np.indices(shape).sum(axis=0) % 3 == 0, 2.0, 1.0) * 0 + x, None):
                if xc is None:
                    # one constant lane next to varying ones (the guard must act per lane)
                    xc = x.copy()
                    if axis in (0, None):
                        xc[:, 0] = 4.0
                    if axis in (1, None):
                        xc[0, :] = 4.0
                    if axis is None:
                        continue
                import warnings
                with warnings.catch_warnings():
                    warnings.simplefilter("ignore")
                    z = stats.estimate_zscore(xc, p["loc"], p["scale"], axis)
                if not np.all(np.isfinite(z.data)) or z.data.shape != shape:
                    bad.append(f"z-scores are not finite for finite data {xc.tolist()}: {np.asarray(z.data).tolist()}")
                    break
    except Exception as e:  # noqa: BLE001
        bad.append(f"raised {type(e).__name__}: {e}")
    for b in bad:
        print("MISMATCH:", b[:600])
    return 1 if bad else 0
