"""Concrete replay for C15 on the real estimators."""
from __future__ import annotations

import json
import sys

import numpy as np


def main(p):
    from sigpyproc import utils
    from sigpyproc.core import stats
    rng = np.random.default_rng(11)
    bad = []
    print("params:", json.dumps(p))
    shape = tuple(p["shape"])
    x = rng.normal(size=shape) * 3 + 1
    axis = p.get("axis")
    axis = tuple(axis) if isinstance(axis, list) else axis
    k = p["kind"]

    def lanes(f, keepdims=False):
        if axis is None:
            r = np.asarray(f(x.ravel()))
            return r.reshape((1,) * x.ndim) if keepdims else r
        axes = (axis,) if isinstance(axis, int) else axis
        axes = tuple(a % x.ndim for a in axes)
        moved = np.moveaxis(x, axes, range(len(axes)))
        flat = moved.reshape(-1, *moved.shape[len(axes):])
        out = np.apply_along_axis(f, 0, flat)
        return np.expand_dims(out, axes) if keepdims else out
    try:
        if k == "apply":
            got = utils.apply_along_axes(lambda lane: float(np.sum(lane * np.arange(1, lane.size + 1))), x, axis)
            want = lanes(lambda lane: float(np.sum(lane * np.arange(1, lane.size + 1))))
            if not np.allclose(got, want):
                bad.append(f"apply_along_axes(axis={axis}) = {np.asarray(got).tolist()}, per-lane {np.asarray(want).tolist()}")
        elif k in ("scale", "loc"):
            f = stats.estimate_scale if k == "scale" else stats.estimate_loc
            got = np.asarray(f(x, p["method"], axis, keepdims=p["keepdims"]))
            want = lanes(lambda lane: float(f(lane, p["method"])), p["keepdims"])
            if got.shape != np.asarray(want).shape or not np.allclose(got, want):
                bad.append(f"estimate_{k}({p['method']}, axis={axis}, keepdims={p['keepdims']}) = {got.tolist()} but the 1-D estimator per lane gives {np.asarray(want).tolist()}")
        else:
            for xc in (np.ones(shape), np.where(np.indices(shape).sum(axis=0) % 3 == 0, 2.0, 1.0) * 0 + x, None):
                if xc is None:
                    # one constant lane next to varying ones (the guard must act per lane)
                    xc = x.copy()
                    if axis in (0, None):
                        xc[:, 0] = 4.0
                    if axis in (1, None):
                        xc[0, :] = 4.0
                    if axis is None:
                        continue
                import warnings
                with warnings.catch_warnings():
                    warnings.simplefilter("ignore")
                    z = stats.estimate_zscore(xc, p["loc"], p["scale"], axis)
                if not np.all(np.isfinite(z.data)) or z.data.shape != shape:
                    bad.append(f"z-scores are not finite for finite data {xc.tolist()}: {np.asarray(z.data).tolist()}")
                    break
    except Exception as e:  # noqa: BLE001
        bad.append(f"raised {type(e).__name__}: {e}")
    for b in bad:
        print("MISMATCH:", b[:600])
    return 1 if bad else 0
