"""Concrete replay for C16 on the real RFIMask / clean_rfi."""
from __future__ import annotations

import json
import os
import sys
import tempfile

import numpy as np

from .sigfile import random_samples, write_set


def main(p):
    from unittest import mock
    from sigpyproc.core import rfi
    from sigpyproc.header import Header
    from sigpyproc.readers import FilReader
    bad = []
    print("params:", json.dumps(p))
    with tempfile.TemporaryDirectory() as d:
        if p["kind"] == "mask":
            f = np.array(p["freqs"], dtype=np.float64)
            n = len(f)
            hdr = Header.from_sigproc(write_set(d, np.zeros((4, n), np.uint8), 8, [4]))
            z = np.zeros(n, dtype=np.float32)
            m = rfi.RFIMask(3.0, hdr, z, z + 1, z + 2, z + 3, z, z)
            m.chan_mask = np.array(p["prev"], dtype=bool)
            seq = {1.0: np.array(p["var"], bool), 2.0: np.array(p["skew"], bool), 3.0: np.array(p["kurt"], bool)}
            orig = {k_: v.copy() for k_, v in seq.items()}      # numpy calls may write into the arrays they are given
            with mock.patch.object(Header, "chan_freqs", new_callable=mock.PropertyMock, return_value=f), \
                    mock.patch.object(rfi, "double_mad_mask", lambda arr, thr: seq[float(arr[0])]):
                steps = [m.chan_mask.copy()]
                m.apply_mask([tuple(r) for r in p["ranges"]])
                steps.append(m.chan_mask.copy())
                m.apply_method("mad")
                steps.append(m.chan_mask.copy())
                m.apply_funcn(lambda cm: np.array(p["custom"], dtype=bool))
                steps.append(m.chan_mask.copy())
            user = np.array([any(lo <= x <= hi for lo, hi in p["ranges"]) for x in f], dtype=bool)
            st = orig[1.0] | orig[2.0] | orig[3.0]
            want = np.array(p["prev"], bool) | user | st | np.array(p["custom"], bool)
            if not np.array_equal(m.user_mask, user):
                bad.append(f"user_mask {m.user_mask.tolist()} != closed-interval membership {user.tolist()}")
            if not np.array_equal(m.stats_mask, st):
                bad.append(f"stats_mask {m.stats_mask.tolist()} != union {st.tolist()}")
            if not np.array_equal(m.chan_mask, want):
                bad.append(f"chan_mask {m.chan_mask.tolist()} != union of all masks {want.tolist()}")
            for a, b in zip(steps, steps[1:]):
                if np.any(a & ~b):
                    bad.append("a step removed channels from the mask")
        else:
            x = random_samples(np.random.default_rng(2), 64, 8, 8)
            fil = FilReader(write_set(d, x, 8, [64]))
            out, m = fil.clean_rfi(method="mad", threshold=3, freq_mask=[(1497.5, 1498.5)], custom_funcn=lambda cm: np.arange(8) == 7, mask_value=5,
                                   outfile_name=os.path.join(d, "c.fil"), gulp=10)
            got = FilReader(out).read_block(0, 64).data
            exp = x.T.astype(np.float64).copy()
            exp[m.chan_mask] = 5
            if not (m.chan_mask[2] and m.chan_mask[7]):
                bad.append(f"user/custom channels missing from the final mask {m.chan_mask.tolist()}")
            if not np.array_equal(np.asarray(got, dtype=np.float64), exp):
                bad.append("cleaned file differs from 'masked channels = mask value, everything else identical'")
    for b in bad:
        print("MISMATCH:", b)
    return 1 if bad else 0
