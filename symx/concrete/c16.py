"""Concrete replay for C16 on the real RFIMask / clean_rfi."""
from __future__ import annotations

import json
import os
import sys
import tempfile

import numpy as np

from .sigfile import random_samples, write_set


def main(p):
    from unittest import mock
    from sigpyproc.core import rfi
    from sigpyproc.header import Header
    from sigpyproc.readers import FilReader
    bad = []
    print("params:", json.dumps(p))
    with tempfile.TemporaryDirectory() as d:
        if p["kind"] == "mask":
            f = np.array(p["freqs"], dtype=np.float64)
            n = len(f)
            hdr = Header.from_sigproc(write_set(d, np.zeros((4, n), np.uint8), 8, [4]))
            z = np.zeros(n, dtype=np.float32)
            m = rfi.RFIMask(3.0, hdr, z, z + 1, z + 2, z + 3, z, z)
            m.chan_mask = np.array(p["prev"], dtype=bool)
            seq = {1.0: np.array(p["var"], bool), 2.0: np.array(p["skew"], bool), 3.0: np.array(p["kurt"], bool)}
            orig = {k_: v.copy() for k_, v in seq.items()}      # numpy calls may write into the arrays they are given
            with mock.patch.object(Header, "chan_freqs", new_callable=mock.PropertyMock, return_value=f), \
                    mock.patch.object(rfi, "double_mad_mask", lambda arr, thr: seq[float(arr[0])]):
                steps = [m.chan_mask.copy()]
                m.apply_mask([tuple(r) for r in p["ranges"]])
                steps.append(m.chan_mask.copy())
                m.apply_method("mad")
                steps.append(m.chan_mask.copy())
                m.apply_funcn(lambda cm: np.array(p["custom"], dtype=bool))
                steps.append(m.chan_mask.copy())
            user = np.array([any(lo <= x <= hi for lo, hi in p["ranges"]) for x in f], dtype=bool)
            st = orig[1.0] | orig[2.0] | orig[3.0]
            want = np.array(p["prev"], bool) | user | st | np.array(p["custom"], bool)
            if not np.array_equal(m.user_mask, user):
                bad.append(f"user_mask {m.user_mask.tolist()} != closed-interval membership {user.tolist()}")
            if not np.array_equal(m.stats_mask, st):
                bad.append(f"stats_mask {m.stats_mask.tolist()} != union {st.tolist()}")
            if not np.array_equal(m.chan_mask, want):
                bad.append(f"chan_mask {m.chan_mask.tolist()} != union of all masks {want.tolist()}")
            for a, b in zip(steps, steps[1:]):
                if np.any(a & ~b):
                    bad.append("a step removed channels from the mask")
        elif p["kind"] == "outlier":
            from sigpyproc.core import stats
            rng = np.random.default_rng(5)
            n, radius, which = p["n"], p["radius"], p["which"]
            thr = float(p["thr"])
            if p.get("z") and thr > 0:
                # the solver's z-scores, handed to the real mask function through a mocked estimate_zscore
                zs = [np.array(z, dtype=np.float64) for z in p["z"]]
                it = iter(zs)

                class ZR:
                    def __init__(self, data):
                        self.data = data
                with mock.patch.object(stats, "estimate_zscore", lambda *a, **k: ZR(next(it))):
                    x0 = np.array(p["x"], dtype=np.float32)
                    got = rfi.double_mad_mask(x0, thr) if which == "mad" else rfi.iqrm_mask(x0, thr, radius)
                want = np.zeros(n, dtype=bool)
                for z in zs:
                    want |= np.abs(z) > thr
                if not np.array_equal(np.asarray(got, dtype=bool), want):
                    bad.append(f"{which}_mask with z-scores {[z.tolist() for z in zs]} and threshold {thr} = {np.asarray(got).tolist()} but |z| > threshold gives {want.tolist()}")
            xs = [np.array(p["x"], dtype=np.float32)] + [np.round(rng.normal(size=max(n, 8)) * 5).astype(np.float32) + (np.arange(max(n, 8)) == 2) * 90 for _ in range(3)]
            for x in xs:
                for t in (thr, 1.5, 3.0):
                    try:
                        got = rfi.double_mad_mask(x, t) if which == "mad" else rfi.iqrm_mask(x, t, radius)
                    except ValueError:
                        if t > 0:
                            bad.append(f"threshold {t} rejected")
                        continue
                    if t <= 0:
                        bad.append(f"non-positive threshold {t} accepted")
                        continue
                    import warnings
                    with warnings.catch_warnings():
                        warnings.simplefilter("ignore")
                        if which == "mad":
                            want = np.abs(stats.estimate_zscore(x, scale_method="doublemad").data) > t
                        else:
                            want = np.zeros(len(x), dtype=bool)
                            for lag in [l for l in range(-radius, radius + 1) if l]:
                                lane = x - x[np.clip(np.arange(len(x)) + lag, 0, len(x) - 1)]
                                want |= np.abs(stats.estimate_zscore(lane, scale_method="iqr").data) > t
                    if not np.array_equal(np.asarray(got, dtype=bool), want):
                        bad.append(f"{which}_mask({x.tolist()}, {t}) = {np.asarray(got).tolist()} but the definition gives {want.tolist()}")
                        break
        elif p["kind"] == "dispatch":
            seen = []
            z = np.zeros(4, dtype=np.float32)
            hdr = Header.from_sigproc(write_set(d, np.zeros((4, 4), np.uint8), 8, [4]))
            with mock.patch.object(rfi, "double_mad_mask", lambda a, t: (seen.append("mad"), np.zeros(4, bool))[1]), \
                    mock.patch.object(rfi, "iqrm_mask", lambda a, t: (seen.append("iqrm"), np.zeros(4, bool))[1]):
                for meth in ("mad", "iqrm"):
                    seen.clear()
                    rfi.RFIMask(3.0, hdr, z, z, z, z, z, z).apply_method(meth)
                    if seen != [meth] * 3:
                        bad.append(f"apply_method({meth!r}) used {seen}")
                try:
                    rfi.RFIMask(3.0, hdr, z, z, z, z, z, z).apply_method("bogus")
                    bad.append("unknown method accepted")
                except ValueError:
                    pass
        elif p["kind"] == "h5":
            import attrs
            from astropy.coordinates import Angle, SkyCoord
            nch = p["nchans"]
            rng = np.random.default_rng(3)
            hdr = Header(filename=os.path.join(d, "obs_0001.fil"), data_type="filterbank", nchans=nch, foff=-0.390625, fch1=1510.0, nbits=8, tsamp=6.4e-5,
                         tstart=58000.25, nsamples=4096, nifs=1, coord=SkyCoord(83.63, 22.01, unit="deg"), azimuth=Angle("12.5d"), zenith=Angle("33.25d"),
                         telescope="Parkes", backend="BPSR", source="J0534+2200", frame="barycentric", ibeam=3, nbeams=13, dm=56.77, period=0.0334, accel=1.5,
                         signed=True, rawdatafile="raw_0001.dat")
            fl = [rng.normal(size=nch).astype(np.float32) for _ in range(6)]
            mk = {k: rng.integers(0, 2, nch).astype(bool) for k in ("chan_mask", "user_mask", "stats_mask", "custom_mask")}
            m = rfi.RFIMask(3.25, hdr, *fl, **mk)
            out = m.to_file(os.path.join(d, "m.h5"))
            if out != os.path.join(d, "m.h5") or not os.path.exists(out):
                bad.append("to_file did not write/return the requested name")
            b = rfi.RFIMask.from_file(out)
            if float(b.threshold) != 3.25:
                bad.append(f"threshold {b.threshold} != 3.25")
            for f in ("chan_mean", "chan_var", "chan_skew", "chan_kurt", "chan_maxima", "chan_minima", "chan_mask", "user_mask", "stats_mask", "custom_mask"):
                if not np.array_equal(getattr(m, f), getattr(b, f)) or getattr(m, f).dtype != getattr(b, f).dtype:
                    bad.append(f"{f} not reproduced")
            for fld in attrs.fields(Header):
                if fld.name == "stream_info":
                    continue
                a_, b_ = getattr(hdr, fld.name), getattr(b.header, fld.name)
                if isinstance(a_, SkyCoord):
                    same = abs(a_.ra.deg - b_.ra.deg) < 1e-9 and abs(a_.dec.deg - b_.dec.deg) < 1e-9
                elif isinstance(a_, Angle):
                    same = abs(a_.deg - b_.deg) < 1e-9
                else:
                    same = bool(a_ == b_)
                if not same:
                    bad.append(f"header field {fld.name}: saved {a_!r:.60} loaded {b_!r:.60}")
        else:
            x = random_samples(np.random.default_rng(2), 64, 8, 8)
            fil = FilReader(write_set(d, x, 8, [64]))
            out, m = fil.clean_rfi(method="mad", threshold=3, freq_mask=[(1497.5, 1498.5)], custom_funcn=lambda cm: np.arange(8) == 7, mask_value=5,
                                   outfile_name=os.path.join(d, "c.fil"), gulp=10)
            got = FilReader(out).read_block(0, 64).data
            exp = x.T.astype(np.float64).copy()
            exp[m.chan_mask] = 5
            if not (m.chan_mask[2] and m.chan_mask[7]):
                bad.append(f"user/custom channels missing from the final mask {m.chan_mask.tolist()}")
            if not np.array_equal(np.asarray(got, dtype=np.float64), exp):
                bad.append("cleaned file differs from 'masked channels = mask value, everything else identical'")
    for b in bad:
        print("MISMATCH:", b)
    return 1 if bad else 0
