"""Concrete replay for C17 on the real FoldedData."""
from __future__ import annotations

import json
import sys
import tempfile

import numpy as np

from .sigfile import write_set

P0, FCH1, FOFF, NCH = 0.5, 1500.0, -1.0, 64


def make(shape, dm_fold, rng):
    from sigpyproc.foldedcube import FoldedData
    from sigpyproc.header import Header
    nints, nbands, nbins = shape
    with tempfile.TemporaryDirectory() as d:
        # tobs = 100 s: 1000 samples of 0.1 s
        names = write_set(d, np.zeros((1000, NCH), np.uint8), 8, [1000], tsamp=0.1, fch1=FCH1, foff=FOFF)
        hdr = Header.from_sigproc(names)
    data = rng.integers(1, 1000, shape).astype(np.float32)
    return FoldedData(data.copy(), hdr, P0, dm_fold), data


def main(p):
    rng = np.random.default_rng(5)
    shape = tuple(p["shape"])
    a, orig = make(shape, p["dm_fold"], rng)
    last_dm, last_p = None, None
    for kind, v in p["history"]:
        if kind == "dm":
            a.update_dm(v)
            last_dm = v
        else:
            a.update_period(v)
            last_p = v
    rng = np.random.default_rng(5)
    b, _ = make(shape, p["dm_fold"], rng)
    if last_dm is not None:
        b.update_dm(last_dm)
    if last_p is not None:
        b.update_period(last_p)
    bad = []
    print("params:", json.dumps(p))
    if not np.array_equal(a.data, b.data):
        diff = [(i, j) for i in range(shape[0]) for j in range(shape[1]) if not np.array_equal(a.data[i, j], b.data[i, j])]
        bad.append(f"cube after the history differs from a fresh cube re-tuned once to (dm={last_dm}, period={last_p}) in profiles {diff[:6]}")
    if last_dm is not None and a.dm != last_dm:
        bad.append(f"reported dm {a.dm} != {last_dm}")
    if last_p is not None and a.period != last_p:
        bad.append(f"reported period {a.period} != {last_p}")
    back_dm = last_dm is None or last_dm == p["dm_fold"]
    back_p = last_p is None or last_p == P0
    if back_dm and back_p and not np.array_equal(a.data, orig):
        bad.append("returning to the folding values did not restore the original cube")
    for b_ in bad:
        print("MISMATCH:", b_)
    return 1 if bad else 0
