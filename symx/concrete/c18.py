"""Concrete replay for C18 on the PSRFITS file shipped with the repository's tests."""
from __future__ import annotations

import json
import sys

import numpy as np

import os
TESTFILE = os.path.join(os.environ.get("SYMX_REPO", "/repo"), "tests/data/parkes_4bit.sf")


def main(p):
    from sigpyproc.readers import PFITSReader
    f = PFITSReader(TESTFILE)
    nsblk = int(f.sub_hdr.subint_samples)
    N = int(f.header.nsamples)
    whole = np.asarray(f._fitsfile.read_subints(0, N // nsblk), dtype=np.float64)
    bad = []
    print("params:", json.dumps(p))
    if p.get("NSBLK") not in (None, nsblk) or p.get("nrows") not in (None, N // nsblk):
        print("model is not at the shape of the available file; nothing to replay")
        return 0
    if p["kind"] == "read_block":
        start, nsamps = p["start"], p["nsamps"]
        inr = start >= 0 and start + nsamps <= N
        try:
            blk = f.read_block(start, nsamps)
            if not inr:
                bad.append(f"out-of-range read_block({start},{nsamps}) returned {blk.data.shape}")
            elif blk.data.shape != (f.header.nchans, nsamps) or not np.allclose(np.asarray(blk.data, float), whole[start:start + nsamps].T, rtol=1e-5):
                bad.append(f"read_block({start},{nsamps}) differs from the whole-file read")
        except ValueError as e:
            if inr:
                bad.append(f"in-range read_block({start},{nsamps}) raised ValueError: {e}")
        except Exception as e:  # noqa: BLE001
            bad.append(f"read_block({start},{nsamps}) raised {type(e).__name__}: {e}")
    else:
        start, nsamps, gulp, skip = p["start"], p["nsamps"], p["gulp"], p["skipback"]
        ne = N - start if nsamps is None else nsamps
        geff = min(gulp, ne)
        blocks, err = [], None
        try:
            for ns, ii, data in f.read_plan(gulp=gulp, start=start, nsamps=nsamps, skipback=skip, quiet=True):
                blocks.append((int(ns), np.array(data, dtype=np.float64)))
        except Exception as e:  # noqa: BLE001
            err = e
        if err is not None:
            if blocks:
                bad.append(f"raised {type(err).__name__} after yielding {len(blocks)} block(s): {err}")
            elif not isinstance(err, ValueError) or 2 * skip <= geff:
                bad.append(f"in-range plan raised {type(err).__name__}: {err}")
        else:
            if skip >= geff:
                bad.append("plan with skipback >= gulp accepted")
            pos, end = start, None
            C = f.header.nchans
            for k, (ns, data) in enumerate(blocks):
                if data.size != ns * C:
                    bad.append(f"block {k}: reports {ns} samples, array holds {data.size / C}")
                elif pos < start or pos + ns > start + ne or not np.allclose(data.reshape(ns, C), whole[pos:pos + ns], rtol=1e-5):
                    bad.append(f"block {k}: not the samples [{pos},{pos + ns})")
                end = pos + ns
                pos = end - skip
            if end != start + ne:
                bad.append(f"blocks end at {end}, request ends at {start + ne}")
    for b in bad:
        print("MISMATCH:", b)
    return 1 if bad else 0
