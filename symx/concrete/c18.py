"""Concrete replay for C18 on the PSRFITS file shipped with the repository's tests."""
from __future__ import annotations

import json
import sys

import numpy as np

import os
TESTFILE = os.path.join(os.environ.get("SYMX_REPO", "/repo"), "tests/data/parkes_4bit.sf")


def main_values(p):
    """value pipeline of PFITSFile.read_subint on a copy of the fixture whose DAT_WTS / DAT_SCL / DAT_OFFS columns
    are rewritten (the shipped file has unit weights, which hides everything that involves them)"""
    import shutil
    import tempfile
    import warnings
    from astropy.io import fits
    from sigpyproc.io.pfits import PFITSFile
    bad = []
    print("params:", json.dumps(p))
    with tempfile.TemporaryDirectory() as d:
        fn = os.path.join(d, "w.sf")
        shutil.copy(TESTFILE, fn)
        rng = np.random.default_rng(4)
        with warnings.catch_warnings():
            warnings.simplefilter("ignore")
            with fits.open(fn, mode="update") as hd:
                t = hd["SUBINT"].data
                nchan = int(hd["SUBINT"].header["NCHAN"])
                npol = int(hd["SUBINT"].header["NPOL"])
                w = rng.choice([0.0, 0.25, 0.5, 1.0], size=t["DAT_WTS"][0].shape).astype(np.float32)
                sc = rng.uniform(0.5, 2.0, size=t["DAT_SCL"][0].shape).astype(np.float32)
                of = rng.uniform(1.0, 9.0, size=t["DAT_OFFS"][0].shape).astype(np.float32)
                for k, v in enumerate(p.get("wts") or []):
                    if k < nchan:
                        w[k] = v
                for k, v in enumerate(p.get("scl") or []):
                    if k < nchan * npol:
                        sc[k] = v
                for k, v in enumerate(p.get("off") or []):
                    if k < nchan * npol:
                        of[k] = v
                t["DAT_WTS"][0], t["DAT_SCL"][0], t["DAT_OFFS"][0] = w, sc, of
                hd.flush()
        f = PFITSFile(fn)
        raw = np.asarray(f.read_subint(0, scloffs=False, weights=False), dtype=np.float64)
        zero = float(f.sub_hdr.zero_off)
        W = np.asarray(f.read_weights(0), dtype=np.float64)
        S = np.asarray(f.read_scales(0), dtype=np.float64)
        O = np.asarray(f.read_offsets(0), dtype=np.float64)
        if not (np.allclose(W, w[:nchan]) and np.allclose(S.ravel(), sc[:nchan * npol]) and np.allclose(O.ravel(), of[:nchan * npol])):
            bad.append("weights / scales / offsets are not the table columns")
        for scloffs, weights in ((True, True), (True, False), (False, True)):
            got = np.asarray(f.read_subint(0, scloffs=scloffs, weights=weights), dtype=np.float64)
            want = raw.copy()
            if scloffs:
                want = (want - zero) * S[None, :, :] + O[None, :, :]
            if weights:
                want = want * W[None, None, :]
            if got.shape != want.shape or not np.allclose(got, want, rtol=1e-5, atol=1e-4):
                i = np.unravel_index(np.argmax(np.abs(got - want)), got.shape) if got.shape == want.shape else None
                bad.append(f"read_subint(scloffs={scloffs}, weights={weights}) is not ((raw-zero)*scale+offset)*weight"
                           + (f": sample {i}: {got[i]} vs {want[i]} (weight {W[i[2]]}, scale {S[i[1], i[2]]}, offset {O[i[1], i[2]]})" if i else ""))
    for b in bad:
        print("MISMATCH:", b[:400])
    return 1 if bad else 0


def main(p):
    if p.get("kind") == "values":
        return main_values(p)
    from sigpyproc.readers import PFITSReader
    testfile = TESTFILE
    if p.get("ascending"):
        # an ascending-frequency twin of the shipped file: same rows with the DAT_FREQ columns reversed
        import atexit
        import shutil
        import tempfile
        import warnings
        from astropy.io import fits
        d = tempfile.mkdtemp()
        atexit.register(shutil.rmtree, d, True)
        testfile = os.path.join(d, "asc.sf")
        shutil.copy(TESTFILE, testfile)
        with warnings.catch_warnings():
            warnings.simplefilter("ignore")
            with fits.open(testfile, mode="update") as hd:
                t = hd["SUBINT"].data
                for r in range(len(t)):
                    t["DAT_FREQ"][r] = t["DAT_FREQ"][r][::-1].copy()
                hd.flush()
    f = PFITSReader(testfile)
    nsblk = int(f.sub_hdr.subint_samples)
    N = int(f.header.nsamples)
    whole = np.asarray(f._fitsfile.read_subints(0, N // nsblk), dtype=np.float64)
    bad = []
    print("params:", json.dumps(p))
    if p.get("NSBLK") not in (None, nsblk) or p.get("nrows") not in (None, N // nsblk):
        print("model is not at the shape of the available file; nothing to replay")
        return 0
    if p["kind"] == "labels":
        # the header must label the channels as delivered: first channel = highest frequency, negative spacing, and the
        # delivered data of the ascending twin must be the shipped (descending) file's data
        from astropy.io import fits as _fits
        with _fits.open(testfile) as hd:
            fr = np.asarray(hd["SUBINT"].data["DAT_FREQ"][0], dtype=np.float64)
        h = f.header
        fch1, foff = float(getattr(h.fch1, "value", h.fch1)), float(getattr(h.foff, "value", h.foff))
        if abs(fch1 - fr.max()) > 1e-6 or abs(foff + abs(fr[1] - fr[0])) > 1e-6:
            bad.append(f"header labels fch1={fch1}, foff={foff} but the delivered channels run from {fr.max()} downwards in steps of {abs(fr[1] - fr[0])}")
        for b in bad:
            print("MISMATCH:", b)
        return 1 if bad else 0
    if p["kind"] == "read_block":
        start, nsamps = p["start"], p["nsamps"]
        inr = start >= 0 and start + nsamps <= N
        try:
            blk = f.read_block(start, nsamps)
            if not inr:
                bad.append(f"out-of-range read_block({start},{nsamps}) returned {blk.data.shape}")
            elif blk.data.shape != (f.header.nchans, nsamps) or not np.allclose(np.asarray(blk.data, float), whole[start:start + nsamps].T, rtol=1e-5):
                bad.append(f"read_block({start},{nsamps}) differs from the whole-file read")
        except ValueError as e:
            if inr:
                bad.append(f"in-range read_block({start},{nsamps}) raised ValueError: {e}")
        except Exception as e:  # noqa: BLE001
            bad.append(f"read_block({start},{nsamps}) raised {type(e).__name__}: {e}")
    else:
        start, nsamps, gulp, skip = p["start"], p["nsamps"], p["gulp"], p["skipback"]
        ne = N - start if nsamps is None else nsamps
        geff = min(gulp, ne)
        blocks, err = [], None
        try:
            for ns, ii, data in f.read_plan(gulp=gulp, start=start, nsamps=nsamps, skipback=skip, quiet=True):
                blocks.append((int(ns), np.array(data, dtype=np.float64)))
        except Exception as e:  # noqa: BLE001
            err = e
        if err is not None:
            if blocks:
                bad.append(f"raised {type(err).__name__} after yielding {len(blocks)} block(s): {err}")
            elif not isinstance(err, ValueError) or 2 * skip <= geff:
                bad.append(f"in-range plan raised {type(err).__name__}: {err}")
        else:
            if skip >= geff:
                bad.append("plan with skipback >= gulp accepted")
            pos, end = start, None
            C = f.header.nchans
            for k, (ns, data) in enumerate(blocks):
                if data.size != ns * C:
                    bad.append(f"block {k}: reports {ns} samples, array holds {data.size / C}")
                elif pos < start or pos + ns > start + ne or not np.allclose(data.reshape(ns, C), whole[pos:pos + ns], rtol=1e-5):
                    bad.append(f"block {k}: not the samples [{pos},{pos + ns})")
                end = pos + ns
                pos = end - skip
            if end != start + ne:
                bad.append(f"blocks end at {end}, request ends at {start + ne}")
    for b in bad:
        print("MISMATCH:", b)
    return 1 if bad else 0
