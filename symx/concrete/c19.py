"""Concrete replay for C19: run the kernel's real Python body (py_func) for two single prange
iterations with access-recording arrays and show an element written by one iteration and
touched by the other (a schedule-independent witness)."""
from __future__ import annotations

import json
import sys
import types as pytypes

import numpy as np


class RecVoid:
    def __init__(self, ra, i):
        self.ra, self.i = ra, i

    def __getitem__(self, f):
        self.ra.log.append(("R", self.ra.name, (int(self.i), f)))
        return self.ra.a[self.i][f]

    def __setitem__(self, f, v):
        self.ra.log.append(("W", self.ra.name, (int(self.i), f)))
        self.ra.a[f][self.i] = v


class RecArr:
    def __init__(self, a, name, log):
        self.a, self.name, self.log = a, name, log
        self.idx = np.arange(a.size).reshape(a.shape)

    shape = property(lambda s: s.a.shape)
    size = property(lambda s: s.a.size)
    dtype = property(lambda s: s.a.dtype)
    ndim = property(lambda s: s.a.ndim)

    def __len__(self):
        return len(self.a)

    def __array__(self, dtype=None, copy=None):
        return self.a

    def _log(self, kind, key):
        for e in np.atleast_1d(self.idx[key]).ravel():
            self.log.append((kind, self.name, int(e)))

    def __iter__(self):
        for k in range(len(self.a)):
            yield self[k]

    def __getitem__(self, key):
        if self.a.dtype.names and isinstance(key, (int, np.integer)):
            return RecVoid(self, key)
        r = self.a[key]
        if isinstance(r, np.ndarray) and r.ndim >= 1 and not self.a.dtype.names:
            # a view (row, slice): accesses through it are accesses to the same elements
            v = RecArr.__new__(RecArr)
            v.a, v.name, v.log, v.idx = r, self.name, self.log, self.idx[key]
            return v
        self._log("R", key)
        return r

    def __setitem__(self, key, v):
        self._log("W", key)
        self.a[key] = v


class NPproxy:
    def __init__(self, log):
        self._log, self._n = log, 0

    def __getattr__(self, n):
        return getattr(np, n)

    def _wrap(self, a):
        self._n += 1
        return RecArr(a, f"alloc{self._n}", self._log)

    def empty(self, *a, **k):
        return self._wrap(np.zeros(*a, **k))

    zeros = empty

    def empty_like(self, x, *a, **k):
        return self._wrap(np.zeros_like(np.asarray(x), *a, **k))

    zeros_like = empty_like

    def sum(self, x, *a, **k):
        return np.sum(np.asarray(x), *a, **k)


def one_iteration(py, args, names, it, num_threads=None):
    log = []
    g = dict(py.__globals__)
    if num_threads:
        # the size of the thread pool is whatever the deployment has: the solver's value
        g["get_num_threads"] = lambda: int(num_threads)
    g["prange"] = lambda *a: [it] if ((a[0] if len(a) > 1 else 0) <= it < (a[1] if len(a) > 1 else a[0])) else []
    g["np"] = NPproxy(log)
    f = pytypes.FunctionType(py.__code__, g, py.__name__, py.__defaults__, py.__closure__)
    wrapped = [RecArr(a.copy(), n, log) if isinstance(a, np.ndarray) else a for a, n in zip(args, names)]
    f(*wrapped)
    return log


def main(p):
    import inspect
    from symx.kernel_specs import specs
    sp = specs()[p["kernel"]]
    py = sp["disp"].py_func
    args = sp["conc"](p["sizes"])
    names = list(inspect.signature(py).parameters)
    # contents of the read-only input arrays as the solver chose them (e.g. unequal delays)
    for a, nm in zip(args, names):
        if isinstance(a, np.ndarray) and nm in (p.get("loads") or {}) and not a.dtype.names:
            for k, v in p["loads"][nm].items():
                if int(k) < a.size:
                    try:
                        a.ravel()[int(k)] = v
                    except (OverflowError, ValueError):
                        pass
    la = one_iteration(py, args, names, p["it_a"], p.get("num_threads"))
    lb = one_iteration(py, args, names, p["it_b"], p.get("num_threads"))
    wa = {(n, e) for k, n, e in la if k == "W"}
    wb = {(n, e) for k, n, e in lb if k == "W"}
    ta = {(n, e) for k, n, e in la}
    tb = {(n, e) for k, n, e in lb}
    clash = (wa & tb) | (wb & ta)
    print("params:", json.dumps(p))
    if p["it_a"] != p["it_b"] and clash:
        ex = sorted(clash, key=str)[:5]
        print(f"MISMATCH: prange iterations {p['it_a']} and {p['it_b']} of {p['kernel']} both touch (at least one writes) {ex}")
        return 1
    print("no shared element between the two iterations")
    return 0


def main_threads(p):
    """best effort: exhibit a result that depends on the number of threads"""
    import numba
    from symx.kernel_specs import specs
    sp = specs()[p["kernel"]]
    sizes = dict(p["sizes"])
    for k in sizes:
        if k in ("nsamps", "len", "dim1"):
            sizes[k] = 200000
    diff = False
    numba.set_num_threads(1)
    a1 = sp["conc"](sizes)
    r1 = sp["disp"](*a1)
    for rep in range(20):
        numba.set_num_threads(numba.config.NUMBA_NUM_THREADS)
        a2 = sp["conc"](sizes)
        r2 = sp["disp"](*a2)
        outs1 = [x for x in a1 if isinstance(x, np.ndarray)] + ([r1] if isinstance(r1, np.ndarray) else [])
        outs2 = [x for x in a2 if isinstance(x, np.ndarray)] + ([r2] if isinstance(r2, np.ndarray) else [])
        for x, y in zip(outs1, outs2):
            if x.dtype.names:
                if any(not np.array_equal(x[f], y[f]) for f in x.dtype.names):
                    diff = True
            elif not np.array_equal(x, y):
                diff = True
        if diff:
            break
    print("params:", json.dumps(p))
    if diff:
        print("MISMATCH: result differs between 1 thread and all threads")
        return 1
    return 0


if __name__ == "__main__":
    sys.exit(main(json.loads(sys.argv[1])))
