"""Concrete replay for C20: (a) crash-point prefixes of the real streaming writers (FileIO.write /
ndarray.tofile wrapped), (b) byte truncations of a finished file re-opened with the real reader."""
from __future__ import annotations

import json
import os
import sys
import tempfile

import numpy as np

from .sigfile import encode_samples, header_bytes, random_samples


def main_trunc(p):
    from sigpyproc.readers import FilReader
    nbits, nchans, L = p["nbits"], p["nchans"], p["datalen"]
    rng = np.random.default_rng(1)
    nfull = (8 * L) // (nbits * nchans) + 2
    x = random_samples(rng, nfull, nchans, nbits)
    data = encode_samples(x, nbits)[:L]
    bad = []
    with tempfile.TemporaryDirectory() as d:
        fn = os.path.join(d, "t.fil")
        with open(fn, "wb") as f:
            f.write(header_bytes(nchans, nbits) + data)
        k = (8 * L) // (nbits * nchans)
        try:
            fil = FilReader(fn)
            if fil.header.nsamples != k:
                bad.append(f"inferred nsamples {fil.header.nsamples} != complete samples {k}")
            if k >= 1:
                blk = fil.read_block(0, fil.header.nsamples)
                if blk.data.shape != (nchans, k) or not np.array_equal(np.asarray(blk.data), x[:k].T):
                    bad.append("read_block(0,k) differs from the first k samples")
        except Exception as e:  # noqa: BLE001
            bad.append(f"surviving file could not be read: {type(e).__name__}: {e}")
    print("params:", json.dumps(p))
    for b in bad:
        print("MISMATCH:", b)
    return 1 if bad else 0


def main(p):
    """crash points: wrap the raw writes of the real writer; after every write the bytes on disk must be
    a complete header followed by a prefix of the final data section made of whole samples"""
    import io
    from unittest import mock
    from . import c07
    snaps = {}
    orig_write = io.FileIO.write
    orig_tofile = np.ndarray.tofile

    def snap(fobj):
        try:
            name = fobj.name
            if isinstance(name, str) and os.path.exists(name) and "w" in getattr(fobj, "mode", "") or "+" in getattr(fobj, "mode", ""):
                snaps.setdefault(name, []).append(open(name, "rb").read())
        except Exception:  # noqa: BLE001
            pass
    import sigpyproc.io.fileio as fio
    real_cwrite, real_write = fio.FileWriter.cwrite, fio.FileWriter.write

    late = []

    def cwrite(self, arr):
        before = os.path.getsize(self.file_obj.name)
        real_cwrite(self, arr)
        snap(self.file_obj)
        want = before + (np.asarray(arr).size * self.bitsinfo.nbits) // 8
        got = os.path.getsize(self.file_obj.name)
        if got != want:
            late.append(f"{os.path.basename(self.file_obj.name)}: after cwrite of {np.asarray(arr).size} samples the file holds {got} bytes, not {want} "
                        "(data handed to the writer is not on disk when the call returns)")

    def write(self, bo):
        real_write(self, bo)
        snap(self.file_obj)
    finals = {}
    real_cleanup = tempfile.TemporaryDirectory.cleanup

    def cleanup(self):
        # the files as they are on disk when the producing call has returned (before the scratch directory goes away)
        for name in list(snaps):
            try:
                if os.path.exists(name):
                    finals[name] = open(name, "rb").read()
            except OSError:
                pass
        return real_cleanup(self)
    with mock.patch.object(fio.FileWriter, "cwrite", cwrite), mock.patch.object(fio.FileWriter, "write", write), \
            mock.patch.object(tempfile.TemporaryDirectory, "cleanup", cleanup):
        q = dict(p)
        q.pop("check", None)
        out, bad = c07.run(q)
    bad = [b for b in bad if "raised" in b] + late[:2]
    for name, ss in snaps.items():
        final = finals.get(name, ss[-1])
        if name in finals and finals[name] != ss[-1]:
            bad.append(f"{os.path.basename(name)}: the file was modified after its last write through the writer "
                       f"({'header bytes changed' if finals[name][:len(ss[0])] != ss[0] else 'data changed'}): what was on disk between writes is not what the call left")
        try:
            h, hl, _ = c07.parse(name) if os.path.exists(name) else (None, None, None)
        except Exception:  # noqa: BLE001
            h = None
        for i, s in enumerate(ss):
            if not final.startswith(s):
                bad.append(f"{os.path.basename(name)}: bytes after write {i} are not a prefix of the final file (rewritten/patched)")
        # header complete after the first write
        first = ss[0]
        if b"HEADER_END" not in first:
            bad.append(f"{os.path.basename(name)}: first write does not contain the complete header")
        else:
            hl = first.index(b"HEADER_END") + len(b"HEADER_END")
            import struct
            # find nbits / nchans in the header bytes
            def val(key, fmt="<I"):
                k = first.index(key.encode()) + len(key)
                return struct.unpack(fmt, first[k:k + struct.calcsize(fmt)])[0]
            nb, nc = val("nbits"), val("nchans")
            for i, s in enumerate(ss[1:], 1):
                if ((len(s) - hl) * 8) % (nb * nc) != 0:
                    bad.append(f"{os.path.basename(name)}: after write {i} the data section is not a whole number of samples")
    print("params:", json.dumps(p))
    for b in bad:
        print("MISMATCH:", b)
    return 1 if bad else 0
