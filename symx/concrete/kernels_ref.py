"""numpy definitions of the streaming kernels + replay of the real compiled kernel against them."""
from __future__ import annotations

import json
import sys

import numpy as np

DT = {"u1": np.uint8, "f4": np.float32, "i4": np.int32, "b1": np.bool_, "i8": np.int64}


def mk(a):
    if isinstance(a, dict):
        return np.array(a["data"], dtype=np.float64).astype(DT[a["dtype"]]).reshape(a["shape"]) if a["dtype"] != "b1" else np.array(a["data"], dtype=bool).reshape(a["shape"])
    return a


def ref(kernel, args):
    """returns the expected (possibly updated) arrays: dict index->array, and/or 'ret'"""
    a = [x.astype(np.float64) if isinstance(x, np.ndarray) and x.dtype != np.bool_ else x for x in args]
    if kernel == "extract_tim":
        x, o, C, n, idx = a
        o = o.copy()
        for i in range(n):
            o[idx + i] = x[C * i:C * (i + 1)].sum()
        return {1: o}
    if kernel == "extract_bpass":
        x, o, C, n = a
        o = o.copy()
        for c in range(C):
            o[c] += sum(x[C * i + c] for i in range(n))
        return {1: o}
    if kernel == "dedisperse":
        x, o, d, D, C, n, idx = a
        o = o.copy()
        for i in range(n - D):
            o[idx + i] += sum(x[C * (i + int(d[c])) + c] for c in range(C))
        return {1: o}
    if kernel == "invert_freq":
        x, C, n = a
        r = x.copy()
        for i in range(n):
            r[C * i:C * (i + 1)] = x[C * i:C * (i + 1)][::-1]
        return {"ret": r, "ret_len": C * n}
    if kernel == "mask_channels":
        x, m, mv, C, n = a
        r = x.copy()
        for c in range(C):
            if m[c]:
                r[c:C * n:C] = mv
        return {0: r}
    if kernel == "downsample_2d_mean_flat":
        x, f1, f2, d1, d2 = a
        n1, n2 = d1 // f1, d2 // f2
        r = np.zeros(n1 * n2)
        x2 = x[:d1 * d2].reshape(d1, d2)
        for i in range(n1):
            for j in range(n2):
                r[n2 * i + j] = np.trunc(x2[i * f1:(i + 1) * f1, j * f2:(j + 1) * f2].mean()) if args[0].dtype.kind in "ui" else x2[i * f1:(i + 1) * f1, j * f2:(j + 1) * f2].mean()
        return {"ret": r}
    if kernel == "subband":
        x, o, d, c2s, D, C, NS, n = a
        o = o.copy()
        for i in range(n - D):
            for c in range(C):
                o[NS * i + int(c2s[c])] += x[C * (i + int(d[c])) + c]
        return {1: o}
    if kernel == "remove_zerodm":
        x, o, bp, cw, C, n = a
        o = o.copy()
        for i in range(n):
            z = x[C * i:C * (i + 1)].sum()
            for c in range(C):
                v = (x[C * i + c] - z * cw[c]) + bp[c]
                o[C * i + c] = np.trunc(v) if args[1].dtype.kind in "ui" else v
        return {1: o}
    raise KeyError(kernel)


def main(p):
    from sigpyproc.core import kernels as K
    args = [mk(a) for a in p["args"]]
    want = ref(p["kernel"], args)
    real_args = [a.copy() if isinstance(a, np.ndarray) else a for a in args]
    if p["kernel"] == "mask_channels":
        real_args[2] = args[0].dtype.type(real_args[2])
    r = getattr(K, p["kernel"])(*real_args)
    bad = []
    for k, w in want.items():
        if k == "ret_len":
            continue
        g = r if k == "ret" else real_args[k]
        g = np.asarray(g, dtype=np.float64)
        if "ret_len" in want and k == "ret":
            g, w = g[:want["ret_len"]], w[:want["ret_len"]]
        if g.shape != w.shape or not np.allclose(g, w, rtol=1e-5, atol=1e-5):
            bad.append(f"{p['kernel']}: compiled kernel gives {g.tolist()}, definition gives {w.tolist()}")
    print("params:", json.dumps(p)[:500])
    for b in bad:
        print("MISMATCH:", b[:600])
    return 1 if bad else 0


if __name__ == "__main__":
    sys.exit(main(json.loads(sys.argv[1])))
