"""Independent writer of SIGPROC filterbank files + numpy oracle data (no library code used)."""
from __future__ import annotations

import os
import struct

import numpy as np


def _s(x):
    return struct.pack("<I", len(x)) + x.encode()


def header_bytes(nchans, nbits, tstart=50000.0, tsamp=0.001, fch1=1500.0, foff=-1.0, extra=b"", data_type=1):
    h = _s("HEADER_START")
    h += _s("telescope_id") + struct.pack("<I", 4)
    h += _s("machine_id") + struct.pack("<I", 10)
    h += _s("data_type") + struct.pack("<I", data_type)
    h += _s("source_name") + _s("symx")
    h += _s("src_raj") + struct.pack("<d", 123456.7)
    h += _s("src_dej") + struct.pack("<d", -123456.7)
    h += _s("nbits") + struct.pack("<I", nbits)
    h += _s("nchans") + struct.pack("<I", nchans)
    h += _s("nifs") + struct.pack("<I", 1)
    h += _s("fch1") + struct.pack("<d", fch1)
    h += _s("foff") + struct.pack("<d", foff)
    h += _s("tstart") + struct.pack("<d", tstart)
    h += _s("tsamp") + struct.pack("<d", tsamp)
    h += extra
    h += _s("HEADER_END")
    return h


def pack_ref(vals, nbits):
    """reference bit packing in the library's documented default order (1-bit little; 2/4-bit big)."""
    vals = np.asarray(vals, dtype=np.uint8)
    f = 8 // nbits
    v = vals.reshape(-1, f).astype(np.uint16)
    out = np.zeros(v.shape[0], dtype=np.uint16)
    for k in range(f):
        pos = k if nbits == 1 else (f - 1 - k)
        out |= v[:, k] << (pos * nbits)
    return out.astype(np.uint8)


def random_samples(rng, nsamps, nchans, nbits):
    if nbits == 32:
        return rng.integers(0, 200, (nsamps, nchans)).astype(np.float32)
    if nbits == 16:
        return rng.integers(0, 60000, (nsamps, nchans)).astype(np.uint16)
    return rng.integers(0, 1 << nbits, (nsamps, nchans)).astype(np.uint8)


def encode_samples(x, nbits):
    flat = np.ascontiguousarray(x).ravel()
    if nbits in (1, 2, 4):
        return pack_ref(flat, nbits).tobytes()
    if nbits == 8:
        return flat.astype("<u1").tobytes()
    if nbits == 16:
        return flat.astype("<u2").tobytes()
    return flat.astype("<f4").tobytes()


def write_set(d, x, nbits, splits, tsamp=0.001, tstart=50000.0, fch1=1500.0, foff=-1.0, prefix="in"):
    """write samples x (nsamps, nchans) over len(splits) contiguous files holding splits[i] samples"""
    assert sum(splits) == x.shape[0]
    names, pos = [], 0
    for i, n in enumerate(splits):
        fn = os.path.join(d, f"{prefix}{i}.fil")
        with open(fn, "wb") as f:
            f.write(header_bytes(x.shape[1], nbits, tstart=tstart + pos * tsamp / 86400.0, tsamp=tsamp, fch1=fch1, foff=foff))
            f.write(encode_samples(x[pos:pos + n], nbits))
        names.append(fn)
        pos += n
    return names
