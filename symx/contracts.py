"""Establishes the kernel contracts used by the streaming harnesses (symx.stream.KC) from
numba's typed IR: the real kernel is interpreted symbolically (E1) on arbitrary data at
small concrete shapes and compared, element by element, with the contract evaluated on
the same symbolic inputs.  A contract that is not entailed is a harness error."""
from __future__ import annotations

import itertools

import numpy as np
import z3
from numba.core import types

from .arrays import FArr
from .core import Ctx, SBool, SInt, explore
from .nbsym import Interp, NArr, Sym, capture, sym_array
from .stream import KC, SymList

u1, f4, i4, i8, b1 = types.uint8, types.float32, types.int32, types.int64, types.boolean


def A(dt, nd=1, layout="A"):
    return types.Array(dt, nd, layout)


def to_farr(narr, dt):
    """FArr whose element i is the (symbolic) element i of a 1-D NArr"""
    elems = []
    for i in range(narr.shape[0]):
        v = narr.get((i,))
        elems.append(v.t if isinstance(v, Sym) else (z3.RealVal(v) if isinstance(v, float) else z3.IntVal(int(v)) if not isinstance(v, bool) else z3.BoolVal(v)))
    srt = elems[0].sort() if elems else z3.IntSort()
    g = z3.Function(f"oob!{id(narr) % 100000}", z3.IntSort(), srt)

    def fn(j):
        r = g(j)
        for i in range(len(elems) - 1, -1, -1):
            r = z3.If(j == i, elems[i], r)
        return r
    return FArr(len(elems), fn, dt)


def val(v):
    if isinstance(v, Sym):
        return v.t
    if isinstance(v, bool):
        return z3.BoolVal(v)
    if isinstance(v, int):
        return z3.IntVal(v)
    return z3.RealVal(v)


def _r(t):
    return z3.ToReal(t) if t.sort() == z3.IntSort() else t


PRE = {}


def snap_args(name, args):
    """remember the kernel arguments as passed (pre-state) for replay"""
    out = []
    for a in args:
        if isinstance(a, NArr):
            c = NArr(a.dtype, a.shape, name=a.name)
            c.store = list(a.store)
            out.append(c)
        else:
            out.append(a)
    PRE[name] = out
    return args


def concretise_args(m, args):
    def ev(v):
        if isinstance(v, Sym):
            x = m.eval(v.t, model_completion=True)
            if z3.is_int_value(x):
                return x.as_long()
            if z3.is_rational_value(x):
                return float(x.numerator_as_long()) / float(x.denominator_as_long())
            return bool(z3.is_true(x))
        return v
    out = []
    for a in args:
        if isinstance(a, NArr):
            dt = {"uint8": "u1", "float32": "f4", "int32": "i4", "bool": "b1", "int64": "i8"}[str(a.dtype)]
            out.append(dict(dtype=dt, shape=list(a.shape), data=[ev(x) for x in a.store]))
        else:
            out.append(ev(a))
    return out


def compare(P, name, cfg, got_narr, want_farr, cons, solver_stats):
    import json
    s = z3.Solver()
    s.set("timeout", 60000)
    s.add(*cons)
    bad = []
    for i in range(got_narr.shape[0]):
        g = got_narr.get((i,))
        if g is None:
            continue
        w = z3.simplify(want_farr.fn(z3.IntVal(i)))
        bad.append(_r(val(g)) != _r(w))
    solver_stats.queries += 1
    r = s.check(z3.Or(bad)) if bad else z3.unsat
    if bad and hasattr(solver_stats, "note_query"):
        solver_stats.note_query(list(cons) + [z3.Or(bad)], r)
    if r == z3.unsat:
        P.obligation(f"contract:{name}{cfg}", "holds", symbolic=True)
        return True
    if r == z3.sat:
        # the typed IR disagrees with the contract: replay the real compiled kernel against the numpy
        # definition on the model's data.  Reproduces -> the kernel violates its definition (VIOLATION);
        # does not reproduce -> the contract/encoder is wrong (harness error).
        params = dict(kernel=name, args=concretise_args(s.model(), PRE.get(name, [])))
        src = ("import sys, json\nfrom symx.concrete import kernels_ref\n"
               f"sys.exit(kernels_ref.main(json.loads({json.dumps(json.dumps(params))})))\n")
        P.violation(f"kernel-{name}-{'_'.join(str(x) for x in cfg if not isinstance(x, tuple))}", f"kernel {name} differs from its definition at shape {cfg}", src, model=params)
    else:
        P.inconclusive_(f"contract {name}{cfg}: solver unknown")
    return False


def uint8_range(arr):
    return [z3.And(e.t >= 0, e.t <= 255) for e in arr.store if isinstance(e, Sym)]


def establish(P, names, quick=True):
    """P: Part/Run-like.  names: kernels to establish."""
    from . import stream
    old = stream.ABSTRACT_CAST[0]
    stream.ABSTRACT_CAST[0] = False
    try:
        _establish(P, names, quick)
    finally:
        stream.ABSTRACT_CAST[0] = old


def _establish(P, names, quick=True):
    from sigpyproc.core import kernels as K
    st = P.stats
    shapes = [(1, 1), (2, 3), (3, 2)] if quick else [(1, 1), (1, 4), (2, 3), (3, 2), (3, 4), (4, 2)]
    for name in names:
        for (C, n) in shapes:
            if name == "extract_tim":
                disp = K.extract_tim
                cap = capture(disp, disp.nopython_signatures[0].args)
                for idx in (0, 2):
                    it = Interp(cap, "int")
                    a = sym_array(it, "x", A(u1), (C * n,))
                    o = sym_array(it, "o", A(f4), (idx + n + 1,))
                    o_before = NArr(f4, o.shape, name="o0")
                    o_before.store = list(o.store)
                    it.run(snap_args(name, [a, o, C, n, idx]))
                    kc = KC()
                    fa, fo = to_farr(a, "u1"), to_farr(o_before, "f4")
                    kc.extract_tim(fa, fo, C, SInt(z3.IntVal(n)), SInt(z3.IntVal(idx)))
                    compare(P, name, (C, n, idx), o, fo, uint8_range(a), st)
            elif name == "extract_bpass":
                disp = K.extract_bpass
                cap = capture(disp, disp.nopython_signatures[0].args)
                it = Interp(cap, "int")
                a = sym_array(it, "x", A(u1), (C * n,))
                o = sym_array(it, "o", A(f4), (C,))
                o0 = [e.t for e in o.store]
                it.run(snap_args(name, [a, o, C, n]))
                want = FArr(C, lambda c: z3.Sum([z3.If(c == cc, o0[cc] + z3.Sum([z3.ToReal(a.store[C * i + cc].t) for i in range(n)]), z3.RealVal(0)) for cc in range(C)]), "f4")
                compare(P, name, (C, n), o, want, uint8_range(a), st)
            elif name == "dedisperse":
                disp = K.dedisperse
                cap = capture(disp, disp.nopython_signatures[0].args)
                for D in sorted({0, min(1, n - 1), n - 1}):
                    if D < 0:
                        continue
                    for dl in itertools.islice(itertools.product(range(D + 1), repeat=C), 6):
                        for idx in (0, 1):
                            it = Interp(cap, "int")
                            a = sym_array(it, "x", A(u1), (C * n,))
                            o = sym_array(it, "o", A(f4), (idx + n,))
                            o_before = NArr(f4, o.shape, name="o0")
                            o_before.store = list(o.store)
                            dn = NArr(i4, (C,), name="delays")
                            dn.store = list(dl)
                            it.run(snap_args(name, [a, o, dn, D, C, n, idx]))
                            kc = KC()
                            fa, fo = to_farr(a, "u1"), to_farr(o_before, "f4")
                            kc.dedisperse(fa, fo, SymList([SInt(z3.IntVal(x)) for x in dl]), SInt(z3.IntVal(D)), C, SInt(z3.IntVal(n)), SInt(z3.IntVal(idx)))
                            compare(P, name, (C, n, D, dl, idx), o, fo, uint8_range(a), st)
            elif name == "invert_freq":
                disp = K.invert_freq
                cap = capture(disp, (A(u1, 1, "C"), i8, i8))
                it = Interp(cap, "int")
                a = sym_array(it, "x", A(u1), (C * n + 1,))
                r = it.run(snap_args(name, [a, C, n]))
                kc = KC()
                want = kc.invert_freq(to_farr(a, "u1"), C, SInt(z3.IntVal(n)))
                compare(P, name, (C, n), r, want, uint8_range(a), st)
            elif name == "mask_channels":
                disp = K.mask_channels
                cap = capture(disp, disp.nopython_signatures[0].args)

                def runm(ctx, C=C, n=n):
                    it = Interp(cap, "int")
                    a = sym_array(it, "x", A(u1), (C * n,))
                    a0 = NArr(u1, a.shape, name="x0")
                    a0.store = list(a.store)
                    m = sym_array(it, "m", A(b1), (C,))
                    mv = Sym(z3.Int("mv"), u1)
                    it.run(snap_args(name, [a, m, mv, C, n]))
                    kc = KC()
                    fa = to_farr(a0, "u1")
                    kc.mask_channels(fa, SymList([SBool(e.t) for e in m.store]), SInt(mv.t), C, SInt(z3.IntVal(n)))
                    return a, fa, uint8_range(a0) + [mv.t >= 0, mv.t <= 255]

                def onp(ctx, out, C=C, n=n):
                    a, fa, cons = out
                    compare(P, name, (C, n, tuple(ctx.decisions)), a, fa, cons + list(ctx.pc), st)
                explore(runm, bound=4, on_path=onp, stats=st)
                # the float32 variant(s): 32-bit files hand a float fill value to the kernel; numba converts it to the
                # *declared* parameter type at the call boundary (a float handed to an integer parameter is truncated)
                for sg in disp.nopython_signatures[1:]:
                    if not isinstance(sg.args[0].dtype, types.Float):
                        continue
                    capf = capture(disp, sg.args)
                    pty = sg.args[2]

                    def runf(ctx, C=C, n=n, capf=capf, pty=pty, sg=sg):
                        it = Interp(capf, "int")
                        a = sym_array(it, "xf", A(sg.args[0].dtype), (C * n,))
                        a0 = NArr(sg.args[0].dtype, a.shape, name="xf0")
                        a0.store = list(a.store)
                        m = sym_array(it, "m", A(b1), (C,))
                        mvr = z3.Real("mvr")
                        cons = [mvr >= 0, mvr <= 255]
                        if isinstance(pty, types.Integer):
                            passed = Sym(z3.ToInt(mvr), pty)          # what the compiled kernel receives
                        else:
                            passed = Sym(mvr, pty)
                        it.run([a, m, passed, C, n])
                        kc = KC()
                        fa = to_farr(a0, "f4")
                        from .core import SReal
                        kc.mask_channels(fa, SymList([SBool(e.t) for e in m.store]), SReal(mvr), C, SInt(z3.IntVal(n)))
                        pre = [a0, m, Sym(mvr, sg.args[0].dtype), C, n]
                        return a, fa, cons, pre

                    def onpf(ctx, out, C=C, n=n):
                        a, fa, cons, pre = out
                        PRE[name] = pre          # replay: the real dispatcher is called with float32 samples and a float fill value
                        compare(P, name, ("float32 samples, float fill value", C, n, tuple(ctx.decisions)), a, fa, cons + list(ctx.pc), st)
                    explore(runf, bound=4, on_path=onpf, stats=st)
            elif name == "downsample_2d_mean_flat":
                disp = K.downsample_2d_mean_flat
                cap = capture(disp, (A(u1, 1, "C"), i8, i8, i8, i8))
                for f1, f2 in ((1, 1), (2, 1), (1, 2), (2, 2)):
                    d1, d2 = n + 1, C + 1      # dim1 = samples (slow), dim2 = channels (fast)
                    it = Interp(cap, "int")
                    a = sym_array(it, "x", A(u1), (d1 * d2,))
                    r = it.run(snap_args(name, [a, f1, f2, d1, d2]))
                    kc = KC()
                    want = kc.downsample_2d_mean_flat(to_farr(a, "u1"), f1, f2, SInt(z3.IntVal(d1)), SInt(z3.IntVal(d2)))
                    compare(P, name, (f1, f2, d1, d2), r, want, uint8_range(a), st)
            elif name == "subband":
                disp = K.subband
                cap = capture(disp, disp.nopython_signatures[0].args)
                for NS in sorted({1, C}):
                    sub = C // NS
                    c2s = [c // sub for c in range(C)]
                    for D in sorted({0, n - 1}):
                        dl = tuple(min(c, D) for c in range(C))
                        it = Interp(cap, "int")
                        a = sym_array(it, "x", A(u1), (C * n,))
                        o = sym_array(it, "o", A(f4), (NS * n,))
                        o0 = NArr(f4, o.shape, name="o0")
                        o0.store = list(o.store)
                        dn = NArr(i4, (C,), name="delays")
                        dn.store = list(dl)
                        cn = NArr(i4, (C,), name="chan_to_sub")
                        cn.store = list(c2s)
                        it.run(snap_args(name, [a, o, dn, cn, D, C, NS, n]))
                        kc = KC()
                        fo = to_farr(o0, "f4")
                        kc.subband(to_farr(a, "u1"), fo, SymList([SInt(z3.IntVal(x)) for x in dl]), c2s, SInt(z3.IntVal(D)), C, NS, SInt(z3.IntVal(n)))
                        compare(P, name, (C, n, NS, D), o, fo, uint8_range(a), st)
            elif name == "remove_zerodm":
                disp = K.remove_zerodm
                for dt_in, nbt in ((u1, "u1"), (f4, "f4")):
                    sig = [s for s in disp.nopython_signatures if s.args[0].dtype == dt_in][0].args
                    cap = capture(disp, sig)
                    it = Interp(cap, "int")
                    a = sym_array(it, "x", A(dt_in), (C * n,))
                    o = sym_array(it, "o", A(dt_in), (C * n,))
                    o0 = NArr(dt_in, o.shape, name="o0")
                    o0.store = list(o.store)
                    bp = sym_array(it, "bp", A(f4), (C,))
                    cw = sym_array(it, "cw", A(f4), (C,))
                    it.run(snap_args(name, [a, o, bp, cw, C, n]))
                    kc = KC()
                    fo = to_farr(o0, nbt)
                    kc.remove_zerodm(to_farr(a, nbt), fo, to_farr(bp, "f4"), to_farr(cw, "f4"), C, SInt(z3.IntVal(n)))
                    cons = uint8_range(a) if nbt == "u1" else []
                    if nbt == "u1":
                        # exactness premise: no value leaves the representable range (the cast wraps otherwise)
                        for i in range(C * n):
                            w = fo.fn(z3.IntVal(i))
                            cons.append(z3.And(w >= 0, w <= 255))
                    compare(P, name, (C, n, nbt), o, fo, cons, st)
            else:
                raise KeyError(name)


def sym_like(narr, name):
    return narr
