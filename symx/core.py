"""E2 core: re-execution based dynamic symbolic execution of real Python bytecode.

Symbolic scalars (SInt / SReal / SBool) wrap z3 terms and follow Python
semantics (floor division, truncating int(), half-even round ...).  Truth
tests (`if`, `and`, `while`) reach SBool.__bool__, which asks the solver which
sides are feasible under the current path condition and forks by re-execution.
`__index__` (range(), slicing ...) forks over the feasible values up to the
structural bound and otherwise *cuts* the path (counted, reported as outside
the claim).  `unknown` from the solver raises Inconclusive (never a pass).
"""
from __future__ import annotations

import time
import types as pytypes
from fractions import Fraction

import z3


class Inconclusive(Exception):
    """Harness error / solver unknown / unsupported construct: exit code 2."""


class Unsupported(Inconclusive):
    pass


class Cut(BaseException):
    """Path cut by a structural bound (not an error; counted)."""


class Stats:
    def __init__(self):
        self.paths = 0
        self.cuts = 0
        self.queries = 0
        self.solver_s = 0.0
        self.cut_reasons = {}
        self.xc = []          # sampled queries for the second-solver cross-check: (smt2 text, z3 verdict)
        self.xc_seen = 0

    def note_query(self, assertions, verdict):
        """keep a few decided queries (SMT-LIB text + z3's verdict) for the cvc5 cross-check"""
        self.xc_seen += 1
        want_unsat = sum(1 for _, v in self.xc if v == "unsat") < XC_PER_STATS
        want_sat = sum(1 for _, v in self.xc if v == "sat") < 1
        v = str(verdict)
        if (v == "unsat" and want_unsat) or (v == "sat" and want_sat and self.xc_seen % 7 == 0):
            try:
                q = z3.Solver()
                q.add(*assertions)
                txt = q.to_smt2()
            except Exception:  # noqa: BLE001
                return
            if len(txt) < 300000:
                self.xc.append((txt, v))

    def add(self, o):
        for item in o.xc:
            if len(self.xc) < XC_PER_PART:
                self.xc.append(item)
        self.paths += o.paths
        self.cuts += o.cuts
        self.queries += o.queries
        self.solver_s += o.solver_s
        for k, v in o.cut_reasons.items():
            self.cut_reasons[k] = self.cut_reasons.get(k, 0) + v

    def asdict(self):
        return dict(paths=self.paths, cuts=self.cuts, queries=self.queries,
                    solver_s=round(self.solver_s, 3), cut_reasons=dict(self.cut_reasons))


XC_PER_STATS, XC_PER_PART = 2, 6
QUERY_TIMEOUT_MS = 60000
MAX_DEPTH = 200   # decisions per path; deeper paths are cut (counted, outside the claim)


class Ctx:
    cur: "Ctx" = None

    def __init__(self, prefix, bound, stats):
        self.prefix = list(prefix)
        self.pos = 0
        self.decisions = []
        self.solver = z3.Solver()
        self.solver.set("timeout", QUERY_TIMEOUT_MS)
        self.pc = []
        self.pending = []
        self.bound = bound
        self.stats = stats
        self.nfresh = 0
        self.notes = []

    # -- solver access
    def check(self, *extra):
        t = time.time()
        self.stats.queries += 1
        r = self.solver.check(*extra)
        if r == z3.unknown:
            # one retry in a fresh solver with three times the budget (a loaded machine must not flip a verdict to
            # "unknown"); still unknown -> inconclusive, never a pass
            s2 = z3.Solver()
            s2.set("timeout", 3 * QUERY_TIMEOUT_MS)
            s2.set("random_seed", 7)
            s2.add(*self.solver.assertions())
            r = s2.check(*extra)
            self.stats.queries += 1
            if r == z3.sat:
                # keep the model reachable through self.solver.model()
                self.solver = s2
                self.solver.set("timeout", QUERY_TIMEOUT_MS)
        self.stats.solver_s += time.time() - t
        if r == z3.unknown:
            raise Inconclusive(f"solver unknown: {self.solver.reason_unknown()}")
        if extra and (self.stats.xc_seen < 400 or self.stats.xc_seen % 50 == 0):
            self.stats.note_query(list(self.solver.assertions()) + list(extra), r)
        else:
            self.stats.xc_seen += 1
        return r

    def sat(self, *extra):
        return self.check(*extra) == z3.sat

    def model_values(self, *extra):
        """Return {name: python value} for 0-ary constants if pc /\\ extra is sat, else None."""
        if self.check(*extra) != z3.sat:
            return None
        return model_dict(self.solver.model())

    def assume(self, c):
        self.solver.add(c)
        self.pc.append(c)

    def prefix_feasible(self, cond):
        """while replaying a decision prefix: the same feasibility pre-check as on first execution"""
        return self.sat(cond)

    def fresh_int(self, base):
        self.nfresh += 1
        return z3.Int(f"{base}!{self.nfresh}")

    def fresh_real(self, base):
        self.nfresh += 1
        return z3.Real(f"{base}!{self.nfresh}")

    def branch(self, cond):
        cond = z3.simplify(cond)
        if z3.is_true(cond):
            return True
        if z3.is_false(cond):
            return False
        if self.pos < len(self.prefix):
            v = self.prefix[self.pos]
            self.pos += 1
            self.decisions.append(v)
            self.assume(cond if v else z3.Not(cond))
            return v
        if len(self.decisions) >= MAX_DEPTH:
            raise Cut("depth")
        try:
            can_t = self.check(cond) == z3.sat
            can_f = self.check(z3.Not(cond)) == z3.sat
        except Inconclusive:
            # feasibility of a branch undecided within the per-query budget (60 s, then 180 s): the path is abandoned and
            # counted as a cut ("solver-unknown"), i.e. it lies outside what this run explored; obligations are never
            # waved through this way (an undecided obligation stays inconclusive)
            raise Cut("solver-unknown") from None
        if can_t and can_f:
            self.pending.append(self.decisions + [False])
            v = True
        elif can_t:
            v = True
        elif can_f:
            v = False
        else:
            raise Cut("infeasible")
        self.pos += 1
        self.decisions.append(v)
        self.assume(cond if v else z3.Not(cond))
        return v


def model_dict(m):
    out = {}
    for d in m.decls():
        if d.arity() != 0:
            continue
        v = m[d]
        out[str(d)] = z3val(v)
    return out


def z3val(v):
    if z3.is_int_value(v):
        return v.as_long()
    if z3.is_rational_value(v):
        return Fraction(v.numerator_as_long(), v.denominator_as_long())
    if z3.is_true(v):
        return True
    if z3.is_false(v):
        return False
    if z3.is_bv_value(v):
        return v.as_long()
    if z3.is_algebraic_value(v):
        return float(v.approx(20).as_fraction())
    return str(v)


# ---------------------------------------------------------------- scalars

def is_sym(x):
    return isinstance(x, (SInt, SReal, SBool))


def wrap(x):
    if isinstance(x, (SInt, SReal, SBool)):
        return x
    if isinstance(x, bool):
        return SBool(z3.BoolVal(x))
    if isinstance(x, int):
        return SInt(z3.IntVal(x))
    if isinstance(x, float):
        if x != x or x in (float("inf"), float("-inf")):
            raise Unsupported("non-finite float in symbolic arithmetic")
        return SReal(z3.RealVal(Fraction(x)))
    if isinstance(x, Fraction):
        return SReal(z3.RealVal(x))
    try:
        import numpy as np
        if isinstance(x, np.bool_):
            return SBool(z3.BoolVal(bool(x)))
        if isinstance(x, np.integer):
            return SInt(z3.IntVal(int(x)))
        if isinstance(x, np.floating):
            return SReal(z3.RealVal(Fraction(float(x))))
    except ImportError:
        pass
    if isinstance(x, z3.ArithRef):
        return SInt(x) if x.is_int() else SReal(x)
    if isinstance(x, z3.BoolRef):
        return SBool(x)
    raise Unsupported(f"cannot wrap {type(x).__name__}")


def term(x):
    return wrap(x).e


def rterm(x):
    x = wrap(x)
    if isinstance(x, SInt):
        return z3.ToReal(x.e)
    if isinstance(x, SBool):
        return z3.If(x.e, z3.RealVal(1), z3.RealVal(0))
    return x.e


def z3_floordiv(a, b):
    """Python floor division of z3 Int terms."""
    if z3.is_int_value(b) and b.as_long() > 0:
        return a / b
    q = a / b
    r = a - b * q
    return z3.If(z3.And(b < 0, r != 0), q - 1, q)


def concretise_quotient(a, b):
    """floor(a / b) for a symbolic divisor: keeps the arithmetic linear by forking over the
    value of the quotient (0..bound, then -1..-bound); larger quotients are cut."""
    c = Ctx.cur
    if c.branch(b == 0):
        raise ZeroDivisionError("integer division or modulo by zero (symbolic)")
    cands = list(range(0, c.bound + 1)) + [-v for v in range(1, c.bound + 1)]
    for v in cands:
        cond = z3.If(b > 0, z3.And(v * b <= a, a < (v + 1) * b), z3.And((v + 1) * b < a, a <= v * b))
        if c.branch(cond):
            return z3.IntVal(v)
    raise Cut("quotient>bound")


def _num(o):
    o = wrap(o)
    if isinstance(o, SBool):
        return SInt(z3.If(o.e, 1, 0))
    return o


class SBool:
    __slots__ = ("e",)

    def __init__(self, e):
        self.e = e

    def __bool__(self):
        return Ctx.cur.branch(self.e)

    def __and__(self, o):
        return SBool(z3.And(self.e, wrap(o).e))

    __rand__ = __and__

    def __or__(self, o):
        return SBool(z3.Or(self.e, wrap(o).e))

    __ror__ = __or__

    def __invert__(self):
        return SBool(z3.Not(self.e))

    def __eq__(self, o):
        return SBool(self.e == wrap(o).e)

    def __ne__(self, o):
        return SBool(self.e != wrap(o).e)

    __hash__ = None

    def __repr__(self):
        return f"SBool({z3.simplify(self.e)})"


class SInt:
    __slots__ = ("e",)

    def __init__(self, e):
        self.e = e

    # arithmetic
    def __add__(self, o):
        o = _num(o)
        if isinstance(o, SReal):
            return SReal(z3.ToReal(self.e) + o.e)
        return SInt(self.e + o.e)

    __radd__ = __add__

    def __sub__(self, o):
        o = _num(o)
        if isinstance(o, SReal):
            return SReal(z3.ToReal(self.e) - o.e)
        return SInt(self.e - o.e)

    def __rsub__(self, o):
        return _num(o) - self

    def __neg__(self):
        return SInt(-self.e)

    def __pos__(self):
        return self

    def __mul__(self, o):
        o = _num(o)
        if isinstance(o, SReal):
            return SReal(z3.ToReal(self.e) * o.e)
        return SInt(self.e * o.e)

    __rmul__ = __mul__

    def __floordiv__(self, o):
        o = _num(o)
        if isinstance(o, SReal):
            return SReal(z3.ToReal(z3.ToInt(z3.ToReal(self.e) / o.e)))
        b = z3.simplify(o.e)
        if z3.is_int_value(b):
            if b.as_long() == 0:
                raise ZeroDivisionError("integer division or modulo by zero")
            return SInt(z3_floordiv(self.e, b))
        return SInt(concretise_quotient(self.e, b))

    def __rfloordiv__(self, o):
        return _num(o) // self

    def __mod__(self, o):
        o = _num(o)
        if isinstance(o, SReal):
            raise Unsupported("int % real")
        q = self // o
        return SInt(self.e - o.e * q.e)

    def __rmod__(self, o):
        return _num(o) % self

    def __divmod__(self, o):
        o = _num(o)
        q = self // o
        if isinstance(q, SReal):
            raise Unsupported("divmod real")
        return (q, SInt(self.e - o.e * q.e))

    def __rdivmod__(self, o):
        o = _num(o)
        return (o // self, o % self)

    def __truediv__(self, o):
        return SReal(z3.ToReal(self.e) / rterm(o))

    def __rtruediv__(self, o):
        return SReal(rterm(o) / z3.ToReal(self.e))

    def __abs__(self):
        return SInt(z3.If(self.e >= 0, self.e, -self.e))

    def __pow__(self, k):
        if isinstance(k, int) and 0 <= k <= 4:
            r = z3.IntVal(1)
            for _ in range(k):
                r = r * self.e
            return SInt(r)
        raise Unsupported("pow")

    # comparisons
    def _cmp(self, o, f):
        if getattr(o, "_symx_seq", False):
            return NotImplemented
        o = _num(o)
        if isinstance(o, SReal):
            return SBool(f(z3.ToReal(self.e), o.e))
        return SBool(f(self.e, o.e))

    def __lt__(self, o):
        return self._cmp(o, lambda a, b: a < b)

    def __le__(self, o):
        return self._cmp(o, lambda a, b: a <= b)

    def __gt__(self, o):
        return self._cmp(o, lambda a, b: a > b)

    def __ge__(self, o):
        return self._cmp(o, lambda a, b: a >= b)

    def __eq__(self, o):
        if o is None or isinstance(o, str):
            return False
        return self._cmp(o, lambda a, b: a == b)

    def __ne__(self, o):
        if o is None or isinstance(o, str):
            return True
        return self._cmp(o, lambda a, b: a != b)

    __hash__ = None

    def __bool__(self):
        return Ctx.cur.branch(self.e != 0)

    def __index__(self):
        c = Ctx.cur
        s = z3.simplify(self.e)
        if z3.is_int_value(s):
            return s.as_long()
        for v in range(0, c.bound + 1):
            if c.branch(self.e == v):
                return v
        raise Cut("index>bound")

    def __float__(self):
        raise Unsupported("float() of a symbolic int reached C code")

    def __format__(self, spec):
        return placeholder(self)

    def __repr__(self):
        return f"SInt({z3.simplify(self.e)})"


class SReal:
    __slots__ = ("e",)

    def __init__(self, e):
        self.e = e

    def __add__(self, o):
        return SReal(self.e + rterm(o))

    __radd__ = __add__

    def __sub__(self, o):
        return SReal(self.e - rterm(o))

    def __rsub__(self, o):
        return SReal(rterm(o) - self.e)

    def __neg__(self):
        return SReal(-self.e)

    def __pos__(self):
        return self

    def __mul__(self, o):
        return SReal(self.e * rterm(o))

    __rmul__ = __mul__

    def __truediv__(self, o):
        return SReal(self.e / rterm(o))

    def __rtruediv__(self, o):
        return SReal(rterm(o) / self.e)

    def __floordiv__(self, o):
        return SReal(z3.ToReal(z3.ToInt(self.e / rterm(o))))

    def __abs__(self):
        return SReal(z3.If(self.e >= 0, self.e, -self.e))

    def __pow__(self, k):
        if isinstance(k, int) and 0 <= k <= 4:
            r = z3.RealVal(1)
            for _ in range(k):
                r = r * self.e
            return SReal(r)
        if isinstance(k, int) and -4 <= k < 0:
            return SReal(z3.RealVal(1) / (self ** (-k)).e)
        raise Unsupported("pow")

    def _cmp(self, o, f):
        return SBool(f(self.e, rterm(o)))

    def __lt__(self, o):
        return self._cmp(o, lambda a, b: a < b)

    def __le__(self, o):
        return self._cmp(o, lambda a, b: a <= b)

    def __gt__(self, o):
        return self._cmp(o, lambda a, b: a > b)

    def __ge__(self, o):
        return self._cmp(o, lambda a, b: a >= b)

    def __eq__(self, o):
        if o is None or isinstance(o, str):
            return False
        return self._cmp(o, lambda a, b: a == b)

    def __ne__(self, o):
        if o is None or isinstance(o, str):
            return True
        return self._cmp(o, lambda a, b: a != b)

    __hash__ = None

    def __bool__(self):
        return Ctx.cur.branch(self.e != 0)

    def floor(self):
        return SInt(z3.ToInt(self.e))

    def ceil(self):
        return SInt(-z3.ToInt(-self.e))

    def trunc(self):
        fl = z3.ToInt(self.e)
        return SInt(z3.If(z3.Or(self.e >= 0, z3.ToReal(fl) == self.e), fl, fl + 1))

    def round_half_even(self):
        fl = z3.ToInt(self.e)
        fr = self.e - z3.ToReal(fl)
        half = z3.RealVal(Fraction(1, 2))
        even = (fl % 2) == 0
        return SInt(z3.If(fr < half, fl, z3.If(fr > half, fl + 1, z3.If(even, fl, fl + 1))))

    def __round__(self, n=None):
        if n is None:
            return self.round_half_even()
        raise Unsupported("round(x, n)")

    def __float__(self):
        raise Unsupported("float() of a symbolic real reached C code")

    def __format__(self, spec):
        return placeholder(self)

    def __divmod__(self, o):
        q = z3.ToReal(z3.ToInt(self.e / rterm(o)))
        return (SReal(q), SReal(self.e - q * rterm(o)))

    def __mod__(self, o):
        return divmod(self, o)[1]

    def __repr__(self):
        return f"SReal({z3.simplify(self.e)})"


PLACEHOLDERS = []


def placeholder(v):
    """text stand-in for a symbolic scalar inside an f-string; a consumer stub can map it back"""
    PLACEHOLDERS.append(v)
    return f"\u27e6{len(PLACEHOLDERS) - 1}\u27e7"


def from_placeholder(s):
    """inverse of placeholder() on a single token; returns None if s is not a placeholder"""
    if len(s) >= 3 and s[0] == "\u27e6" and s[-1] == "\u27e7" and s[1:-1].isdigit():
        return PLACEHOLDERS[int(s[1:-1])]
    return None


# ---------------------------------------------------------------- builtin shims

def s_int(x, *a):
    if isinstance(x, SReal):
        return x.trunc()
    if isinstance(x, SInt):
        return x
    if isinstance(x, SBool):
        return SInt(z3.If(x.e, 1, 0))
    return int(x, *a)


def s_min(*a):
    if len(a) == 1:
        a = tuple(a[0])
    if not any(is_sym(x) for x in a):
        return min(a)
    r = a[0]
    for b in a[1:]:
        r, b = wrap(r), wrap(b)
        if isinstance(r, SInt) and isinstance(b, SInt):
            r = SInt(z3.If(b.e < r.e, b.e, r.e))
        else:
            r = SReal(z3.If(rterm(b) < rterm(r), rterm(b), rterm(r)))
    return r


def s_max(*a):
    if len(a) == 1:
        a = tuple(a[0])
    if not any(is_sym(x) for x in a):
        return max(a)
    r = a[0]
    for b in a[1:]:
        r, b = wrap(r), wrap(b)
        if isinstance(r, SInt) and isinstance(b, SInt):
            r = SInt(z3.If(b.e > r.e, b.e, r.e))
        else:
            r = SReal(z3.If(rterm(b) > rterm(r), rterm(b), rterm(r)))
    return r


def s_abs(x):
    return abs(x)


def s_round(x, n=None):
    if isinstance(x, SReal):
        return x.__round__(n)
    return round(x) if n is None else round(x, n)


def s_isinstance(x, t):
    """isinstance that treats SInt as int (for `isinstance(x, int)` checks)."""
    if isinstance(x, SInt) and (t is int or (isinstance(t, tuple) and int in t)):
        return True
    if isinstance(x, SReal) and (t is float or (isinstance(t, tuple) and float in t)):
        return True
    return isinstance(x, t)


# ---------------------------------------------------------------- exploration

def explore(fn, bound=4, maxpaths=20000, stats=None, on_path=None, deadline_s=None):
    """Run fn(ctx) once per feasible path.  Returns [(ctx, out)]; cuts are counted.
    on_path(ctx, out) is called right after each completed path while its solver is live;
    returning "stop" ends the exploration early (used once violations have been found).
    deadline_s: wall-clock budget of the item; when it is used up the unexplored remainder is a counted cut
    ("time-budget"); exceeding it before a single path completed is Inconclusive."""
    st = Stats()
    stack = [[]]
    results = []
    t0 = time.time()
    stopped = False
    while stack:
        prefix = stack.pop()
        ctx = Ctx(prefix, bound, st)
        Ctx.cur = ctx
        try:
            out = fn(ctx)
            st.paths += 1
            if on_path is not None:
                if on_path(ctx, out) == "stop":
                    stopped = True
            else:
                results.append((ctx, out))
        except Cut as c:
            st.cuts += 1
            k = str(c)
            st.cut_reasons[k] = st.cut_reasons.get(k, 0) + 1
        finally:
            Ctx.cur = None
        if stopped:
            break
        stack.extend(ctx.pending)
        if st.paths + st.cuts > maxpaths:
            if stats is not None:
                stats.add(st)
            raise Inconclusive(f"path budget exceeded ({maxpaths})")
        if deadline_s is not None and time.time() - t0 > deadline_s and stack:
            if st.paths == 0:
                if stats is not None:
                    stats.add(st)
                raise Inconclusive(f"time budget exceeded ({deadline_s}s) before any path was completed")
            # wall-clock budget of this item used up: what was explored stands, the remaining paths are a counted cut
            # ("time-budget": outside what this run explored; never counted as discharged)
            st.cuts += len(stack)
            st.cut_reasons["time-budget"] = st.cut_reasons.get("time-budget", 0) + len(stack)
            break
    if stats is not None:
        stats.add(st)
    if st.paths == 0 and st.cuts > 0 and not stopped:
        # nothing but cut paths: the harness never reached an assertion for this item - vacuous, never a pass
        raise Inconclusive(f"every path was cut ({dict(st.cut_reasons)}): nothing was explored")
    return results, st


class NumpyFallback(type):
    """metaclass for class-level numpy stand-ins: names the stand-in does not define resolve to real numpy, so that
    modified library code that reaches for another numpy function runs it (on object arrays of symbolic scalars most
    of numpy works; comparisons fork through the path explorer) instead of crashing the harness"""

    def __getattr__(cls, n):
        import numpy
        return getattr(numpy, n)


def rebind(func, **subst):
    """Re-create func (same code object) with some global names replaced."""
    if isinstance(func, (staticmethod, classmethod)):
        func = func.__func__
    if isinstance(func, property):
        return property(rebind(func.fget, **subst))
    g = dict(func.__globals__)
    g.update(subst)
    f = pytypes.FunctionType(func.__code__, g, func.__name__, func.__defaults__, func.__closure__)
    f.__kwdefaults__ = func.__kwdefaults__
    f.__qualname__ = func.__qualname__
    return f


def rebind_class(real_cls, subst, bases=(), extra=None, name=None):
    """Build a class whose methods are the real methods of `real_cls` (same code objects)
    with `subst` applied to their globals.  Zero-argument super() keeps working: the
    `__class__` closure cell is re-pointed at the new class, whose bases are `bases`
    (typically the rebound version of the real base class)."""
    cell = pytypes.CellType()

    def rb(f):
        g = rebind(f, **subst)
        if f.__closure__ and "__class__" in f.__code__.co_freevars:
            cl = tuple(cell if n == "__class__" else c for n, c in zip(f.__code__.co_freevars, f.__closure__))
            g2 = pytypes.FunctionType(g.__code__, g.__globals__, g.__name__, g.__defaults__, cl)
            g2.__kwdefaults__ = g.__kwdefaults__
            g2.__qualname__ = g.__qualname__
            g = g2
        return g

    ns = {}
    for n, v in vars(real_cls).items():
        if isinstance(v, property):
            ns[n] = property(rb(v.fget), rb(v.fset) if v.fset else None)
        elif isinstance(v, (staticmethod, classmethod)):
            ns[n] = type(v)(rb(v.__func__))
        elif isinstance(v, pytypes.FunctionType):
            ns[n] = rb(v)
    ns.update(extra or {})
    cls = type(name or ("R" + real_cls.__name__), tuple(bases), ns)
    cell.cell_contents = cls
    return cls
