"""Trusted FFT contract for the E1 interpreter (rocket-fft / np.fft are FFI).

  rfft(a, N)            abstract spectrum of `a` zero-padded / truncated to N samples (N//2+1 bins)
  spectrum * spectrum   product spectrum (same N required)
  irfft(s, M)           M omitted -> M = 2*(bins-1) (so M != N when N is odd);
                        M == N: the length-N circular convolution of the padded inputs, resp. the
                        padded input itself; M != N: a fresh unconstrained vector of length M
Only the library's own padding / slicing / reversal bookkeeping is decided with it."""
from __future__ import annotations

import numpy as np
import z3
from numba.core import types

from .core import Unsupported
from .nbsym import NArr, Sym


def R(v):
    if isinstance(v, Sym):
        return v.t if v.t.sort() == z3.RealSort() else z3.ToReal(v.t)
    return z3.RealVal(v if not isinstance(v, float) else __import__("fractions").Fraction(v))


class Spec:
    def __init__(self, N, factors):
        self.N, self.factors = N, factors     # factors: list of python lists (length N) of real terms

    @property
    def bins(self):
        return self.N // 2 + 1

    def __len__(self):
        return self.bins

    @property
    def shape(self):
        return (self.bins,)

    @property
    def size(self):
        return self.bins

    def __mul__(self, o):
        if not isinstance(o, Spec):
            raise Unsupported("spectrum times non-spectrum")
        if o.N != self.N:
            raise ValueError("operands could not be broadcast together (spectra of different lengths)")
        return Spec(self.N, self.factors + o.factors)


_fresh = [0]


def rfft_hook(interp, a, kw, sig):
    arr = a[0]
    n = a[1] if len(a) > 1 else kw.get("n")
    if not isinstance(arr, NArr) or arr.ndim != 1:
        raise Unsupported("rfft of a non 1-D array")
    L = arr.shape[0]
    N = L if n is None else interp.concretise(n, 0, None)
    vals = [R(interp.load(arr, (i,))) for i in range(min(L, N))] + [z3.RealVal(0)] * max(0, N - L)
    return Spec(N, [vals])


def irfft_hook(interp, a, kw, sig):
    s = a[0]
    n = a[1] if len(a) > 1 else kw.get("n")
    if not isinstance(s, Spec):
        raise Unsupported("irfft of something that is not a spectrum")
    M = 2 * (s.bins - 1) if n is None else interp.concretise(n, 0, None)
    rt = sig.return_type.dtype if sig is not None and hasattr(sig.return_type, "dtype") else types.float64
    out = NArr(rt, (M,), name="irfft")
    if M != s.N:
        _fresh[0] += 1
        for i in range(M):
            out.store[i] = Sym(z3.Real(f"irfft_mismatch!{_fresh[0]}!{i}"), rt)
        return out
    acc = list(s.factors[0])
    for f in s.factors[1:]:
        N = s.N
        acc = [z3.Sum([acc[k] * f[(t - k) % N] for k in range(N)]) for t in range(N)]
    for i in range(M):
        out.store[i] = Sym(acc[i], rt)
    return out


def hooks():
    return {np.fft.rfft: rfft_hook, np.fft.irfft: irfft_hook}
