"""Symbolic raw-file layer: io.FileIO / os.fstat / numpy-on-files shims (trusted stubs).

A *stream* is the concatenation of the data sections of 1..3 raw files.  File i
has `hdrlen_i` header bytes followed by `datalen_i` data bytes (both unbounded
symbolic integers).  Raw byte p of file i is

    RAW_i(p) = S(cum_i + p - hdrlen_i)   if p >= hdrlen_i      (S: the byte-array model)
             = H_i(p)                    otherwise              (header bytes)

so "a header byte leaked into data" or "a byte was skipped at a file boundary"
shows up as a value that differs from the model for some S/H.
"""
from __future__ import annotations

import z3

from .arrays import FArr, MV, SymBuf, IntS, _dt, iterm, s_len
from .core import NumpyFallback, Ctx, SBool, SInt, Unsupported, s_min, term, wrap

S = z3.Function("S", IntS, IntS)          # stream byte model
W2 = z3.Function("W2", IntS, IntS, IntS)  # 2 bytes -> uint16 value (np.frombuffer/fromfile, trusted)
W4 = z3.Function("W4", IntS, IntS, IntS, IntS, z3.RealSort())  # 4 bytes -> float32 value
FLD = z3.Function("FLD", IntS, IntS, IntS, IntS)  # FLD(byte, nbits, k): k-th field of a byte (C03 contract)


def elem_from_bytes(dtype, b):
    """value of one element of `dtype` from its little-endian bytes (list of terms)."""
    dt = _dt(dtype)
    if dt == "u1":
        return b[0]
    if dt == "u2":
        return W2(b[0], b[1])
    if dt == "f4":
        return W4(b[0], b[1], b[2], b[3])
    raise Unsupported(f"dtype {dt}")


def itemsize(dtype):
    return {"u1": 1, "u2": 2, "f4": 4}[_dt(dtype)]


def stream_elem(dtype, q):
    """model value of element q of the stream viewed as `dtype`."""
    s = itemsize(dtype)
    return elem_from_bytes(dtype, [S(q * s + t) for t in range(s)])


def stream_unpacked(nbits, q):
    """model value of unpacked sample q for a sub-byte depth."""
    f = 8 // nbits
    return FLD(S(q / f), z3.IntVal(nbits), q % f)


class FileData:
    def __init__(self, name, index, hdrlen, datalen, cum_before):
        self.name, self.index = name, index
        self.hdrlen, self.datalen, self.cum = term(hdrlen), term(datalen), term(cum_before)
        self.H = z3.Function(f"H{index}", IntS, IntS)

    @property
    def flen(self):
        return self.hdrlen + self.datalen

    def raw(self, p):
        return z3.If(p >= self.hdrlen, S(self.cum + p - self.hdrlen), self.H(p))


class FS:
    """registry of the symbolic files of the current path + log of raw operations"""
    files = {}
    log = []
    written = {}

    @classmethod
    def reset(cls):
        cls.files, cls.log, cls.written = {}, [], {}


class SymFile:
    """io.FileIO replacement (read side: positions and reads; write side: append log)."""

    def __init__(self, name, mode="r"):
        self.name, self.mode, self.closed = name, mode, False
        self.pos = z3.IntVal(0)
        if "w" in mode:
            FS.written[name] = []
            self.fd = None
        elif "r" in mode and "+" not in mode and "w" not in mode:
            if name not in FS.files:
                raise FileNotFoundError(name)
            self.fd = FS.files[name]
        else:
            raise Unsupported(f"file mode {mode}")
        FS.log.append(("open", name, mode))

    def _chk(self):
        if self.closed:
            raise ValueError("I/O operation on closed file (symbolic)")

    def seek(self, off, whence=0):
        self._chk()
        off = iterm(off)
        if whence == 0:
            new = off
        elif whence == 1:
            new = self.pos + off
        elif whence == 2:
            new = self.fd.flen + off
        else:
            raise ValueError("whence")
        if not SBool(new >= 0):
            raise OSError(22, "Invalid argument (negative seek, symbolic)")
        self.pos = z3.simplify(new)
        FS.log.append(("seek", self.name, self.pos))
        return SInt(self.pos)

    def tell(self):
        self._chk()
        return SInt(self.pos)

    def fileno(self):
        self._chk()
        return self

    def close(self):
        self.closed = True
        FS.log.append(("close", self.name))

    def truncate(self, size=None):
        self._chk()
        FS.log.append(("truncate", self.name, size))
        return size

    def flush(self):
        self._chk()

    def __enter__(self):
        return self

    def __exit__(self, *a):
        self.close()

    def readinto(self, view):
        self._chk()
        if not isinstance(view, MV):
            view = MV(view)
        rem = z3.If(self.fd.flen > self.pos, self.fd.flen - self.pos, z3.IntVal(0))
        n = z3.simplify(z3.If(view.n < rem, view.n, rem))
        pos, fd = self.pos, self.fd
        view.write(z3.IntVal(0), n, lambda k, pos=pos, fd=fd: fd.raw(pos + k))
        FS.log.append(("readinto", self.name, pos, n))
        self.pos = z3.simplify(self.pos + n)
        return SInt(n)

    def read_items(self, count, dtype):
        """np.fromfile(file, count=count, dtype=dtype) contract."""
        self._chk()
        s = itemsize(dtype)
        count = iterm(count)
        rem = z3.If(self.fd.flen > self.pos, self.fd.flen - self.pos, z3.IntVal(0))
        avail = rem / s
        n = z3.simplify(z3.If(count < 0, avail, z3.If(count < avail, count, avail)))
        pos, fd = self.pos, self.fd
        arr = FArr(n, lambda j, pos=pos, fd=fd, s=s: elem_from_bytes(dtype, [fd.raw(pos + j * s + t) for t in range(s)]), dtype)
        FS.log.append(("fromfile", self.name, pos, n, s))
        self.pos = z3.simplify(self.pos + n * s)
        return arr

    # write side
    def write(self, bo):
        self._chk()
        FS.written[self.name].append(("bytes", bo))
        FS.log.append(("write", self.name, "bytes", s_len(bo)))
        return s_len(bo)

    def write_arr(self, arr):
        self._chk()
        frozen = FArr(arr.length, arr.snapshot(), arr.dt, arr.name)   # content as of this write
        if hasattr(arr, "packed_from"):
            frozen.packed_from = arr.packed_from
        FS.written[self.name].append(("arr", frozen))
        FS.log.append(("write", self.name, "arr", arr.length, arr.dt))


class IOshim:
    FileIO = SymFile


class _Stat:
    def __init__(self, f):
        self.st_size = SInt(f.fd.flen)


class OSshim:
    SEEK_SET, SEEK_CUR, SEEK_END = 0, 1, 2

    @staticmethod
    def fstat(f):
        return _Stat(f)


class CArr(list):
    """result of np.cumsum over symbolic ints: list with elementwise comparison"""
    _symx_seq = True

    def __gt__(self, o):
        return [x > o for x in self]

    def __lt__(self, o):
        return [x < o for x in self]

    def __ge__(self, o):
        return [x >= o for x in self]

    def __le__(self, o):
        return [x <= o for x in self]


class NPfile(metaclass=NumpyFallback):
    """numpy names used by io/fileio.py and io/sigproc.StreamInfo (trusted stubs)."""
    import numpy as _np
    uint8 = _np.uint8
    dtype = _np.dtype

    @staticmethod
    def cumsum(lst):
        out = CArr()
        acc = wrap(0)
        for x in lst:
            acc = acc + x
            out.append(acc)
        return out

    @staticmethod
    def where(boollist):
        # np.where(mask)[0][0]: index of the first True (forks per element)
        idx = [i for i, b in enumerate(boollist) if b]
        return (idx,)

    @staticmethod
    def fromfile(f, count=-1, dtype=None):
        return f.read_items(count, dtype)

    @staticmethod
    def frombuffer(buf, dtype=None):
        mv = buf if isinstance(buf, MV) else MV(buf)
        s = itemsize(dtype)
        n = mv.n / s
        # lazy view: evaluated against the buffer content at access time
        arr = FArr(n, lambda j, mv=mv, s=s: elem_from_bytes(dtype, [mv.at(j * s + t) for t in range(s)]), dtype, name="frombuffer")
        arr.snap = lambda mv=mv, s=s: (lambda j, f=mv.buf.fn, off=mv.off: elem_from_bytes(dtype, [f(off + j * s + t) for t in range(s)]))
        return arr

    @staticmethod
    def concatenate(parts):
        parts = list(parts)
        if not parts:
            raise ValueError("need at least one array to concatenate")
        total = z3.IntVal(0)
        offs = []
        for p in parts:
            offs.append(total)
            total = total + p.length

        def fn(j, parts=parts, offs=offs):
            r = parts[-1].fn(j - offs[-1])
            for p, o in zip(reversed(parts[:-1]), reversed(offs[:-1])):
                r = z3.If(j < o + p.length, p.fn(j - o), r)
            return r
        return FArr(z3.simplify(total), fn, parts[0].dt)

    @staticmethod
    def zeros(shape=None, dtype=None, **kw):
        if shape is None:
            shape = kw["shape"]
        zero = z3.RealVal(0) if _dt(dtype) in ("f4", "f8") else z3.IntVal(0)
        return FArr(shape, lambda j: zero, dtype)


class UnpackKernels:
    """contracts of the 12 bit kernels (established from the numba IR by C03)."""

    def __getattr__(self, name):
        import re
        m = re.fullmatch(r"(un)?pack([124])_8_(big|little)", name)
        if not m:
            raise AttributeError(name)
        un, nbits, order = m.group(1), int(m.group(2)), m.group(3)
        from sigpyproc.io.bits import BitsInfo
        if BitsInfo.default_bitorder[nbits] != order:
            # the contract identifies fields by their position in the depth's *default* order;
            # another order is a different function
            tag = z3.IntVal(100 + nbits)
        else:
            tag = z3.IntVal(nbits)
        f = 8 // nbits
        if un:
            def k(array, unpacked, tag=tag, f=f):
                src = array.snapshot()
                n = array.length
                unpacked_w = unpacked
                _write_arr(unpacked_w, n * f, lambda j, src=src: FLD(src(j / f), tag, j % f))
            return k

        def kp(array, packed, tag=tag, f=f):
            src = array.snapshot()
            n = packed.length
            PK = z3.Function(f"PACK{f}", *([IntS] * (f + 1)), IntS)
            _write_arr(packed, n, lambda j, src=src: PK(tag, *[src(j * f + t) for t in range(f)]))
            packed.packed_from = (src, f, tag, array.length)
        return kp


def _write_arr(arr, n, src):
    """arr[0:n] = src(k): arrays over buffers write through to the buffer."""
    wt = getattr(arr, "write_through", None)
    if wt is not None:
        wt(n, src)
    else:
        old = arr.fn
        arr.fn = lambda j, old=old, n=n, src=src: z3.If(z3.And(j >= 0, j < n), src(j), old(j))


_frombuffer_ro = NPfile.__dict__["frombuffer"].__func__


def frombuffer_rw(buf, dtype=None):
    """np.frombuffer whose result can be written by a kernel (uint8 only): writes go to the buffer."""
    arr = _frombuffer_ro(buf, dtype)
    if _dt(dtype) == "u1":
        mv = buf if isinstance(buf, MV) else MV(buf)
        arr.write_through = lambda n, src, lo=0, mv=mv: mv.write(z3.IntVal(0) + lo, n, lambda k, src=src, lo=lo: src(k))
    return arr


NPfile.frombuffer = staticmethod(frombuffer_rw)
