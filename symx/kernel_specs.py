"""Table of the prange kernels in scope for C19 (argument builders for the symbolic and the concrete side)."""
from __future__ import annotations

import numpy as np
import z3
from numba import typeof
from numba.core import types


def _arr(dt, nd=1):
    return types.Array(dt, nd, "C")


def moments_ty():
    from numba import from_dtype
    from sigpyproc.core import kernels
    return types.Array(from_dtype(kernels.moments_dtype), 1, "C")


def specs():
    """name -> dict(disp, argtys, sizes (symbol names), sym(S, A) -> args, pre(S) -> constraints,
    load_constraints(S), conc(V) -> concrete args, calls = human description of call-site preconditions)"""
    from sigpyproc.core import kernels as K
    from .nbsym import Sym, SymArr
    i8, i4, u1, f4, b1 = types.int64, types.int32, types.uint8, types.float32, types.boolean
    I = lambda S, n, ty=i8: Sym(S[n], ty)
    out = {}

    def add(name, disp, argtys, sizes, sym, pre, conc, lc=None, note=""):
        out[name] = dict(disp=disp, argtys=argtys, sizes=sizes, sym=sym, pre=pre, conc=conc, lc=lc or (lambda S: {}), note=note)

    any_len = lambda nm: z3.Int(f"len_{nm}")
    add("extract_tim", K.extract_tim, K.extract_tim.nopython_signatures[0].args, ["nchans", "nsamps", "index"],
        lambda S: [SymArr("inarray", u1, (any_len("in"),)), SymArr("outarray", f4, (any_len("out"),)), I(S, "nchans"), I(S, "nsamps"), I(S, "index")],
        lambda S: [S["nchans"] >= 1, S["nsamps"] >= 1, S["index"] >= 0],
        lambda V: [np.arange(V["nchans"] * V["nsamps"], dtype=np.uint8), np.zeros(V["index"] + V["nsamps"], np.float32), V["nchans"], V["nsamps"], V["index"]])
    add("extract_bpass", K.extract_bpass, K.extract_bpass.nopython_signatures[0].args, ["nchans", "nsamps"],
        lambda S: [SymArr("inarray", u1, (any_len("in"),)), SymArr("outarray", f4, (any_len("out"),)), I(S, "nchans", i4), I(S, "nsamps", i4)],
        lambda S: [S["nchans"] >= 1, S["nsamps"] >= 1],
        lambda V: [np.arange(V["nchans"] * V["nsamps"], dtype=np.uint8), np.zeros(V["nchans"], np.float32), V["nchans"], V["nsamps"]])
    add("mask_channels", K.mask_channels, K.mask_channels.nopython_signatures[0].args, ["nchans", "nsamps"],
        lambda S: [SymArr("array", u1, (any_len("in"),)), SymArr("mask", b1, (any_len("mask"),)), Sym(z3.Int("maskvalue"), u1), I(S, "nchans"), I(S, "nsamps")],
        lambda S: [S["nchans"] >= 1, S["nsamps"] >= 1],
        lambda V: [np.arange(V["nchans"] * V["nsamps"], dtype=np.uint8), np.ones(V["nchans"], bool), np.uint8(7), V["nchans"], V["nsamps"]])
    add("dedisperse", K.dedisperse, K.dedisperse.nopython_signatures[0].args, ["maxdelay", "nchans", "nsamps", "index"],
        lambda S: [SymArr("inarray", u1, (any_len("in"),)), SymArr("outarray", f4, (any_len("out"),)), SymArr("delays", i4, (any_len("d"),)),
                   I(S, "maxdelay"), I(S, "nchans"), I(S, "nsamps"), I(S, "index")],
        lambda S: [S["nchans"] >= 1, S["maxdelay"] >= 0, S["nsamps"] > S["maxdelay"], S["index"] >= 0],
        lambda V: [np.arange(V["nchans"] * V["nsamps"], dtype=np.uint8), np.zeros(V["index"] + V["nsamps"], np.float32),
                   np.full(V["nchans"], V["maxdelay"], np.int32), V["maxdelay"], V["nchans"], V["nsamps"], V["index"]],
        lc=lambda S: {"delays": lambda v: [v >= 0, v <= S["maxdelay"]]}, note="0 <= delays[c] <= maxdelay")
    add("subband", K.subband, K.subband.nopython_signatures[0].args, ["maxdelay", "nchans", "nsubs", "nsamps"],
        lambda S: [SymArr("inarray", u1, (any_len("in"),)), SymArr("outarray", f4, (any_len("out"),)), SymArr("delays", i4, (any_len("d"),)),
                   SymArr("chan_to_sub", i4, (any_len("c2s"),)), I(S, "maxdelay", i4), I(S, "nchans", i4), I(S, "nsubs", i4), I(S, "nsamps", i4)],
        lambda S: [S["nchans"] >= 1, S["nsubs"] >= 1, S["maxdelay"] >= 0, S["nsamps"] > S["maxdelay"]],
        lambda V: [np.arange(V["nchans"] * V["nsamps"], dtype=np.uint8), np.zeros(V["nsubs"] * V["nsamps"], np.float32),
                   np.full(V["nchans"], V["maxdelay"], np.int32), (np.arange(V["nchans"]) % V["nsubs"]).astype(np.int32),
                   V["maxdelay"], V["nchans"], V["nsubs"], V["nsamps"]],
        lc=lambda S: {"delays": lambda v: [v >= 0, v <= S["maxdelay"]], "chan_to_sub": lambda v: [v >= 0, v < S["nsubs"]]},
        note="0 <= delays[c] <= maxdelay, 0 <= chan_to_sub[c] < nsubs")
    ex_u1 = np.zeros(4, np.uint8)
    add("invert_freq", K.invert_freq, (typeof(ex_u1), i8, i8), ["nchans", "nsamps"],
        lambda S: [SymArr("array", u1, (any_len("in"),)), I(S, "nchans"), I(S, "nsamps")],
        lambda S: [S["nchans"] >= 1, S["nsamps"] >= 1],
        lambda V: [np.arange(V["nchans"] * V["nsamps"], dtype=np.uint8), V["nchans"], V["nsamps"]])
    add("remove_zerodm", K.remove_zerodm, K.remove_zerodm.nopython_signatures[0].args, ["nchans", "nsamps"],
        lambda S: [SymArr("inarray", u1, (any_len("in"),)), SymArr("outarray", u1, (any_len("out"),)), SymArr("bpass", f4, (any_len("bp"),)),
                   SymArr("chanwts", f4, (any_len("cw"),)), I(S, "nchans"), I(S, "nsamps")],
        lambda S: [S["nchans"] >= 1, S["nsamps"] >= 1],
        lambda V: [np.arange(V["nchans"] * V["nsamps"], dtype=np.uint8), np.zeros(V["nchans"] * V["nsamps"], np.uint8),
                   np.ones(V["nchans"], np.float32), np.full(V["nchans"], 1.0 / V["nchans"], np.float32), V["nchans"], V["nsamps"]])
    mty = moments_ty()
    ex_f4 = np.zeros(4, np.float32)
    for nm in ("compute_online_moments", "compute_online_moments_basic"):
        add(nm, getattr(K, nm), (typeof(ex_f4), mty, i8), ["nchans", "len"],
            lambda S: [SymArr("array", f4, (S["len"],)), SymArr("moments", mty.dtype, (S["nchans"],)), 1],
            lambda S: [S["nchans"] >= 1, S["len"] >= S["nchans"]],
            lambda V: [np.arange(V["len"], dtype=np.float32), np.zeros(V["nchans"], dtype=K.moments_dtype), 1])
    add("downsample_1d_mean_parallel", K.downsample_1d_mean_parallel, (typeof(ex_f4), i8), ["len", "factor"],
        lambda S: [SymArr("array", f4, (S["len"],)), I(S, "factor")],
        lambda S: [S["len"] >= 1, S["factor"] >= 1],
        lambda V: [np.arange(V["len"], dtype=np.float32), V["factor"]])
    add("downsample_2d_mean_parallel", K.downsample_2d_mean_parallel, (typeof(ex_u1), i8, i8, i8, i8), ["factor1", "factor2", "dim1", "dim2"],
        lambda S: [SymArr("array", u1, (any_len("in"),)), I(S, "factor1"), I(S, "factor2"), I(S, "dim1"), I(S, "dim2")],
        lambda S: [S["factor1"] >= 1, S["factor2"] >= 1, S["dim1"] >= S["factor1"], S["dim2"] >= S["factor2"]],
        lambda V: [np.arange(V["dim1"] * V["dim2"], dtype=np.uint8), V["factor1"], V["factor2"], V["dim1"], V["dim2"]])
    return out
