"""Encoder validation: the typed-IR interpreter, run with all inputs concrete, must agree with the
*compiled* kernel (a mismatch is a harness error, never a violation).  Called by every check that
relies on E1; the number of agreeing runs is reported as traces validated against the implementation."""
from __future__ import annotations

import numpy as np

from .nbsym import NArr, Sym, from_narr, run_concrete


def _cases():
    from sigpyproc.core import kernels as K
    rng = np.random.default_rng(0)
    u8 = lambda n: rng.integers(0, 256, n).astype(np.uint8)
    f4 = lambda n: rng.integers(0, 50, n).astype(np.float32)
    mom = lambda n: np.zeros(n, dtype=K.moments_dtype)
    a, b = mom(2), mom(2)
    K.compute_online_moments(f4(10), a, 0)
    K.compute_online_moments(f4(14), b, 0)
    arr2 = f4(12).reshape(3, 4)
    c = {
        "downsample_1d_mean": (K.downsample_1d_mean, [f4(11), 3], [], True),
        "downsample_2d_mean_flat": (K.downsample_2d_mean_flat, [u8(24), 2, 3, 4, 6], [], True),
        "extract_tim": (K.extract_tim, [u8(12), np.zeros(6, np.float32), 3, 4, 1], [1], False),
        "extract_bpass": (K.extract_bpass, [u8(12), np.ones(3, np.float32), 3, 4], [1], False),
        "mask_channels": (K.mask_channels, [u8(12), np.array([True, False, True]), np.uint8(7), 3, 4], [0], False),
        "dedisperse": (K.dedisperse, [u8(15), np.ones(6, np.float32), np.array([0, 1, 2], np.int32), 2, 3, 5, 1], [1], False),
        "invert_freq": (K.invert_freq, [u8(12), 3, 4], [], True),
        "subband": (K.subband, [u8(24), np.ones(8, np.float32), np.array([0, 1, 1, 2], np.int32), np.array([0, 0, 1, 1], np.int32), 2, 4, 2, 6], [1], False),
        "fold": (K.fold, [u8(24), np.zeros(12, np.float32), np.zeros(12, np.int32), np.array([0, 1, 1, 2], np.int32), 2, 0.5, 1.5, 0.0, 12, 6, 4, 3, 2, 2, 3], [1, 2], False),
        "remove_zerodm": (K.remove_zerodm, [u8(12), np.zeros(12, np.uint8), f4(3), (f4(3) / 100).astype(np.float32), 3, 4], [1], False),
        "compute_online_moments": (K.compute_online_moments, [f4(12), mom(3), 0], [1], False),
        "compute_online_moments_basic": (K.compute_online_moments_basic, [f4(12), mom(3), 0], [1], False),
        "add_online_moments": (K.add_online_moments, [a, b, mom(2)], [2], False),
        "update_moments": (K.update_moments, [3.0, 1.0, 2.0, 0.5, 4.0, 5], [], True),
        "detrend_1d": (K.detrend_1d, [f4(7)], [], True),
        "roll_block": (K.roll_block, [arr2, np.array([1, -2, 5], np.int32)], [], True),
        "roll_block_valid": (K.roll_block_valid, [arr2, np.array([1, -1, 0], np.int32)], [], True),
        "dmt_block": (K.dmt_block, [arr2, np.array([[0, 1, 2], [0, 0, 1]], np.int32)], [], True),
        "dmt_block_valid": (K.dmt_block_valid, [arr2, np.array([[0, 1, 2], [0, 2, 1]], np.int32)], [], True),
        "normalize_template": (K.normalize_template, [f4(5)], [], True),
        "circular_pad_goodsize": (K.circular_pad_goodsize, [f4(7)], [], True),
    }
    return c


def validate(R, names):
    cases = _cases()
    for name in names:
        disp, args, outs, ret = cases[name]
        a1 = [x.copy() if isinstance(x, np.ndarray) else x for x in args]
        a2 = [x.copy() if isinstance(x, np.ndarray) else x for x in args]
        try:
            r_real = disp(*a1)
            r, vals, it = run_concrete(disp, a2)
            ok = True
            if ret:
                if isinstance(r, NArr):
                    ok = ok and np.allclose(from_narr(r, r_real.dtype), r_real, rtol=1e-6, atol=1e-6)
                elif isinstance(r, tuple):
                    ok = ok and np.allclose([float(x) if not isinstance(x, Sym) else np.nan for x in r], r_real, rtol=1e-6)
                else:
                    ok = ok and np.isclose(float(r), float(r_real))
            for i in outs:
                if a1[i].dtype.names:
                    for k, rec in enumerate(a1[i].ravel()):
                        for f in a1[i].dtype.names:
                            g = vals[i].store[k][f]
                            ok = ok and not isinstance(g, Sym) and bool(np.isclose(float(g), float(rec[f]), rtol=1e-5, atol=1e-5))
                else:
                    ok = ok and np.allclose(from_narr(vals[i], a1[i].dtype), a1[i], rtol=1e-6, atol=1e-6)
        except Exception as e:  # noqa: BLE001
            ok = False
            R.encoder_validation.append(dict(kernel=name, agrees=False, error=f"{type(e).__name__}: {e}"[:200]))
            R.inconclusive_(f"encoder validation of {name} crashed: {type(e).__name__}: {e}")
            continue
        R.encoder_validation.append(dict(kernel=name, agrees=bool(ok)))
        if ok:
            R.validated()
        else:
            R.inconclusive_(f"encoder validation failed: the IR interpreter disagrees with the compiled kernel {name} on a concrete input")
