"""E1: symbolic interpreter of numba's *typed* IR for the kernels of sigpyproc/core/kernels.py.

The IR, the type of every variable and the resolved signature of every operation are
captured from numba's own compilation pipeline of the dispatcher's py_func (same
target options / locals), so the semantics encoded is the one numba compiles, not
CPython's.  Values are concrete Python scalars or Sym(z3 term, numba type).

modes:  "bv"  - integers are bit-vectors of the inferred width (bit kernels, C03)
        "int" - integers are mathematical Ints; narrowing casts wrap explicitly; every
                arithmetic result on symbolic operands records an overflow obligation at
                its inferred width; floats are exact Reals.
Data-dependent branches / symbolic indices fork through the E2 path explorer (core.Ctx).
"""
from __future__ import annotations

import copy
import math
import operator
from fractions import Fraction

import numpy as np
import z3
from numba import njit, prange, typeof
from numba.core import ir, types
from numba.core.compiler import CompilerBase, DefaultPassBuilder
from numba.core.compiler_machinery import FunctionPass, register_pass
from numba.core.typed_passes import NopythonRewrites, PreLowerStripPhis
from numba.misc.special import prange as prange_cls

from .core import Ctx, Cut, Inconclusive, Unsupported

_CAPT = {}


def _mk_capture(tag):
    @register_pass(mutates_CFG=False, analysis_only=True)
    class Capture(FunctionPass):
        _name = f"verif_capture_{tag}"

        def __init__(self):
            FunctionPass.__init__(self)

        def run_pass(self, state):
            blocks, ct = copy.deepcopy((state.func_ir.blocks, dict(state.calltypes)))
            _CAPT[(state.func_id.func_name, tag)] = Cap(blocks, dict(state.typemap), ct, state.return_type, state.args,
                                                      state.func_id.func_name, state.typingctx)
            return False
    return Capture


class Cap:
    def __init__(self, blocks, tm, ct, rt, args, name, typingctx):
        self.blocks, self.tm, self.ct, self.rt, self.args, self.name, self.typingctx = blocks, tm, ct, rt, args, name, typingctx


_CapEarly = _mk_capture("early")
_CapLate = _mk_capture("late")


class _Pipe(CompilerBase):
    def define_pipelines(self):
        pm = DefaultPassBuilder.define_nopython_pipeline(self.state)
        pm.add_pass_after(_CapEarly, PreLowerStripPhis)
        pm.add_pass_after(_CapLate, NopythonRewrites)
        pm.finalize()
        return [pm]


_cap_cache = {}


def capture(disp, argtys):
    """typed IR of dispatcher `disp` for argument types `argtys`."""
    argtys = tuple(argtys)
    key = (disp.py_func, argtys)
    if key in _cap_cache:
        return _cap_cache[key]
    opts = dict(disp.targetoptions)
    opts.pop("nopython", None)
    opts.pop("cache", None)
    par = bool(opts.get("parallel"))
    loc = getattr(disp, "locals", None) or {}
    f = njit(pipeline_class=_Pipe, locals=dict(loc), **opts)(disp.py_func)
    f.compile(argtys)
    cap = _CAPT[(disp.py_func.__name__, "early" if par else "late")]
    cap.parallel = par
    cap.disp = disp
    _cap_cache[key] = cap
    return cap


# ---------------------------------------------------------------- values

class Sym:
    __slots__ = ("t", "ty")

    def __init__(self, t, ty):
        self.t, self.ty = t, ty

    def __repr__(self):
        return f"Sym({self.t}:{self.ty})"


class KernelRaise(Exception):
    def __init__(self, exc_class, args):
        super().__init__(f"{exc_class.__name__}{args}")
        self.exc_class, self.exc_args = exc_class, args


def _unlit(ty):
    while isinstance(ty, types.Literal):
        ty = ty.literal_type
    if isinstance(ty, types.Optional):
        ty = ty.type
    return ty


def irange(ty):
    if ty.signed:
        return -(1 << (ty.bitwidth - 1)), (1 << (ty.bitwidth - 1)) - 1
    return 0, (1 << ty.bitwidth) - 1


def wrap_int(v, ty):
    lo, hi = irange(ty)
    m = 1 << ty.bitwidth
    v = int(v) % m
    return v - m if v > hi else v


class NArr:
    """n-d array view over a shared flat python list (concrete shape)."""

    def __init__(self, dtype, shape, store=None, offset=0, strides=None, field=None, name="arr"):
        self.dtype, self.shape = dtype, tuple(int(s) for s in shape)
        n = 1
        for s in self.shape:
            n *= s
        self.store = store if store is not None else [None] * n
        self.offset = offset
        if strides is None:
            strides, acc = [], 1
            for s in reversed(self.shape):
                strides.insert(0, acc)
                acc *= s
        self.strides = tuple(strides)
        self.field = field
        self.name = name

    @property
    def ndim(self):
        return len(self.shape)

    @property
    def size(self):
        n = 1
        for s in self.shape:
            n *= s
        return n

    def pos(self, idx):
        if len(idx) != self.ndim:
            raise Unsupported(f"index rank {idx} on {self.shape}")
        p = self.offset
        for i, s, st in zip(idx, self.shape, self.strides):
            if i < 0:
                i += s
            if not 0 <= i < s:
                raise IndexError(f"kernel index {idx} out of bounds for shape {self.shape} ({self.name})")
            p += i * st
        return p

    def get(self, idx):
        v = self.store[self.pos(idx)]
        return v[self.field] if self.field is not None else v

    def set(self, idx, v):
        p = self.pos(idx)
        if self.field is not None:
            self.store[p][self.field] = v
        else:
            self.store[p] = v

    def indices(self):
        import itertools
        return itertools.product(*[range(s) for s in self.shape])

    def view(self, key):
        """basic indexing with concrete ints / slices -> NArr view or scalar"""
        if not isinstance(key, tuple):
            key = (key,)
        key = key + (slice(None),) * (self.ndim - len(key))
        off, shape, strides = self.offset, [], []
        for k, s, st in zip(key, self.shape, self.strides):
            if isinstance(k, slice):
                a, b, c = k.indices(s)
                n = len(range(a, b, c))
                off += a * st
                shape.append(n)
                strides.append(st * c)
            else:
                if k < 0:
                    k += s
                if not 0 <= k < s:
                    raise IndexError(f"kernel index {k} out of bounds for axis of size {s} ({self.name})")
                off += k * st
        if not shape:
            v = self.store[off]
            return v[self.field] if self.field is not None else v
        return NArr(self.dtype, shape, self.store, off, strides, self.field, self.name)

    def tolist(self):
        return [self.get(i) for i in self.indices()]

    def fieldview(self, f):
        ft = self.dtype.typeof(f)
        return NArr(ft, self.shape, self.store, self.offset, self.strides, f, self.name + "." + f)


class RangeIt:
    def __init__(self, lo, hi, step=1, par=False):
        self.cur, self.hi, self.step, self.par = lo, hi, step, par


class BoundMethod:
    def __init__(self, obj, name):
        self.obj, self.name = obj, name


CMP = {operator.lt: lambda x, y: x < y, operator.le: lambda x, y: x <= y, operator.gt: lambda x, y: x > y,
       operator.ge: lambda x, y: x >= y, operator.eq: lambda x, y: x == y, operator.ne: lambda x, y: x != y}
INPLACE = {operator.iadd: operator.add, operator.isub: operator.sub, operator.imul: operator.mul, operator.itruediv: operator.truediv,
           operator.ifloordiv: operator.floordiv, operator.ior: operator.or_, operator.iand: operator.and_, operator.imod: operator.mod,
           operator.ilshift: operator.lshift, operator.irshift: operator.rshift, operator.ixor: operator.xor, operator.ipow: operator.pow}


class Interp:
    def __init__(self, cap, mode="int", uninit="fresh", hooks=None):
        self.cap, self.mode, self.uninit = cap, mode, uninit
        self.ovf = []          # (term, type, where) overflow obligations (int mode)
        self.nfresh = 0
        self.hooks = hooks or {}
        self.log = []
        self.fp_notes = []

    # ------------------------------------------------------------ scalar helpers
    def fresh(self, ty, base="u"):
        self.nfresh += 1
        ty = _unlit(ty)
        nm = f"{base}!{id(self) % 10000}!{self.nfresh}"
        if isinstance(ty, types.Integer):
            if self.mode == "bv":
                return Sym(z3.BitVec(nm, ty.bitwidth), ty)
            v = z3.Int(nm)
            return Sym(v, ty)
        if isinstance(ty, types.Float):
            return Sym(z3.Real(nm), ty)
        if isinstance(ty, types.Boolean):
            return Sym(z3.Bool(nm), ty)
        raise Unsupported(f"fresh {ty}")

    def const(self, v, ty):
        ty = _unlit(ty)
        if isinstance(ty, types.Boolean):
            return z3.BoolVal(bool(v))
        if isinstance(ty, types.Integer):
            return z3.BitVecVal(int(v), ty.bitwidth) if self.mode == "bv" else z3.IntVal(int(v))
        if isinstance(ty, types.Float):
            return z3.RealVal(Fraction(v))
        raise Unsupported(f"const {ty}")

    def cast(self, v, fr, to, where=""):
        """numba conversion of value v (python scalar or Sym) from type fr to type to"""
        fr, to = _unlit(fr), _unlit(to)
        if isinstance(v, Sym):
            fr = _unlit(v.ty)
        if fr == to and not isinstance(v, Sym):
            return v
        if not isinstance(v, Sym):
            if isinstance(to, types.Integer):
                if isinstance(v, (float, Fraction)):
                    v = math.trunc(v)
                return wrap_int(v, to)
            if isinstance(to, types.Float):
                if isinstance(v, (bool, np.bool_)):
                    v = int(v)
                if to.bitwidth == 32 and isinstance(v, float):
                    return float(np.float32(v))
                return v if isinstance(v, (int, float, Fraction)) else float(v)
            if isinstance(to, types.Boolean):
                return bool(v)
            return v
        t = v.t
        if fr == to:
            return v
        if isinstance(fr, types.Integer) and isinstance(to, types.Integer):
            if self.mode == "bv":
                if to.bitwidth > fr.bitwidth:
                    t = z3.SignExt(to.bitwidth - fr.bitwidth, t) if fr.signed else z3.ZeroExt(to.bitwidth - fr.bitwidth, t)
                elif to.bitwidth < fr.bitwidth:
                    t = z3.Extract(to.bitwidth - 1, 0, t)
                return Sym(t, to)
            flo, fhi = irange(fr)
            tlo, thi = irange(to)
            if tlo <= flo and fhi <= thi:
                return Sym(t, to)
            m = 1 << to.bitwidth
            if to.signed:
                t = ((t + (m >> 1)) % m) - (m >> 1)
            else:
                t = t % m
            return Sym(t, to)
        if isinstance(fr, types.Integer) and isinstance(to, types.Float):
            if self.mode == "bv":
                raise Unsupported("int->float in bv mode")
            return Sym(z3.ToReal(t), to)
        if isinstance(fr, types.Boolean) and isinstance(to, types.Integer):
            return Sym(z3.If(t, self.const(1, to), self.const(0, to)), to)
        if isinstance(fr, types.Boolean) and isinstance(to, types.Float):
            return Sym(z3.If(t, z3.RealVal(1), z3.RealVal(0)), to)
        if isinstance(fr, types.Float) and isinstance(to, types.Float):
            return Sym(t, to)
        if isinstance(fr, types.Float) and isinstance(to, types.Integer):
            fl = z3.ToInt(t)
            tr = z3.If(z3.Or(t >= 0, z3.ToReal(fl) == t), fl, fl + 1)
            r = Sym(tr, types.int64 if to.bitwidth < 64 else to)
            return self.cast(r, r.ty, to) if r.ty != to else r
        if isinstance(to, types.Boolean):
            if isinstance(fr, types.Integer):
                return Sym(t != self.const(0, fr), to)
            if isinstance(fr, types.Float):
                return Sym(t != 0, to)
        raise Unsupported(f"cast {fr}->{to}")

    def term(self, v, ty):
        ty = _unlit(ty)
        if isinstance(v, Sym):
            return self.cast(v, v.ty, ty).t
        return self.const(self.cast(v, ty, ty), ty)

    def truth(self, v):
        if isinstance(v, Sym):
            ty = _unlit(v.ty)
            if isinstance(ty, types.Boolean):
                c = v.t
            elif isinstance(ty, types.Integer):
                c = v.t != self.const(0, ty)
            else:
                c = v.t != 0
            if Ctx.cur is None:
                raise Unsupported("symbolic branch outside a path explorer")
            return Ctx.cur.branch(c)
        return bool(v)

    def concretise(self, v, lo=None, hi=None):
        """python int for an index-like value; forks over feasible values when symbolic"""
        if not isinstance(v, Sym):
            return int(v)
        t = z3.simplify(v.t)
        if z3.is_int_value(t):
            return t.as_long()
        if z3.is_bv_value(t):
            return t.as_signed_long() if _unlit(v.ty).signed else t.as_long()
        c = Ctx.cur
        if c is None:
            raise Unsupported("symbolic index outside a path explorer")
        rng = range(lo if lo is not None else -c.bound, (hi if hi is not None else c.bound) + 1)
        for k in rng:
            cond = v.t == self.const(k, v.ty)
            # infeasible candidates are skipped without spending one of the path's decisions (the feasibility answers are
            # a function of the path condition, so re-execution sees the same sequence)
            if c.pos >= len(c.prefix) and not c.sat(cond):
                continue
            if c.pos < len(c.prefix) and not c.prefix_feasible(cond):
                continue
            if c.branch(cond):
                return k
        raise Cut("index>bound")

    def binop(self, fn, a, b, sig, where=""):
        fn = INPLACE.get(fn, fn)
        if isinstance(a, str) or isinstance(b, str):
            return "<str>"      # message formatting on an error path
        ta, tb = (_unlit(x) for x in sig.args)
        rt = _unlit(sig.return_type)
        if not isinstance(a, Sym) and not isinstance(b, Sym):
            return self.concrete_binop(fn, a, b, ta, tb, rt)
        if fn in CMP:
            ct = self.common_type(ta, tb)
            x, y = self.term(a, ct), self.term(b, ct)
            if self.mode == "bv" and isinstance(ct, types.Integer) and not ct.signed:
                u = {operator.lt: z3.ULT, operator.le: z3.ULE, operator.gt: z3.UGT, operator.ge: z3.UGE}
                if fn in u:
                    return Sym(u[fn](x, y), types.boolean)
            return Sym(CMP[fn](x, y), types.boolean)
        if isinstance(rt, types.Float):
            x, y = self.term(a, rt), self.term(b, rt)
            if fn is operator.add:
                r = x + y
            elif fn is operator.sub:
                r = x - y
            elif fn is operator.mul:
                r = x * y
            elif fn is operator.truediv:
                r = x / y
            elif fn is operator.floordiv:
                r = z3.ToReal(z3.ToInt(x / y))
            elif fn is operator.mod:
                r = x - y * z3.ToReal(z3.ToInt(x / y))
            elif fn is operator.pow:
                r = self.real_pow(x, b, y)
            else:
                raise Unsupported(f"float op {fn}")
            return Sym(r, rt)
        if isinstance(rt, types.Integer):
            x, y = self.term(a, rt), self.term(b, rt)
            if self.mode == "bv":
                if fn is operator.add:
                    r = x + y
                elif fn is operator.sub:
                    r = x - y
                elif fn is operator.mul:
                    r = x * y
                elif fn is operator.lshift:
                    r = x << y
                elif fn is operator.rshift:
                    r = (x >> y) if rt.signed else z3.LShR(x, y)
                elif fn is operator.and_:
                    r = x & y
                elif fn is operator.or_:
                    r = x | y
                elif fn is operator.xor:
                    r = x ^ y
                else:
                    raise Unsupported(f"bv op {fn}")
                return Sym(r, rt)
            if fn is operator.add:
                r = x + y
            elif fn is operator.sub:
                r = x - y
            elif fn is operator.mul:
                r = x * y
            elif fn is operator.floordiv:
                r = self.int_floordiv(x, y)
            elif fn is operator.mod:
                r = x - y * self.int_floordiv(x, y)
            elif fn is operator.pow:
                if isinstance(b, Sym) or not 0 <= int(b) <= 4:
                    raise Unsupported("int pow exponent")
                r = z3.IntVal(1)
                for _ in range(int(b)):
                    r = r * x
                    self.ovf.append((r, rt, where))
            elif fn in (operator.and_, operator.or_, operator.lshift, operator.rshift, operator.xor):
                raise Unsupported(f"bit op {fn} in int mode")
            else:
                raise Unsupported(f"int op {fn}")
            self.ovf.append((r, rt, where))
            return Sym(r, rt)
        if isinstance(rt, types.Boolean):
            x, y = self.term(a, rt), self.term(b, rt)
            if fn is operator.and_:
                return Sym(z3.And(x, y), rt)
            if fn is operator.or_:
                return Sym(z3.Or(x, y), rt)
        raise Unsupported(f"binop {fn} -> {rt}")

    def real_pow(self, x, b, y):
        if isinstance(b, Sym):
            raise Unsupported("symbolic exponent")
        fb = Fraction(b)
        if fb.denominator != 1 or not -4 <= fb.numerator <= 4:
            raise Unsupported(f"pow exponent {b}")
        k = abs(fb.numerator)
        r = z3.RealVal(1)
        for _ in range(k):
            r = r * x
        return r if fb.numerator >= 0 else 1 / r

    @staticmethod
    def int_floordiv(x, y):
        if z3.is_int_value(y) and y.as_long() > 0:
            return x / y
        q = x / y
        r = x - y * q
        return z3.If(z3.And(y < 0, r != 0), q - 1, q)

    @staticmethod
    def common_type(ta, tb):
        if isinstance(ta, types.Float) or isinstance(tb, types.Float):
            return types.float64
        if isinstance(ta, types.Boolean) and isinstance(tb, types.Boolean):
            return types.boolean
        if isinstance(ta, types.Integer) and isinstance(tb, types.Integer):
            if ta == tb:
                return ta
            if ta.signed == tb.signed:
                return ta if ta.bitwidth >= tb.bitwidth else tb
            return types.int64
        return types.int64

    def concrete_binop(self, fn, a, b, ta, tb, rt):
        if fn in CMP:
            return bool(fn(a, b))
        if isinstance(rt, types.Float):
            fa = a if isinstance(a, (float, Fraction)) else (int(a) if not isinstance(a, float) else a)
            fb = b if isinstance(b, (float, Fraction)) else int(b)
            if fn is operator.truediv and fb == 0:
                return math.copysign(math.inf, fa) if fa != 0 else math.nan
            if fn is operator.pow:
                r = float(fa) ** float(fb)
            elif fn is operator.floordiv:
                r = math.floor(fa / fb)
            else:
                r = fn(fa, fb)
            if rt.bitwidth == 32 and isinstance(r, float):
                r = float(np.float32(r))
            return r
        if isinstance(rt, types.Integer):
            x, y = wrap_int(a, rt) if not isinstance(a, (float, Fraction)) else a, wrap_int(b, rt) if not isinstance(b, (float, Fraction)) else b
            if fn in (operator.floordiv, operator.mod) and y == 0:
                raise KernelRaise(ZeroDivisionError, ("division by zero",))
            if fn is operator.rshift and not rt.signed:
                return wrap_int((x % (1 << rt.bitwidth)) >> y, rt)
            return wrap_int(fn(x, y), rt)
        if isinstance(rt, types.Boolean):
            return bool(fn(a, b))
        raise Unsupported(f"concrete binop {fn} {rt}")

    def unary(self, fn, a, sig):
        rt = _unlit(sig.return_type)
        if not isinstance(a, Sym):
            if fn is operator.not_:
                return not a
            r = fn(a)
            return wrap_int(r, rt) if isinstance(rt, types.Integer) else r
        if fn is operator.neg:
            t = self.term(a, rt)
            return Sym(-t, rt)
        if fn is operator.pos:
            return a
        if fn is operator.not_:
            c = self.cast(a, a.ty, types.boolean)
            return Sym(z3.Not(c.t), types.boolean)
        if fn is operator.invert and self.mode == "bv":
            return Sym(~self.term(a, rt), rt)
        raise Unsupported(f"unary {fn}")

    # ------------------------------------------------------------ arrays
    def load(self, arr, idx):
        self.log.append(("R", arr.name, idx))
        v = arr.get(idx)
        if v is None:
            v = self.uninit_value(arr, idx)
            arr.set(idx, v)
        return v

    def uninit_value(self, arr, idx):
        if self.uninit == "fresh" and not isinstance(arr.dtype, types.Record):
            return self.fresh(arr.dtype, f"uninit_{arr.name}")
        raise Unsupported(f"read of uninitialised {arr.name}{idx}")

    def store(self, arr, idx, v, vty):
        self.log.append(("W", arr.name, idx))
        arr.set(idx, v if isinstance(v, Cx) else self.cast(v, vty, arr.dtype))

    def index_key(self, idx, ity):
        """IR index value -> python key (ints/slices), forking on symbolic parts"""
        if isinstance(idx, tuple):
            return tuple(self.index_key(i, None) for i in idx)
        if isinstance(idx, slice):
            return slice(*(None if p is None else self.concretise(p) for p in (idx.start, idx.stop, idx.step)))
        return self.concretise(idx)

    def getitem(self, obj, idx, sig):
        if isinstance(obj, tuple):
            return obj[self.concretise(idx)]
        if isinstance(obj, NArr):
            if isinstance(idx, str):
                return obj.fieldview(idx)
            key = self.index_key(idx, None)
            if not isinstance(key, tuple):
                key = (key,)
            if obj.ndim == len(key) and all(isinstance(k, int) for k in key):
                v = self.load(obj, key)
                return RecRef(obj, key) if isinstance(obj.dtype, types.Record) and obj.field is None else v
            return obj.view(key)
        if isinstance(obj, RecRef):
            return self.load(obj.arr.fieldview(idx) if obj.arr.field is None else obj.arr, obj.key)
        if isinstance(obj, list):
            return obj[self.concretise(idx)]
        if isinstance(obj, np.ndarray) and not obj.dtype.names:
            return self.table_lookup(obj, idx)
        raise Unsupported(f"getitem on {type(obj).__name__}")

    def table_lookup(self, table, idx):
        """a module-level constant array (lookup table) indexed by a possibly symbolic leading index: an if-then-else
        chain over its rows; numba does no bounds checking, so an index outside the table yields an unconstrained value"""
        import numba
        ety = numba.from_dtype(table.dtype)
        key = idx if isinstance(idx, tuple) else (idx,)
        lead, rest = key[0], key[1:]
        if not isinstance(lead, Sym):
            if not -table.shape[0] <= int(lead) < table.shape[0]:
                # out of range and no bounds check in compiled code: unconstrained content
                sub_shape = table.shape[1:]
                if rest or not sub_shape:
                    return self.fresh(ety, "oob")
                out = NArr(ety, sub_shape, name="oobrow")
                out.store = [self.fresh(ety, "oob") for _ in range(int(np.prod(sub_shape)))]
                return out
            sub = table[int(lead)]
            if rest:
                return self.table_lookup(sub, rest if len(rest) > 1 else rest[0]) if isinstance(sub, np.ndarray) else sub
            if isinstance(sub, np.ndarray):
                out = NArr(ety, sub.shape, name="tbl")
                out.store = [sub.ravel()[k].item() for k in range(sub.size)]
                return out
            return sub.item()
        if rest:
            raise Unsupported("symbolic leading index with further indices into a constant table")
        ity = _unlit(lead.ty)
        it = self.term(lead, ity)
        sub_shape = table.shape[1:]
        n_el = int(np.prod(sub_shape)) if sub_shape else 1
        flat = table.reshape(table.shape[0], n_el)
        outs = []
        for e in range(n_el):
            acc = self.fresh(ety, "oob").t          # out of range: whatever lies behind the table
            for r in range(table.shape[0] - 1, -1, -1):
                acc = z3.If(it == self.const(r, ity), self.const(flat[r, e].item(), ety), acc)
            outs.append(Sym(acc, ety))
        if not sub_shape:
            return outs[0]
        out = NArr(ety, sub_shape, name="tblrow")
        out.store = outs
        return out

    def setitem(self, obj, idx, v, vty):
        if isinstance(obj, RecRef):
            fv = obj.arr.fieldview(idx)
            self.store(fv, obj.key, v, vty)
            return
        if not isinstance(obj, NArr):
            raise Unsupported(f"setitem on {type(obj).__name__}")
        if isinstance(idx, str):
            raise Unsupported("setitem record field on array")
        key = self.index_key(idx, None)
        if not isinstance(key, tuple):
            key = (key,)
        if obj.ndim == len(key) and all(isinstance(k, int) for k in key):
            self.store(obj, key, v, vty)
            return
        tgt = obj.view(key)
        if isinstance(v, NArr):
            if v.shape != tgt.shape:
                if v.size == 1:
                    s = self.load(v, tuple(0 for _ in v.shape))
                    for i in tgt.indices():
                        self.store(tgt, i, s, v.dtype)
                    return
                raise KernelRaise(ValueError, (f"cannot assign slice of shape {v.shape} to {tgt.shape}",))
            vals = [self.load(v, i) for i in v.indices()]
            for i, x in zip(tgt.indices(), vals):
                self.store(tgt, i, x, v.dtype)
        else:
            for i in tgt.indices():
                self.store(tgt, i, v, vty)

    def new_array(self, shape, dtype, fill=None, name="tmp"):
        if not isinstance(shape, tuple):
            shape = (shape,)
        shape = tuple(self.concretise(s) for s in shape)
        if any(s < 0 for s in shape):
            raise KernelRaise(ValueError, ("negative dimensions not allowed",))
        a = NArr(dtype, shape, name=name)
        if fill is not None:
            for k in range(len(a.store)):
                a.store[k] = fill
        return a

    def elementwise(self, f, arrs, rty):
        shp = None
        for a in arrs:
            if isinstance(a, NArr):
                if shp is None or a.size > 1 and shp != a.shape:
                    if shp is not None and shp != a.shape and NArr(None, shp).size != 1:
                        raise Unsupported(f"broadcast {shp} vs {a.shape}")
                    shp = a.shape
        out = NArr(rty, shp, name="expr")
        for i in out.indices():
            vals = [self.load(a, i) if isinstance(a, NArr) else a for a in arrs]
            out.set(i, f(*vals))
        return out

    # ------------------------------------------------------------ execution
    def run(self, args):
        cap = self.cap
        env = {}
        blocks = cap.blocks
        lbl = min(blocks)
        args = list(args)
        steps = 0
        while True:
            blk = blocks[lbl]
            nxt = None
            for st in blk.body:
                steps += 1
                if steps > 2_000_000:
                    raise Inconclusive("interpreter step budget")
                if isinstance(st, ir.Assign):
                    v = self.eval(st.value, env, args, st)
                    tt = cap.tm.get(st.target.name)
                    if tt is not None and isinstance(_unlit(tt), (types.Integer, types.Float, types.Boolean)) and not isinstance(v, (NArr, tuple, RangeIt)):
                        st_ty = self.value_type(st.value, env, v)
                        if st_ty is not None:
                            v = self.cast(v, st_ty, tt)
                    env[st.target.name] = v
                elif isinstance(st, ir.SetItem):
                    self.setitem(env[st.target.name], env[st.index.name], env[st.value.name], cap.tm[st.value.name])
                elif isinstance(st, ir.StaticSetItem):
                    self.setitem(env[st.target.name], st.index, env[st.value.name], cap.tm[st.value.name])
                elif isinstance(st, ir.Del):
                    pass
                elif isinstance(st, ir.Jump):
                    nxt = st.target
                elif isinstance(st, ir.Branch):
                    nxt = st.truebr if self.truth(env[st.cond.name]) else st.falsebr
                elif isinstance(st, ir.Return):
                    return env[st.value.name]
                elif isinstance(st, (ir.StaticRaise, ir.DynamicRaise)):
                    raise KernelRaise(st.exc_class or Exception, tuple(str(a) for a in (st.exc_args or ())))
                elif type(st).__name__ in ("Print",):
                    pass
                else:
                    raise Unsupported(f"IR statement {type(st).__name__}")
            if nxt is None:
                raise Unsupported("block without terminator")
            lbl = nxt

    def value_type(self, node, env, v):
        cap = self.cap
        if isinstance(v, Sym):
            return v.ty
        if isinstance(node, ir.Var):
            return cap.tm.get(node.name)
        if isinstance(node, ir.Expr) and node in cap.ct and cap.ct[node] is not None:
            return cap.ct[node].return_type
        if isinstance(v, bool):
            return types.boolean
        if isinstance(v, int):
            return types.int64
        if isinstance(v, (float, Fraction)):
            return types.float64
        return None

    def eval(self, v, env, args, st):
        cap = self.cap
        if isinstance(v, ir.Arg):
            return args[v.index]
        if isinstance(v, ir.Const):
            return v.value
        if isinstance(v, (ir.Global, ir.FreeVar)):
            return v.value
        if isinstance(v, ir.Var):
            return env[v.name]
        if not isinstance(v, ir.Expr):
            raise Unsupported(f"IR value {type(v).__name__}")
        op = v.op
        where = f"{cap.name}:{v.loc.line if v.loc else '?'}"
        if op in ("binop", "inplace_binop"):
            a, b = env[v.lhs.name], env[v.rhs.name]
            sig = cap.ct[v]
            if hasattr(a, "factors") or hasattr(b, "factors"):      # abstract FFT spectra (symx.fftc)
                if INPLACE.get(v.fn, v.fn) is not operator.mul:
                    raise Unsupported("operation on an abstract spectrum")
                return a * b
            if isinstance(a, NArr) or isinstance(b, NArr):
                return self.array_binop(v.fn, a, b, sig, where)
            return self.binop(v.fn, a, b, sig, where)
        if op == "unary":
            a = env[v.value.name]
            if isinstance(a, NArr):
                rty = cap.ct[v].return_type.dtype
                return self.elementwise(lambda x: self.unary(v.fn, x, _Sig((a.dtype,), rty)), [a], rty)
            return self.unary(v.fn, a, cap.ct[v])
        if op == "getitem":
            return self.getitem(env[v.value.name], env[v.index.name], cap.ct.get(v))
        if op == "static_getitem":
            idx = v.index
            if idx is None or (v.index_var is not None and not isinstance(idx, (int, str, slice, tuple))):
                idx = env[v.index_var.name]
            return self.getitem(env[v.value.name], idx, cap.ct.get(v))
        if op == "getattr":
            return self.getattr(env[v.value.name], v.attr, cap.tm.get(st.target.name))
        if op == "call":
            f = env[v.func.name]
            a = [env[x.name] for x in v.args]
            kw = {k: env[x.name] for k, x in (v.kws or ())}
            return self.call(f, a, kw, cap.ct.get(v), where, v)
        if op == "cast":
            return env[v.value.name]
        if op == "build_tuple":
            return tuple(env[x.name] for x in v.items)
        if op == "build_list":
            return [env[x.name] for x in v.items]
        if op == "exhaust_iter":
            x = env[v.value.name]
            return tuple(x)
        if op == "getiter":
            x = env[v.value.name]
            if isinstance(x, NArr):
                return ArrIt(x)
            return x
        if op == "iternext":
            it = env[v.value.name]
            return self.iternext(it)
        if op == "pair_first":
            return env[v.value.name][0]
        if op == "pair_second":
            return env[v.value.name][1]
        if op == "arrayexpr":
            return self.arrayexpr(v.expr, env, v.ty, where)
        if op == "null":
            return None
        raise Unsupported(f"IR expr {op}")

    def iternext(self, it):
        if isinstance(it, RangeIt):
            if (it.step > 0 and it.cur < it.hi) or (it.step < 0 and it.cur > it.hi):
                val = it.cur
                it.cur += it.step
                return (val, True)
            return (None, False)
        if isinstance(it, ArrIt):
            if it.i < it.arr.shape[0]:
                v = it.arr.view((it.i,)) if it.arr.ndim > 1 else self.load(it.arr, (it.i,))
                it.i += 1
                return (v, True)
            return (None, False)
        raise Unsupported(f"iternext on {type(it).__name__}")

    def getattr(self, o, attr, tty):
        if isinstance(o, NArr):
            if attr == "size":
                return o.size
            if attr == "shape":
                return o.shape
            if attr == "ndim":
                return o.ndim
            if attr == "dtype":
                return DType(o.dtype)
            if attr == "T":
                return NArr(o.dtype, o.shape[::-1], o.store, o.offset, o.strides[::-1], o.field, o.name)
            if attr in ("astype", "copy", "sum", "max", "min", "mean", "view", "ravel", "flatten", "reshape", "fill"):
                return BoundMethod(o, attr)
            raise Unsupported(f"array attr {attr}")
        if isinstance(o, RecRef):
            return self.getitem(o, attr, None)
        if isinstance(o, Cx):
            if attr in ("real", "imag"):
                return o.re if attr == "real" else o.im
            raise Unsupported(f"complex attr {attr}")
        if isinstance(o, Sym):
            raise Unsupported(f"attr {attr} of symbolic scalar")
        return getattr(o, attr)

    def array_binop(self, fn, a, b, sig, where):
        fn2 = INPLACE.get(fn, fn)
        rty = sig.return_type.dtype
        ta = a.dtype if isinstance(a, NArr) else sig.args[0]
        tb = b.dtype if isinstance(b, NArr) else sig.args[1]
        esig = self.scalar_sig(fn2, ta, tb)
        out = self.elementwise(lambda x, y: self.cast(self.binop(fn2, x, y, esig, where), esig.return_type, rty), [a, b], rty)
        if fn in INPLACE and isinstance(a, NArr):
            for i in a.indices():
                self.store(a, i, out.get(i), rty)
            return a
        return out

    def scalar_sig(self, fn, ta, tb):
        ta, tb = _unlit(ta), _unlit(tb)
        try:
            s = self.cap.typingctx.resolve_function_type(fn, (ta, tb), {})
        except Exception as e:  # noqa: BLE001
            raise Unsupported(f"cannot type {fn}({ta},{tb}): {e}")
        return s

    def arrayexpr(self, expr, env, ty, where):
        """fused array expression: inner ops typed on scalars as numba's lowering does"""
        rty = ty.dtype

        def has_spec(e):
            if isinstance(e, ir.Var):
                return hasattr(env[e.name], "factors")
            if isinstance(e, tuple):
                return any(has_spec(x) for x in e[1])
            return False

        def ev_spec(e):
            if isinstance(e, ir.Var):
                return env[e.name]
            if isinstance(e, tuple) and INPLACE.get(e[0], e[0]) is operator.mul and len(e[1]) == 2:
                return ev_spec(e[1][0]) * ev_spec(e[1][1])
            raise Unsupported("operation on an abstract spectrum inside an array expression")
        if has_spec(expr):
            return ev_spec(expr)

        def ev(e):
            if isinstance(e, ir.Var):
                return env[e.name], self.cap.tm[e.name]
            if isinstance(e, ir.Const):
                return e.value, typeof(e.value)
            if isinstance(e, tuple):
                fn, operands = e
                vals = [ev(x) for x in operands]
                return ("op", fn, vals), None
            raise Unsupported(f"arrayexpr node {type(e).__name__}")
        tree, _ = ev(expr)
        arrs = []

        def collect(t):
            if isinstance(t, tuple) and t and t[0] == "op":
                for x, _ in t[2]:
                    collect(x)
            elif isinstance(t, NArr):
                arrs.append(t)
        collect(tree)
        shp = None
        for a in arrs:
            if shp is None or (a.size > 1 and a.shape != shp):
                shp = a.shape
        out = NArr(rty, shp, name="arrayexpr")

        def evs(t, tty, i):
            if isinstance(t, tuple) and t and t[0] == "op":
                fn, vals = t[1], t[2]
                xs = [evs(x, xt, i) for x, xt in vals]
                if len(xs) == 2:
                    if fn in (np.maximum, np.minimum):
                        ct = self.common_type(_unlit(xs[0][1]), _unlit(xs[1][1]))
                        if isinstance(_unlit(xs[0][1]), types.Float) and isinstance(_unlit(xs[1][1]), types.Float):
                            ct = xs[0][1] if _unlit(xs[0][1]).bitwidth >= _unlit(xs[1][1]).bitwidth else xs[1][1]
                        return self.minmax(fn is np.minimum, [xs[0][0], xs[1][0]], _Sig((ct, ct), ct)), ct
                    sig = self.scalar_sig(INPLACE.get(fn, fn), xs[0][1], xs[1][1])
                    return self.binop(fn, xs[0][0], xs[1][0], sig, where), sig.return_type
                if len(xs) == 1:
                    try:
                        sig = self.cap.typingctx.resolve_function_type(fn, (xs[0][1],), {})
                    except Exception as e:  # noqa: BLE001
                        raise Unsupported(f"arrayexpr unary {fn}: {e}")
                    if fn in (np.sqrt,):
                        return self.np_scalar(fn, xs[0][0], sig), sig.return_type
                    return self.unary(fn, xs[0][0], sig), sig.return_type
                raise Unsupported("arrayexpr arity")
            if isinstance(t, NArr):
                return (self.load(t, i) if t.size > 1 or t.shape == shp else self.load(t, tuple(0 for _ in t.shape))), t.dtype
            return t, _unlit(tty)
        for i in out.indices():
            v, vt = evs(tree, None, i)
            out.set(i, self.cast(v, vt, rty))
        return out

    def hooks_by_name(self):
        return ()

    # ------------------------------------------------------------ calls
    def call(self, f, a, kw, sig, where, node):
        if f in self.hooks:
            return self.hooks[f](self, a, kw, sig)
        if f is range or f is prange or f is prange_cls:
            a = [self.concretise(x, 0, None) for x in a]
            par = f is not range
            if len(a) == 1:
                return RangeIt(0, a[0], 1, par)
            if len(a) == 2:
                return RangeIt(a[0], a[1], 1, par)
            return RangeIt(a[0], a[1], a[2], par)
        if f is slice:
            if len(a) == 1:
                return slice(None, a[0], None)
            return slice(*a)
        if f is len:
            x = a[0]
            return x.shape[0] if isinstance(x, NArr) else len(x)
        if f in self.hooks_by_name():
            pass
        if f is bool:
            x = a[0]
            return self.cast(x, x.ty, types.boolean) if isinstance(x, Sym) else bool(x)
        if f is int:
            return self.cast(a[0], sig.args[0], sig.return_type)
        if f is float:
            return self.cast(a[0], sig.args[0], sig.return_type)
        if f is abs:
            x = a[0]
            rt = _unlit(sig.return_type)
            if not isinstance(x, Sym):
                return abs(x)
            t = self.term(x, rt)
            zero = self.const(0, rt)
            return Sym(z3.If(t >= zero, t, -t), rt)
        if f is min or f is max:
            return self.minmax(f is min, a, sig)
        if f is round:
            x = a[0]
            if not isinstance(x, Sym):
                return round(x)
            t = x.t
            fl = z3.ToInt(t)
            fr = t - z3.ToReal(fl)
            r = z3.If(fr < Fraction(1, 2), fl, z3.If(fr > Fraction(1, 2), fl + 1, z3.If(fl % 2 == 0, fl, fl + 1)))
            return self.cast(Sym(r, types.int64), types.int64, sig.return_type)
        if isinstance(f, types.Type) or (isinstance(f, type) and issubclass(f, np.generic)):
            to = f if isinstance(f, types.Type) else sig.return_type
            return self.cast(a[0], sig.args[0], to)
        if isinstance(f, BoundMethod):
            return self.method(f.obj, f.name, a, kw, sig, where)
        if f in (np.empty, np.zeros, np.ones):
            dt = self.dtype_arg(a[1] if len(a) > 1 else kw.get("dtype"), sig)
            fill = None if f is np.empty else self.cast(0 if f is np.zeros else 1, types.int64, dt)
            return self.new_array(a[0], dt, fill, name=f.__name__)
        if f in (np.empty_like, np.zeros_like):
            x = a[0]
            dt = sig.return_type.dtype
            return self.new_array(x.shape, dt, None if f is np.empty_like else self.cast(0, types.int64, dt), name=f.__name__)
        if f is np.arange:
            n = self.concretise(a[0], 0, None)
            dt = sig.return_type.dtype
            out = self.new_array(n, dt, name="arange")
            for i in range(n):
                out.set((i,), self.cast(i, types.int64, dt))
            return out
        if f in (np.sum, np.mean, np.max, np.min, np.amax, np.amin):
            return self.reduce(f.__name__.replace("amax", "max").replace("amin", "min"), a[0], a[1] if len(a) > 1 else kw.get("axis"), sig, where)
        if f in (np.maximum, np.minimum):
            rty = sig.return_type.dtype if isinstance(sig.return_type, types.Array) else sig.return_type
            s2 = _Sig((rty, rty), rty)
            g = lambda x, y: self.minmax(f is np.minimum, [x, y], s2)
            if isinstance(a[0], NArr) or isinstance(a[1], NArr):
                return self.elementwise(g, a[:2], rty)
            return g(a[0], a[1])
        if f in (np.sqrt, np.abs, np.ceil, np.floor, np.log, np.exp):
            x = a[0]
            if isinstance(x, NArr):
                rty = sig.return_type.dtype
                return self.elementwise(lambda y: self.np_scalar(f, y, _Sig((x.dtype,), rty)), [x], rty)
            return self.np_scalar(f, x, sig)
        if f is np.roll:
            x, sh = a[0], self.concretise(a[1])
            if x.ndim != 1:
                raise Unsupported("np.roll nd")
            n = x.shape[0]
            out = self.new_array(n, x.dtype, name="roll")
            for i in range(n):
                out.set(((i + sh) % n,) if n else (i,), self.load(x, (i,)))
            return out
        if hasattr(f, "py_func") and hasattr(f, "targetoptions"):
            return self.nested(f, a, kw, sig)
        if isinstance(f, type) and issubclass(f, BaseException):
            return ("exc", f, a)
        if f is str:
            return "<str>"
        name = getattr(f, "__name__", repr(f))
        if name in ("numba_good_size", "good_size"):
            # rocket_fft.good_size: FFI, evaluated concretely (its argument is concrete inside the bounds)
            from sigpyproc.core import kernels as _K
            n = self.concretise(a[0], 0, None)
            real = a[1] if len(a) > 1 else kw.get("real", False)
            return int(_K.nb_fft_good_size(n, bool(real)))
        raise Unsupported(f"call target {name}")

    def nested(self, f, a, kw, sig):
        if kw:
            import inspect
            names = list(inspect.signature(f.py_func).parameters)
            a = list(a)
            for nm in names[len(a):]:
                if nm in kw:
                    a.append(kw[nm])
                else:
                    break
            if len(a) != len(sig.args):
                raise Unsupported("kwargs to nested dispatcher")
        argtys = sig.args
        sub = Interp(capture(f, argtys), self.mode, self.uninit, self.hooks)
        sub.nfresh = self.nfresh + 1000
        r = sub.run(list(a) + [None] * (len(sub.cap.args) - len(a)))
        self.ovf.extend(sub.ovf)
        self.log.extend(sub.log)
        self.nfresh = sub.nfresh
        return r

    def minmax(self, is_min, a, sig):
        rt = _unlit(sig.return_type)
        x, y = a[0], a[1]
        if not isinstance(x, Sym) and not isinstance(y, Sym):
            r = min(x, y) if is_min else max(x, y)
            return r
        tx, ty_ = self.term(x, rt), self.term(y, rt)
        # numba: min(a, b) = b if b < a else a
        c = (ty_ < tx) if is_min else (ty_ > tx)
        return Sym(z3.If(c, ty_, tx), rt)

    def np_scalar(self, f, x, sig):
        rt = _unlit(sig.return_type)
        if not isinstance(x, Sym):
            r = float(f(x))
            return r
        t = self.term(x, rt)
        if f is np.abs:
            return Sym(z3.If(t >= 0, t, -t), rt)
        if f is np.sqrt:
            c = Ctx.cur
            if c is None:
                raise Unsupported("sqrt outside explorer")
            r = c.fresh_real("sqrt")
            c.assume(z3.And(r >= 0, r * r == t))
            c.notes.append(("sqrt", r, t))
            return Sym(r, rt)
        if f is np.floor:
            return Sym(z3.ToReal(z3.ToInt(t)), rt)
        if f is np.ceil:
            return Sym(-z3.ToReal(z3.ToInt(-t)), rt)
        raise Unsupported(f"np.{f.__name__} on symbolic value")

    def dtype_arg(self, d, sig):
        if isinstance(sig.return_type, types.Array):
            return sig.return_type.dtype
        if isinstance(d, DType):
            return d.ty
        raise Unsupported("dtype argument")

    def reduce(self, kind, x, axis, sig, where):
        if not isinstance(x, NArr):
            raise Unsupported("reduce non-array")
        rt = sig.return_type
        if axis is None:
            vals = [self.load(x, i) for i in x.indices()]
            return self.reduce_vals(kind, vals, x.dtype, _unlit(rt), where)
        axis = self.concretise(axis)
        ety = rt.dtype
        oshape = tuple(s for k, s in enumerate(x.shape) if k != axis)
        out = NArr(ety, oshape, name="reduce")
        for oi in out.indices():
            vals = []
            for k in range(x.shape[axis]):
                idx = oi[:axis] + (k,) + oi[axis:]
                vals.append(self.load(x, idx))
            out.set(oi, self.reduce_vals(kind, vals, x.dtype, ety, where))
        return out

    def reduce_vals(self, kind, vals, ety, rt, where):
        if kind in ("sum", "mean"):
            acc_t = rt if kind == "sum" else types.float64
            acc = self.cast(0, types.int64, acc_t)
            s = _Sig((acc_t, acc_t), acc_t)
            for v in vals:
                acc = self.binop(operator.add, acc, self.cast(v, ety, acc_t), s, where)
            if kind == "mean":
                if not vals:
                    return math.nan
                acc = self.binop(operator.truediv, acc, len(vals), _Sig((types.float64, types.float64), types.float64), where)
                return self.cast(acc, types.float64, rt)
            return acc
        if kind in ("max", "min"):
            if not vals:
                raise KernelRaise(ValueError, ("zero-size array to reduction operation",))
            acc = vals[0]
            s = _Sig((ety, ety), ety)
            for v in vals[1:]:
                acc = self.minmax(kind == "min", [acc, v], s)
            return acc
        raise Unsupported(kind)

    def method(self, o, name, a, kw, sig, where):
        if name == "astype":
            rty = sig.return_type.dtype
            return self.elementwise(lambda x: self.cast(x, o.dtype, rty), [o], rty)
        if name == "copy":
            return self.elementwise(lambda x: x, [o], o.dtype)
        if name in ("sum", "max", "min", "mean"):
            return self.reduce(name, o, a[0] if a else kw.get("axis"), sig, where)
        if name in ("ravel", "flatten"):
            out = NArr(o.dtype, (o.size,), name="ravel")
            for k, i in enumerate(o.indices()):
                out.set((k,), self.load(o, i))
            return out
        if name == "fill":
            for i in o.indices():
                self.store(o, i, a[0], sig.args[0])
            return None
        raise Unsupported(f"array method {name}")


class Cx:
    """complex scalar (re, im) - only .real/.imag are supported"""

    def __init__(self, re, im):
        self.re, self.im = re, im


class _Sig:
    def __init__(self, args, rt):
        self.args, self.return_type = args, rt


class DType:
    def __init__(self, ty):
        self.ty = ty


class RecRef:
    """moments[ichan] : reference to one record of a record array"""

    def __init__(self, arr, key):
        self.arr, self.key = arr, key


class ArrIt:
    def __init__(self, arr):
        self.arr, self.i = arr, 0


# ---------------------------------------------------------------- helpers for harnesses

def to_narr(x, name="arr", ty=None):
    """numpy array -> NArr with concrete python values"""
    ty = ty or typeof(x)
    if isinstance(ty.dtype, types.Record):
        a = NArr(ty.dtype, x.shape, name=name)
        for k, rec in enumerate(x.ravel()):
            a.store[k] = {f: rec[f].item() for f in x.dtype.names}
        return a
    a = NArr(ty.dtype, x.shape, name=name)
    flat = x.ravel()
    for k in range(flat.size):
        a.store[k] = flat[k].item()
    return a


def from_narr(a, npdtype):
    vals = []
    for i in a.indices():
        v = a.get(i)
        if isinstance(v, Sym):
            t = z3.simplify(v.t)
            if z3.is_int_value(t):
                v = t.as_long()
            elif z3.is_bv_value(t):
                v = t.as_long()
            elif z3.is_rational_value(t):
                v = float(Fraction(t.numerator_as_long(), t.denominator_as_long()))
            else:
                raise Unsupported(f"non-concrete result {t}")
        vals.append(v)
    return np.array(vals, dtype=npdtype).reshape(a.shape)


def sym_array(interp, name, ty, shape, mk=None):
    """array of fresh symbolic elements named name[i]"""
    a = NArr(ty.dtype, shape, name=name)
    for k, i in enumerate(a.indices()):
        nm = f"{name}[{','.join(map(str, i))}]"
        et = _unlit(ty.dtype)
        if mk is not None:
            a.store[k] = mk(nm, i)
        elif isinstance(et, types.Integer):
            a.store[k] = Sym(z3.BitVec(nm, et.bitwidth) if interp.mode == "bv" else z3.Int(nm), et)
        elif isinstance(et, types.Float):
            a.store[k] = Sym(z3.Real(nm), et)
        elif isinstance(et, types.Boolean):
            a.store[k] = Sym(z3.Bool(nm), et)
        else:
            raise Unsupported(f"sym_array {et}")
    return a


def run_concrete(disp, args, argtys=None):
    """encoder validation: interpret with concrete inputs (copies) and return the interpreter's view"""
    argtys = argtys or tuple(typeof(a) for a in args)
    cap = capture(disp, argtys)
    it = Interp(cap, "int", uninit="zero-forbidden")
    vals = [to_narr(a, f"a{k}", t) if isinstance(a, np.ndarray) else a for k, (a, t) in enumerate(zip(args, argtys))]
    r = it.run(vals)
    return r, vals, it


# ======================================================================================
# Two-iteration race analysis of prange loops (C19): sizes symbolic and unbounded.
# ======================================================================================

class SymArr:
    """array of symbolic extent: only its accesses matter (values are fresh symbols)"""

    def __init__(self, name, dtype, shape_terms, field=None):
        self.name, self.dtype, self.shape_terms, self.field = name, dtype, tuple(shape_terms), field

    @property
    def ndim(self):
        return len(self.shape_terms)


class SymView:
    """1-D slice [lo, hi) of a SymArr (possibly reversed)"""

    def __init__(self, base, lo, hi):
        self.base, self.lo, self.hi = base, lo, hi
        self.dtype = base.dtype


class SymSub:
    """sub-array of a SymArr selected by leading indices (e.g. one row of a 2-D array)"""

    def __init__(self, base, prefix):
        self.base, self.prefix = base, tuple(prefix)
        self.dtype = base.dtype

    @property
    def ndim(self):
        return self.base.ndim - len(self.prefix)


class SingleIt:
    """one arbitrary iteration of a loop"""

    def __init__(self, val, par):
        self.val, self.par, self.done = val, par, False


class RaceInterp(Interp):
    """Executes the kernel for ONE arbitrary iteration of every loop; logs array accesses
    made inside the prange body as (array, field, index-terms | range, R/W)."""

    def __init__(self, cap, tag, cons, load_constraints=None, stable=()):
        super().__init__(cap, "int")
        self.tag, self.cons = tag, cons
        self.stable = set(stable)   # arrays no iteration writes: equal indices load equal values in every iteration
        self.par = None          # symbolic index of the prange iteration being executed
        self.acc = []            # (name, field, kind, ('idx', terms) | ('range', lo, hi))
        self.load_constraints = load_constraints or {}
        self.nloops = 0

    def freshi(self, base):
        self.nfresh += 1
        return z3.Int(f"{base}_{self.tag}_{self.nfresh}")

    def it(self, x):
        return x.t if isinstance(x, Sym) else z3.IntVal(int(x))

    def call(self, f, a, kw, sig, where, node):
        if f is range or f is prange or f is prange_cls:
            par = f is not range
            if len(a) == 1:
                lo, hi = 0, a[0]
            elif len(a) == 2:
                lo, hi = a
            else:
                raise Unsupported("range with step in race mode")
            if par and self.par is not None:
                raise Unsupported("nested prange")
            v = self.freshi("p" if par else "s")
            self.cons.append(v >= self.it(lo))
            self.cons.append(v < self.it(hi))
            return SingleIt(Sym(v, types.int64), par)
        if f is len:
            x = a[0]
            if isinstance(x, SymArr):
                return Sym(x.shape_terms[0], types.int64)
            if isinstance(x, SymView):
                return Sym(self.it(x.hi) - self.it(x.lo), types.int64)
            if isinstance(x, SymSub):
                return Sym(x.base.shape_terms[len(x.prefix)], types.int64)
        if getattr(f, "__name__", "") == "get_num_threads":
            # size of the thread pool: one arbitrary positive value shared by both iterations
            v = z3.Int("num_threads")
            self.cons.append(v >= 2)      # two iterations can only run concurrently on a pool of at least two threads
            return Sym(v, types.int64)
        if f in (np.empty, np.zeros, np.empty_like, np.zeros_like):
            self.nfresh += 1
            if f in (np.empty_like, np.zeros_like):
                shp = a[0].shape_terms
            else:
                shp = a[0] if isinstance(a[0], tuple) else (a[0],)
                shp = tuple(self.it(s) for s in shp)
            return SymArr(f"{f.__name__}{self.nfresh}", sig.return_type.dtype, shp)
        if f in (np.sum, np.mean, np.max, np.min) and isinstance(a[0], (SymView, SymArr)):
            x = a[0]
            if isinstance(x, SymView):
                self.access(x.base, "R", ("range", self.it(x.lo), self.it(x.hi)))
            else:
                self.access(x, "R", ("range", z3.IntVal(0), x.shape_terms[0]))
            return self.fresh(sig.return_type, "red")
        return super().call(f, a, kw, sig, where, node)

    def iternext(self, it):
        if isinstance(it, SingleIt):
            if it.done:
                if it.par:
                    self.par = None
                return (None, False)
            it.done = True
            if it.par:
                self.par = it.val
            return (it.val, True)
        return super().iternext(it)

    def load_value(self, obj, terms):
        ty = _unlit(obj.dtype)
        if obj.name in self.stable and isinstance(ty, (types.Integer, types.Float, types.Boolean)):
            rs = z3.IntSort() if isinstance(ty, types.Integer) else (z3.RealSort() if isinstance(ty, types.Float) else z3.BoolSort())
            f = z3.Function(f"LD_{obj.name}_{obj.field or ''}_{len(terms)}", *([z3.IntSort()] * len(terms)), rs)
            v = f(*terms)
            if not hasattr(self, "loads"):
                self.loads = []
            self.loads.append((obj.name, terms, v))
            return Sym(v, ty)
        return self.fresh(obj.dtype, f"ld_{obj.name}")

    def access(self, arr, kind, where):
        if self.par is not None:
            self.acc.append((arr.name, arr.field, kind, where, self.par.t))

    def getattr(self, o, attr, tty):
        if isinstance(o, SymArr):
            if attr == "shape":
                return tuple(Sym(s, types.int64) for s in o.shape_terms)
            if attr == "size":
                t = o.shape_terms[0]
                for s in o.shape_terms[1:]:
                    t = t * s
                return Sym(t, types.int64)
            if attr == "dtype":
                return DType(o.dtype)
            if attr == "ndim":
                return o.ndim
        return super().getattr(o, attr, tty)

    def getitem(self, obj, idx, sig):
        if isinstance(obj, SymArr):
            if isinstance(idx, str):
                return SymArr(obj.name, obj.dtype.typeof(idx), obj.shape_terms, idx)
            if isinstance(idx, slice):
                if idx.step not in (None, 1, -1):
                    raise Unsupported("slice step in race mode")
                lo = 0 if idx.start is None else idx.start
                hi = Sym(obj.shape_terms[0], types.int64) if idx.stop is None else idx.stop
                return SymView(obj, lo, hi)
            key = idx if isinstance(idx, tuple) else (idx,)
            if len(key) < obj.ndim and not any(isinstance(k, slice) for k in key):
                return SymSub(obj, tuple(self.it(k) for k in key))
            if len(key) != obj.ndim:
                raise Unsupported("partial index in race mode")
            terms = tuple(self.it(k) for k in key)
            if isinstance(obj.dtype, types.Record) and obj.field is None:
                return SymRec(obj, terms)
            self.access(obj, "R", ("idx", terms))
            v = self.load_value(obj, terms)
            lc = self.load_constraints.get(obj.name)
            if lc is not None:
                self.cons.extend(lc(v.t))
            return v
        if isinstance(obj, SymRec):
            fa = SymArr(obj.arr.name, obj.arr.dtype.typeof(idx), obj.arr.shape_terms, idx)
            self.access(fa, "R", ("idx", obj.terms))
            return self.fresh(fa.dtype, f"ld_{fa.name}_{idx}")
        if isinstance(obj, SymView):
            if isinstance(idx, slice) and idx.start is None and idx.stop is None:
                return obj          # [::-1] or [:] : same element set
            raise Unsupported("index into view in race mode")
        if isinstance(obj, SymSub):
            if isinstance(idx, slice):
                if idx.start is None and idx.stop is None:
                    return obj
                raise Unsupported("slice of a sub-array in race mode")
            key = idx if isinstance(idx, tuple) else (idx,)
            terms = obj.prefix + tuple(self.it(k) for k in key)
            if len(terms) < obj.base.ndim:
                return SymSub(obj.base, terms)
            self.access(obj.base, "R", ("idx", terms))
            return self.fresh(obj.base.dtype, f"ld_{obj.base.name}")
        return super().getitem(obj, idx, sig)

    def setitem(self, obj, idx, v, vty):
        if isinstance(obj, SymArr):
            if isinstance(idx, slice):
                lo = 0 if idx.start is None else idx.start
                hi = Sym(obj.shape_terms[0], types.int64) if idx.stop is None else idx.stop
                self.access(obj, "W", ("range", self.it(lo), self.it(hi)))
                if isinstance(v, SymView):
                    self.access(v.base, "R", ("range", self.it(v.lo), self.it(v.hi)))
                return
            key = idx if isinstance(idx, tuple) else (idx,)
            terms = tuple(self.it(k) for k in key)
            self.access(obj, "W", ("idx", terms))
            return
        if isinstance(obj, SymRec):
            fa = SymArr(obj.arr.name, obj.arr.dtype.typeof(idx), obj.arr.shape_terms, idx)
            self.access(fa, "W", ("idx", obj.terms))
            return
        if isinstance(obj, SymSub):
            pre = [(t, t + 1) for t in obj.prefix]
            if isinstance(idx, slice):
                d = obj.base.shape_terms[len(obj.prefix)]
                lo = 0 if idx.start is None else idx.start
                hi = Sym(d, types.int64) if idx.stop is None else idx.stop
                self.access(obj.base, "W", ("box", tuple(pre + [(self.it(lo), self.it(hi))])))
                return
            key = idx if isinstance(idx, tuple) else (idx,)
            self.access(obj.base, "W", ("idx", obj.prefix + tuple(self.it(k) for k in key)))
            return
        if isinstance(obj, SymView):
            raise Unsupported("store through a view in race mode")
        return super().setitem(obj, idx, v, vty)

    def binop(self, fn, a, b, sig, where=""):
        fn2 = INPLACE.get(fn, fn)
        rt = _unlit(sig.return_type)
        if fn2 is operator.floordiv and isinstance(rt, types.Integer) and isinstance(b, Sym):
            # keep it linear-ish: q with  q*b <= a < (q+1)*b  (b > 0 assumed and recorded)
            q = self.freshi("q")
            x, y = self.term(a, rt), self.term(b, rt)
            self.cons += [y > 0, q * y <= x, x < (q + 1) * y]
            return Sym(q, rt)
        if fn2 is operator.mod and isinstance(rt, types.Integer) and isinstance(b, Sym):
            q, r = self.freshi("q"), self.freshi("r")
            x, y = self.term(a, rt), self.term(b, rt)
            self.cons += [y > 0, x == q * y + r, r >= 0, r < y]
            return Sym(r, rt)
        return super().binop(fn, a, b, sig, where)

    def truth(self, v):
        if isinstance(v, Sym):
            # data-dependent branch: explore both sides through the path explorer
            return super().truth(v)
        return bool(v)


class SymRec:
    def __init__(self, arr, terms):
        self.arr, self.terms = arr, terms


def _box(w):
    """per-dimension half-open interval of the leading dimensions an access fixes"""
    if w[0] == "idx":
        return [(t, t + 1) for t in w[1]]
    if w[0] == "range":
        return [(w[1], w[2])]
    return list(w[1])


def conflict_conditions(accA, accB):
    """pairs (write of A, any access of B) on the same array/field with overlapping elements"""
    out = []
    for (na, fa, ka, wa, pa) in accA:
        for (nb, fb, kb, wb, pb) in accB:
            if na != nb or (ka == "R" and kb == "R"):
                continue
            if fa is not None and fb is not None and fa != fb:
                continue
            ba, bb = _box(wa), _box(wb)
            # an access that fixes fewer leading dimensions covers every index of the remaining ones
            same = z3.And([z3.And(la < hb, lb < ha, la < ha, lb < hb) for (la, ha), (lb, hb) in zip(ba, bb)])
            out.append((na, fa or fb, ka + kb, z3.And(pa != pb, same)))
    return out
