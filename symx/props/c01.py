"""C01 - gulped reading delivers every requested sample exactly once, in order.

E2 on the real FilReader.read_plan (+ allocate_buffer, FileReader.seek/creadinto ...,
bits.unpack) over 1..3 symbolic raw files.  N, gulp, start, nsamps, skipback and the
per-file sample counts are unbounded integers; the number of blocks is bounded.
"""
from __future__ import annotations

import json

import z3

from ..core import Ctx, Inconclusive, SInt, explore
from ..fileshim import stream_elem, stream_unpacked
from ..stack import build_filreader, make_filreader

DT = {1: "u1", 2: "u1", 4: "u1", 8: "u1", 16: "u2", 32: "f4"}


class Rec:
    pass


def harness(st, nbits, nchans, nfiles, nsamps_none):
    def run(ctx):
        r, N, ns, files = make_filreader(ctx, st, nbits, nchans, nfiles)
        gulp, start, skip = z3.Int("gulp"), z3.Int("start"), z3.Int("skipback")
        ctx.assume(z3.And(gulp >= 1, start >= 0, skip >= 0))
        if nsamps_none:
            ctx.assume(start < N)
            nsamps = N - start
            arg_ns = None
        else:
            nsamps = z3.Int("nsamps")
            ctx.assume(z3.And(nsamps >= 1, start + nsamps <= N))
            arg_ns = SInt(nsamps)
        rec = Rec()
        rec.vars = dict(N=N, gulp=gulp, start=start, nsamps=nsamps, skip=skip, ns=ns, none=nsamps_none)
        rec.viol, rec.blocks, rec.err = [], [], None
        geff = z3.If(nsamps < gulp, nsamps, gulp)
        pos = start
        end = None
        j = z3.Int("j!sk")
        try:
            k = 0
            for nsr, ii, data in r.read_plan(gulp=SInt(gulp), start=SInt(start), nsamps=arg_ns, skipback=SInt(skip), quiet=True):
                nse = nsr.e if isinstance(nsr, SInt) else z3.IntVal(nsr)
                iie = ii.e if isinstance(ii, SInt) else z3.IntVal(ii)
                # obligations on this block, evaluated against the buffer content *now*
                q = pos * nchans + j
                want = stream_unpacked(nbits, q) if nbits < 8 else stream_elem(DT[nbits], q)
                rec.viol.append((f"blk{k}:index", iie != k))
                rec.viol.append((f"blk{k}:count=len/nchans", data.length != nse * nchans))
                rec.viol.append((f"blk{k}:1<=len<=gulp", z3.Or(nse < 1, nse > gulp)))
                rec.viol.append((f"blk{k}:inside-request", z3.Or(pos < start, pos + nse > start + nsamps)))
                if k > 0:
                    rec.viol.append((f"blk{k}:len>=skipback", nse < skip))
                rec.viol.append((f"blk{k}:values", z3.And(j >= 0, j < data.length, data.fn(j) != want)))
                rec.blocks.append(nse)
                end = pos + nse
                pos = end - skip
                k += 1
        except ValueError as e:
            rec.err = "ValueError"
            if rec.blocks:
                rec.viol.append(("raised-after-yield", z3.BoolVal(True)))
            rec.viol.append(("rejected-although-2*skipback<=gulp", 2 * skip <= geff))
            return rec
        except (IndexError, OSError, TypeError, RuntimeError, AttributeError, KeyError) as e:
            rec.err = type(e).__name__
            rec.viol.append((f"unexpected-{type(e).__name__}", z3.BoolVal(True)))
            return rec
        rec.viol.append(("accepted-although-skipback>=gulp", skip >= geff))
        if end is None:
            rec.viol.append(("accepted-plan-yielded-nothing", z3.BoolVal(True)))
        else:
            rec.viol.append(("last-block-ends-at-request-end", end != start + nsamps))
        return rec
    return run


def concretize(ctx, rec, nbits, nchans, extra=()):
    if ctx.check(*extra) != z3.sat:
        return None
    m = ctx.solver.model()
    ev = lambda t: m.eval(t, model_completion=True).as_long()
    v = rec.vars
    return dict(nbits=nbits, nchans=nchans, splits=[ev(n) for n in v["ns"]], gulp=ev(v["gulp"]), start=ev(v["start"]),
                nsamps=None if v["none"] else ev(v["nsamps"]), skipback=ev(v["skip"]), seed=1), m


def check_paths(R, results, nbits, nchans, label, budget):
    from ..concrete import c01 as conc
    reached = 0
    for ctx, rec in results:
        Ctx.cur = ctx
        conds = [c for _, c in rec.viol]
        reached += 1 if conds else 0
        if ctx.check(z3.Or(conds)) == z3.unsat:
            for name, _ in rec.viol:
                R.obligation(f"{label}/{name}", "holds", blocks=len(rec.blocks), outcome=rec.err or "ok")
        else:
            for name, c in rec.viol:
                if ctx.check(c) == z3.unsat:
                    R.obligation(f"{label}/{name}", "holds")
                    continue
                params, _ = concretize(ctx, rec, nbits, nchans, [c])
                src = ("import sys, json\nfrom symx.concrete import c01\n"
                       f"sys.exit(c01.main(json.loads({json.dumps(json.dumps(params))})))\n")
                R.violation(f"{label}-{name}".replace("/", "-").replace(":", "-"), f"{name} with {params}", src, model=params)
        if budget[0] > 0:
            cz = concretize(ctx, rec, nbits, nchans)
            if cz is not None:
                params, m = cz
                budget[0] -= 1
                out, bad = conc.run(params)
                exp = ("raise", rec.err, []) if rec.err else ("ok", [m.eval(b, model_completion=True).as_long() for b in rec.blocks])
                got = (out[0], out[1], []) if out[0] == "raise" else out
                if rec.err and out[0] == "raise":
                    got = ("raise", out[1], [])
                if tuple(got) != tuple(exp) and not bad:
                    R.inconclusive_(f"path witness disagrees with the real code on {label}: {params} symbolic={exp} real={out}")
                else:
                    R.validated()
        Ctx.cur = None
    return reached


def configs(tier):
    if tier == "quick":
        return [(8, 2), (1, 8), (2, 4), (4, 2), (16, 1), (32, 1)]
    return [(8, 1), (8, 2), (8, 3), (1, 8), (1, 16), (2, 4), (2, 8), (4, 2), (4, 4), (16, 1), (16, 2), (32, 1), (32, 2)]


def work(P, item):
    nbits, nchans, nfiles, none, nblocks, budget, deadline = item
    st = build_filreader()
    label = f"plan[nbits={nbits},nchans={nchans},files={nfiles},nsamps={'None' if none else 'sym'}]"
    bud = [budget]

    def on_path(ctx, rec):
        P.reached += check_paths(P, [(ctx, rec)], nbits, nchans, label, bud)
        return "stop" if len(P.cands) >= 2 else None
    try:
        explore(harness(st, nbits, nchans, nfiles, none), bound=nblocks, on_path=on_path, deadline_s=deadline, stats=P.stats)
    except Inconclusive as e:
        if not P.cands:
            raise
        P.extra["note"] = f"exploration stopped early ({e}) after candidate violations were found"


def run(R):
    build_filreader(R)
    quick = R.tier == "quick"
    nblocks = 3 if quick else 4
    R.bounds.update(dict(blocks=f"<= {nblocks} blocks per plan and initial quotient nsamps//(gulp-skipback) <= {nblocks} (other plans are cut and counted)",
                         files="1..3 files, per-file sample counts unbounded (>=0, total>=1)",
                         ints="N, gulp, start, nsamps, skipback unbounded integers; nsamps given or None",
                         configs=[f"nbits={b},nchans={c}" for b, c in configs(R.tier)]))
    R.assume("files hold whole samples (datalen_i = n_i * nchans*nbits/8)", "default allocator (bytearray)",
             "io.FileIO.readinto returns min(len, bytes left); no OS short reads",
             "bit kernels satisfy the C03 contract")
    R.out_of_claim(f"plans with more than {nblocks} blocks or nsamps//(gulp-skipback) > {nblocks}", "custom allocators",
                   "files that end in a partial sample", "paths deeper than 200 branch decisions (counted as cuts)")
    items = []
    for nbits, nchans in configs(R.tier):
        for nfiles in ((1, 2) if quick and nbits != 8 else (1, 2, 3)):
            for none in (False, True):
                if quick and none and nfiles > 1:
                    continue
                items.append((nbits, nchans, nfiles, none, nblocks if nfiles < 3 or not quick else 2, 3 if quick else 40, 150 if quick else 1500))
    parts = R.pmap(work, items)
    R.vacuity_witness("c01-plan", sum(p.reached for p in parts) > 0)
    # reachability twin: with the final assertion replaced by False some path must be violated
    st = build_filreader()
    res, stt = explore(harness(st, 8, 2, 1, False), bound=2)
    R.stats.add(stt)
    tw = 0
    for ctx, rec in res:
        Ctx.cur = ctx
        if rec.err is None and rec.blocks and ctx.check() == z3.sat:
            tw += 1
        Ctx.cur = None
    R.vacuity_witness("c01-plan-twin(assert False after last block)", tw > 0)
