"""C02 - a multi-file stream reads as the concatenation of its data sections.

E2 on the real FileBase/FileReader methods over symbolic raw files (unbounded
header and data lengths).  Two harness families:
  * inductive step: arbitrary valid pre-state (file i open, raw position inside its
    data section or at its end) + ONE operation with symbolic arguments;
  * unrolled histories from the freshly opened reader: seek(off,0) then k operations.
"""
from __future__ import annotations

import itertools
import json

import z3

from ..arrays import MV, SymBuf
from ..core import Ctx, Inconclusive, SInt, explore
from ..fileshim import FLD, FS, S, SymFile, stream_elem, stream_unpacked
from ..stack import build_fileio, make_files, make_reader

OPS = ("seek0", "seek1", "creadinto", "cread")
ITEMSIZE = {1: 1, 2: 1, 4: 1, 8: 1, 16: 2, 32: 4}
DT = {1: "u1", 2: "u1", 4: "u1", 8: "u1", 16: "u2", 32: "f4"}


class OpRec:
    def __init__(self):
        self.viol = []      # (name, z3 condition meaning "violated")
        self.outcomes = []  # per op: ("ok"/"raise", ...)
        self.ops = []       # (kind, arg term)


def do_op(ctx, st, r, kind, arg, p, T, nbits, rec, tag):
    """execute one real operation symbolically; returns new model position (or None = stop)"""
    bf = r.bitsinfo.bitfact
    isz = ITEMSIZE[nbits]
    a = arg
    rec.ops.append((kind, a))
    j = z3.Int(f"j!{tag}")
    try:
        if kind in ("seek0", "seek1"):
            new = a if kind == "seek0" else p + a
            inr = z3.And(new >= 0, new < T)
            try:
                r.seek(SInt(a), 0 if kind == "seek0" else 1)
            except ValueError:
                rec.outcomes.append(("raise", "ValueError"))
                rec.viol.append((f"{tag}:{kind}-rejected-in-range", inr))
                if r.ifile_cur is not None and p is not None:
                    rec.viol.append((f"{tag}:{kind}-rejected-but-moved", r.cur_data_pos_stream.e != p))
                return p
            rec.outcomes.append(("ok", r.cur_data_pos_stream.e))
            rec.viol.append((f"{tag}:{kind}-accepted-out-of-range", z3.Not(inr)))
            rec.viol.append((f"{tag}:{kind}-position", r.cur_data_pos_stream.e != new))
            return new
        if kind == "creadinto":
            buf = SymBuf(SInt(a))
            ub = SymBuf(SInt(a * bf)) if r.bitsinfo.unpack else None
            m = r.creadinto(buf, ub)
            m = m.e if isinstance(m, SInt) else z3.IntVal(m)
            exp = z3.If(a < T - p, a, T - p)
            rec.outcomes.append(("ok", m, r.cur_data_pos_stream.e))
            rec.viol.append((f"{tag}:creadinto-count", m != exp))
            rec.viol.append((f"{tag}:creadinto-bytes", z3.And(j >= 0, j < m, buf.fn(j) != S(p + j))))
            if ub is not None:
                rec.viol.append((f"{tag}:creadinto-unpacked", z3.And(j >= 0, j < m * bf, ub.fn(j) != stream_unpacked(nbits, p * bf + j))))
            rec.viol.append((f"{tag}:creadinto-position", r.cur_data_pos_stream.e != p + m))
            return p + m
        if kind == "cread":
            count = a / bf
            nb = count * isz
            fits = p + nb <= T
            try:
                data = r.cread(SInt(a))
            except ValueError:
                rec.outcomes.append(("raise", "ValueError"))
                rec.viol.append((f"{tag}:cread-raised-in-range", fits))
                return None
            rec.outcomes.append(("ok", data.length, r.cur_data_pos_stream.e))
            rec.viol.append((f"{tag}:cread-past-end-returned", z3.Not(fits)))
            rec.viol.append((f"{tag}:cread-length", data.length != count * bf))
            if r.bitsinfo.unpack:
                want = stream_unpacked(nbits, p * bf + j)
            else:
                want = stream_elem(DT[nbits], p / isz + j)
            rec.viol.append((f"{tag}:cread-values", z3.And(fits, j >= 0, j < data.length, data.fn(j) != want)))
            rec.viol.append((f"{tag}:cread-position", z3.And(fits, r.cur_data_pos_stream.e != p + nb)))
            return p + nb
    except (IndexError, OSError, TypeError, KeyError, AttributeError) as e:
        rec.outcomes.append(("raise", type(e).__name__))
        rec.viol.append((f"{tag}:{kind}-unexpected-{type(e).__name__}", z3.BoolVal(True)))
        return None
    raise RuntimeError(kind)


def arg_constraints(ctx, kind, a, isz):
    if kind in ("creadinto", "cread"):
        ctx.assume(a >= 0)
    if isz > 1:
        ctx.assume(a % isz == 0)


def harness_step(st, nbits, nfiles, ifile, kind):
    """arbitrary valid pre-state + one op"""
    isz = ITEMSIZE[nbits]

    def run(ctx):
        names, hl, dl, T = make_files(ctx, nfiles, itemsize=isz, min_data=1)
        r = make_reader(st, names, nbits)
        # install the pre-state directly: file `ifile` open at hdrlen + d
        d = z3.Int("d")
        ctx.assume(z3.And(d >= 0, d <= dl[ifile]))
        if isz > 1:
            ctx.assume(d % isz == 0)
        r._close_current()
        fo = SymFile(names[ifile], "r")
        fo.pos = hl[ifile] + d
        r.file_obj, r.ifile_cur = fo, ifile
        p = FS.files[names[ifile]].cum + d
        rec = OpRec()
        rec.pre = (ifile, d)
        # representation invariant: reported position == model position in the pre-state
        rec.viol.append(("pre:position", r.cur_data_pos_stream.e != p))
        a = z3.Int("a0")
        arg_constraints(ctx, kind, a, isz)
        do_op(ctx, st, r, kind, a, p, T, nbits, rec, "op0")
        rec.files = (hl, dl)
        return rec
    return run


def harness_hist(st, nbits, nfiles, kinds, min_data):
    isz = ITEMSIZE[nbits]

    def run(ctx):
        names, hl, dl, T = make_files(ctx, nfiles, itemsize=isz, min_data=min_data)
        ctx.assume(T >= 1)
        r = make_reader(st, names, nbits)
        rec = OpRec()
        rec.pre = None
        off = z3.Int("off")
        ctx.assume(z3.And(off >= 0, off < T))
        if isz > 1:
            ctx.assume(off % isz == 0)
        p = do_op(ctx, st, r, "seek0", off, None, T, nbits, rec, "init")
        for k, kind in enumerate(kinds):
            if p is None:
                break
            a = z3.Int(f"a{k}")
            arg_constraints(ctx, kind, a, isz)
            p = do_op(ctx, st, r, kind, a, p, T, nbits, rec, f"op{k}")
        rec.files = (hl, dl)
        return rec
    return run


def concretize(ctx, rec, nbits, extra=()):
    """model of (path condition /\\ extra) -> params for the concrete driver"""
    if ctx.check(*extra) != z3.sat:
        return None
    m = ctx.solver.model()
    ev = lambda t: m.eval(t, model_completion=True).as_long()
    hl, dl = rec.files
    files = [(ev(h), ev(d)) for h, d in zip(hl, dl)]
    ops = []
    if rec.pre is not None:
        i, d = rec.pre
        dv = ev(d)
        cum = sum(f[1] for f in files[:i])
        if dv < files[i][1]:
            ops.append(["seek0", cum + dv])
        else:  # end of file i: reach it by a read that stops exactly there
            ops.append(["seek0", cum + dv - 1])
            ops.append(["creadinto", 1])
    pre_ops = len(ops)
    for kind, a in rec.ops:
        ops.append([kind, ev(a)])
    return dict(nbits=nbits, files=files, ops=ops, pre_ops=pre_ops, seed=1)


def check_paths(R, results, nbits, label, validate_budget):
    from ..concrete import c02 as conc
    reached = 0
    for ctx, rec in results:
        Ctx.cur = ctx
        R.stats.paths += 0
        conds = [c for _, c in rec.viol]
        if conds:
            reached += 1
        anyv = z3.Or(conds) if conds else z3.BoolVal(False)
        if ctx.check(anyv) == z3.unsat:
            for name, _ in rec.viol:
                R.obligation(f"{label}/{name}", "holds", path=len(ctx.decisions))
        else:
            for name, c in rec.viol:
                if ctx.check(c) == z3.unsat:
                    R.obligation(f"{label}/{name}", "holds")
                    continue
                params = concretize(ctx, rec, nbits, [c])
                if nbits == 16 and params:
                    pass
                src = ("import sys, json\nfrom symx.concrete import c02\n"
                       f"sys.exit(c02.main(json.loads({json.dumps(json.dumps(params))})))\n")
                R.violation(f"{label}-{name}".replace("/", "-").replace(":", "-"), f"{name} with {params}", src, model=params)
        # path witness: a model of the path condition must behave the same way on the real library
        if validate_budget[0] > 0:
            params = concretize(ctx, rec, nbits)
            if params is not None:
                validate_budget[0] -= 1
                outcomes, bad = conc.run(params)
                m = ctx.solver.model()
                exp = [(o[0], o[1]) if o[0] == "raise" else (o[0],) + tuple(m.eval(t, model_completion=True).as_long() for t in o[1:]) for o in rec.outcomes]
                got = [tuple(o) for o in outcomes[params["pre_ops"]:]]
                if got != exp and not bad:
                    R.inconclusive_(f"path witness disagrees with the real code on {label}: params={params} symbolic={exp} real={got}")
                else:
                    R.validated()
        Ctx.cur = None
    return reached


def harness_readblock(st, nbits, nchans, nfiles):
    from ..stack import make_filreader

    def run(ctx):
        r, N, ns, files = make_filreader(ctx, st, nbits, nchans, nfiles)
        start, nsamps = z3.Int("start"), z3.Int("nsamps")
        ctx.assume(nsamps >= 1)
        inr = z3.And(start >= 0, start + nsamps <= N)
        rec = OpRec()
        rec.vars = dict(ns=ns, start=start, nsamps=nsamps)
        c, t = z3.Int("c!sk"), z3.Int("t!sk")
        try:
            blk = r.read_block(SInt(start), SInt(nsamps))
        except ValueError:
            rec.outcomes.append(("raise", "ValueError"))
            rec.viol.append(("read_block-rejected-in-range", inr))
            return rec
        except (IndexError, OSError, TypeError, AttributeError, KeyError) as e:
            rec.outcomes.append(("raise", type(e).__name__))
            rec.viol.append((f"read_block-unexpected-{type(e).__name__}", z3.BoolVal(True)))
            return rec
        d = blk.data
        rec.outcomes.append(("ok", d.rows, d.cols))
        rec.viol.append(("read_block-accepted-out-of-range", z3.Not(inr)))
        rec.viol.append(("read_block-shape", z3.Or(d.rows != nchans, d.cols != nsamps)))
        q = (start + t) * nchans + c
        want = stream_unpacked(nbits, q) if nbits < 8 else stream_elem(DT[nbits], q)
        rec.viol.append(("read_block-values", z3.And(inr, c >= 0, c < nchans, t >= 0, t < nsamps, d.fn(c, t) != want)))
        hn = blk.header.nsamples
        hn = hn.e if isinstance(hn, SInt) else z3.IntVal(hn)
        rec.viol.append(("read_block-header-nsamples", hn != nsamps))
        return rec
    return run


def check_rb(P, results, nbits, nchans, label, budget):
    from ..concrete import c01 as conc
    reached = 0
    for ctx, rec in results:
        Ctx.cur = ctx
        conds = [c for _, c in rec.viol]
        reached += 1
        def params(extra=()):
            if ctx.check(*extra) != z3.sat:
                return None, None
            m = ctx.solver.model()
            ev = lambda t: m.eval(t, model_completion=True).as_long()
            v = rec.vars
            return dict(nbits=nbits, nchans=nchans, splits=[ev(n) for n in v["ns"]], start=ev(v["start"]), nsamps=ev(v["nsamps"]), seed=1), m
        if ctx.check(z3.Or(conds)) == z3.unsat:
            for name, _ in rec.viol:
                P.obligation(f"{label}/{name}", "holds")
        else:
            for name, c in rec.viol:
                if ctx.check(c) == z3.unsat:
                    P.obligation(f"{label}/{name}", "holds")
                    continue
                pr, _ = params([c])
                src = ("import sys, json\nfrom symx.concrete import c01\n"
                       f"sys.exit(c01.main_block(json.loads({json.dumps(json.dumps(pr))})))\n")
                P.violation(f"{label}-{name}".replace("/", "-").replace(":", "-"), f"{name} with {pr}", src, model=pr)
        if budget[0] > 0:
            pr, m = params()
            if pr is not None:
                budget[0] -= 1
                out, bad = conc.run_block(pr)
                o = rec.outcomes[0]
                exp = (o[0], o[1]) if o[0] == "raise" else ("ok", [m.eval(x, model_completion=True).as_long() for x in o[1:]])
                if tuple(out) != tuple(exp) and not bad:
                    P.inconclusive_(f"path witness disagrees with the real code on {label}: {pr} symbolic={exp} real={out}")
                else:
                    P.validated()
        Ctx.cur = None
    return reached


def work(P, item):
    mode, nbits, nf, x, budget = item
    bud = [budget]
    deadline = 600

    def stream(h, checker, label, *extra):
        def on_path(ctx, rec):
            P.reached += checker(P, [(ctx, rec)], nbits, *extra, label, bud)
            return "stop" if len(P.cands) >= 2 else None
        try:
            explore(h, bound=4, on_path=on_path, deadline_s=deadline, stats=P.stats)
        except Inconclusive:
            if not P.cands:
                raise
    if mode == "readblock":
        from ..stack import build_filreader
        st = build_filreader()
        stream(harness_readblock(st, nbits, x, nf), check_rb, f"read_block[nbits={nbits},nchans={x},files={nf}]", x)
        return
    st = build_fileio()
    if mode == "step":
        for i in range(nf):
            for kind in OPS:
                stream(harness_step(st, nbits, nf, i, kind), check_paths, f"step[nbits={nbits},files={nf},i={i},{kind}]")
    else:
        for kinds in itertools.product(OPS, repeat=x):
            stream(harness_hist(st, nbits, nf, kinds, 0), check_paths, f"hist[nbits={nbits},files={nf},{'+'.join(kinds)}]")
            if len(P.cands) >= 2:
                break


def run(R):
    build_fileio(R)
    quick = R.tier == "quick"
    depths = (8, 2, 32) if quick else (8, 1, 2, 4, 16, 32)
    nfiles_step = (1, 2, 3)
    hist_len = 1 if quick else 3
    hist_files = (1, 2) if quick else (1, 2, 3)
    R.bounds.update(dict(files="1..3", hdrlen=">=0 unbounded", datalen=">=1 unbounded (inductive step), >=0 with total>=1 (histories)",
                         depths=list(depths), step="arbitrary valid pre-state (file i, 0<=d<=datalen_i) + 1 op, all 4 op kinds, all i",
                         histories=f"seek(off,0) + {hist_len} ops over all op kinds, files {list(hist_files)}",
                         args="offsets/counts unbounded integers (multiples of the item size for 16/32-bit)"))
    R.assume("raw files do not change on disk; io.FileIO.readinto returns min(len, bytes left) (no OS short reads)",
             "np.fromfile(count) returns min(count, items left); np.frombuffer/concatenate are raw views/copies",
             "bit kernels satisfy the C03 contract (unpacked[j] = field j%f of byte j//f)",
             "the stream is positioned by seek(off,0) before the first read (as every caller in the library does)",
             "16/32-bit: data lengths, offsets and counts are multiples of the item size")
    R.out_of_claim("zero-length files in the inductive step", "partial trailing items of 16/32-bit files",
                   "histories longer than the unrolled bound are covered only through the inductive step")
    items = []
    for nbits in depths:
        for nf in nfiles_step:
            items.append(("step", nbits, nf, 0, 2 if quick else 10))
    for nbits in depths:
        for nf in hist_files:
            items.append(("hist", nbits, nf, hist_len, 2 if quick else 10))
    from ..stack import build_filreader
    build_filreader(R)
    rb_cfg = [(8, 2), (2, 4), (32, 1)] if quick else [(8, 1), (8, 3), (1, 8), (2, 4), (4, 2), (16, 2), (32, 2)]
    for nbits, nchans in rb_cfg:
        for nf in (1, 2, 3):
            items.append(("readblock", nbits, nf, nchans, 3 if quick else 20))
    R.bounds["read_block"] = "start any integer, nsamps>=1 unbounded, N unbounded, 1..3 files, configs " + str(rb_cfg)
    R.out_of_claim("read_block with nsamps <= 0", "read_block(fch1=..., nchans=...) channel sub-selection (see C08)")
    parts = R.pmap(work, items)
    R.vacuity_witness("c02-step+hist", sum(p.reached for p in parts) > 0)
    # vacuity twin: the final assertion False must be violated (pre-conditions satisfiable, assertion reached)
    st = build_fileio()
    res, stt = explore(harness_hist(st, 8, 2, ("creadinto",), 0), bound=4)
    R.stats.add(stt)
    tw = 0
    for ctx, rec in res:
        Ctx.cur = ctx
        if ctx.check(z3.BoolVal(True)) == z3.sat:
            tw += 1
        Ctx.cur = None
    R.vacuity_witness("c02-hist-twin(assert False)", tw > 0)
