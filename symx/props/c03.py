"""C03 - bit packing / unpacking are exact inverses at every depth and bit order.

E1 (numba typed IR, 8/64-bit bit-vectors) on the 12 dispatched kernels: complete over byte
values, bounded in array length.  E2 on the real bits.unpack/bits.pack wrappers with
symbolic array/buffer sizes: argument validation, dispatch by name, buffer handling.
"""
from __future__ import annotations

import itertools
import json

import numpy as np
import z3

from ..arrays import FArr
from ..core import NumpyFallback, Ctx, SInt, explore, rebind
from ..nbsym import Interp, NArr, Sym, capture, from_narr, sym_array, to_narr

ORDERS = ("big", "little")


def field(b, nbits, order, k):
    """k-th sample of byte b (8-bit BV) by definition"""
    f = 8 // nbits
    pos = (f - 1 - k) if order == "big" else k
    return z3.ZeroExt(8 - nbits, z3.Extract(pos * nbits + nbits - 1, pos * nbits, b))


def kernel_obligations(P, nbits, order, L):
    from numba.core import types
    from sigpyproc.core import kernels
    f = 8 // nbits
    un = getattr(kernels, f"unpack{nbits}_8_{order}")
    pk = getattr(kernels, f"pack{nbits}_8_{order}")
    sig = un.nopython_signatures[0].args
    capu, capp = capture(un, sig), capture(pk, pk.nopython_signatures[0].args)
    u1 = types.uint8
    aty = sig[0]
    tag = f"{nbits}bit-{order}-L{L}"

    def solve(name, cons, bad, symbolic=True):
        s = z3.Solver()
        s.set("timeout", 60000)
        s.add(*cons)
        s.add(bad)
        P.stats.queries += 1
        r = s.check()
        P.stats.note_query(s.assertions(), r)
        if r == z3.unsat:
            P.obligation(f"{name}[{tag}]", "holds", symbolic=symbolic)
            return None
        if r == z3.unknown:
            P.inconclusive_(f"solver unknown on {name}[{tag}]")
            return None
        return s.model()

    # (1) unpack(b)[k] == field_k(b)  and < 2^nbits
    it = Interp(capu, "bv")
    a = sym_array(it, "b", aty, (L,))
    # output buffers hold arbitrary stale bytes before the call (a caller-supplied buffer): an element the kernel
    # does not write keeps its stale value and breaks the round trip
    u = sym_array(it, "staleu", aty, (L * f,))
    stale_u = [x.t for x in u.store]
    it.run([a, u])
    bs = [a.store[i].t for i in range(L)]
    bad = [u.store[i * f + k].t != field(bs[i], nbits, order, k) if isinstance(u.store[i * f + k], Sym) else z3.BoolVal(True)
           for i in range(L) for k in range(f)]
    if L:
        m = solve("unpack=bitfield-definition", [], z3.Or(bad))
        if m is not None:
            vals = [m.eval(b, model_completion=True).as_long() for b in bs]
            report(P, nbits, order, "unpack", vals, f"unpack{nbits}_8_{order} differs from the bit-field definition", stale=[m.eval(x, model_completion=True).as_long() for x in stale_u])
        # (2) pack(unpack(b)) == b
        it2 = Interp(capp, "bv")
        p = sym_array(it2, "stalep", aty, (L,))
        stale_p = [x.t for x in p.store]
        src = NArr(u1, (L * f,), name="array")
        src.store = list(u.store)
        it2.run([src, p])
        m = solve("pack(unpack(b))=b", [], z3.Or([p.store[i].t != bs[i] if isinstance(p.store[i], Sym) else z3.BoolVal(True) for i in range(L)]))
        if m is not None:
            vals = [m.eval(b, model_completion=True).as_long() for b in bs]
            report(P, nbits, order, "pack-unpack", vals, "pack(unpack(b)) != b", stale=[m.eval(x, model_completion=True).as_long() for x in stale_p])
        # (3) unpack(pack(v)) == v for in-range v; pack(v) bytes by definition
        it3 = Interp(capp, "bv")
        v = sym_array(it3, "v", aty, (L * f,))
        vs = [v.store[i].t for i in range(L * f)]
        p2 = sym_array(it3, "stalep2", aty, (L,))
        stale_p2 = [x.t for x in p2.store]
        it3.run([v, p2])
        it4 = Interp(capu, "bv")
        u2 = sym_array(it4, "staleu2", aty, (L * f,))
        src2 = NArr(u1, (L,), name="array")
        src2.store = list(p2.store)
        it4.run([src2, u2])
        inr = [z3.ULT(x, 1 << nbits) for x in vs]
        m = solve("unpack(pack(v))=v", inr, z3.Or([u2.store[i].t != vs[i] if isinstance(u2.store[i], Sym) else z3.BoolVal(True) for i in range(L * f)]))
        if m is not None:
            vals = [m.eval(x, model_completion=True).as_long() for x in vs]
            report(P, nbits, order, "unpack-pack", vals, "unpack(pack(v)) != v for in-range samples", stale=[m.eval(x, model_completion=True).as_long() for x in stale_p2])
    else:
        # length 0: both kernels must run without touching anything
        it2 = Interp(capp, "bv")
        it2.run([NArr(u1, (0,), name="array"), NArr(u1, (0,), name="packed")])
        P.stats.queries += 1
        P.obligation(f"empty-arrays[{tag}]", "holds", symbolic=False)
    P.reached += 1


def report(P, nbits, order, kind, vals, desc, stale=None):
    params = dict(nbits=nbits, order=order, kind=kind, vals=vals, stale=stale)
    src = ("import sys, json\nfrom symx.concrete import c03\n"
           f"sys.exit(c03.main(json.loads({json.dumps(json.dumps(params))})))\n")
    P.violation(f"kernel-{nbits}bit-{order}-{kind}", f"{desc}: {params}", src, model=params)


def validate_encoder(P, nbits, order):
    """interpreter with concrete inputs must agree with the compiled kernel on all 256 byte values"""
    from sigpyproc.core import kernels
    f = 8 // nbits
    un = getattr(kernels, f"unpack{nbits}_8_{order}")
    pk = getattr(kernels, f"pack{nbits}_8_{order}")
    allb = np.arange(256, dtype=np.uint8)
    ref = np.zeros(256 * f, np.uint8)
    un(allb, ref)
    it = Interp(capture(un, un.nopython_signatures[0].args), "int", uninit="forbid")
    a, u = to_narr(allb, "array"), to_narr(np.zeros(256 * f, np.uint8), "unpacked")
    it.run([a, u])
    ok1 = bool((from_narr(u, np.uint8) == ref).all())
    back = np.zeros(256, np.uint8)
    pk(ref, back)
    it = Interp(capture(pk, pk.nopython_signatures[0].args), "int", uninit="forbid")
    a, p = to_narr(ref, "array"), to_narr(np.zeros(256, np.uint8), "packed")
    it.run([a, p])
    ok2 = bool((from_narr(p, np.uint8) == back).all())
    if not (ok1 and ok2):
        P.inconclusive_(f"encoder validation failed for {nbits}-bit {order}: interpreter disagrees with the compiled kernel")
    return dict(kernel=f"{nbits}bit-{order}", unpack_256_bytes=ok1, pack_256_bytes=ok2)


# ------------------------------------------------------------------ wrappers (E2)

class KRec:
    """kernels stand-in: records which kernel the wrapper dispatched to"""

    def __init__(self):
        self.calls = []

    def __getattr__(self, name):
        def k(a, b, name=name):
            self.calls.append((name, a, b))
        return k


class NPw(metaclass=NumpyFallback):
    uint8 = np.uint8

    @staticmethod
    def zeros(shape=None, dtype=None, **kw):
        shape = kw.get("shape", shape)
        a = FArr(shape, lambda j: z3.IntVal(0), dtype, name="allocated")
        a.allocated = True
        return a


DTYPES = ("u1", "u2", "f4", "i8")
NBITS = (1, 2, 4, 0, 3, 8, 16, 32)
BITORDERS = ("big", "little", "b", "l", "bogus", "x", "", "Big")


def wrapper_harness(which, nbits, order, dt, with_buf):
    from sigpyproc.io import bits
    fn = rebind(getattr(bits, which), np=NPw, kernels=None)

    def run(ctx):
        kr = KRec()
        fn.__globals__["kernels"] = kr
        n, m = z3.Int("n"), z3.Int("m")
        ctx.assume(z3.And(n >= 0, m >= 0))
        arr = FArr(n, lambda j: z3.Int("x"), dt, name="array")
        buf = FArr(m, lambda j: z3.Int("y"), "u1", name="buffer") if with_buf else None
        out = dict(n=n, m=m, viol=[], raised=None, calls=kr.calls)
        valid_args = dt == "u1" and nbits in (1, 2, 4) and bool(order) and order[0] in ("b", "l")
        f = 8 // nbits if nbits in (1, 2, 4) else 1
        size_ok = z3.BoolVal(True)
        if with_buf:
            size_ok = (m == n * f) if which == "unpack" else (m == n / f)
        try:
            r = fn(arr, nbits, buf, bitorder=order)
        except ValueError:
            out["raised"] = "ValueError"
            out["viol"].append(("rejected-valid-arguments", z3.And(z3.BoolVal(valid_args), size_ok)))
            if kr.calls:
                out["viol"].append(("kernel-ran-before-rejection", z3.BoolVal(True)))
            return out
        except (TypeError, AttributeError, IndexError, KeyError) as e:
            out["raised"] = type(e).__name__
            out["viol"].append((f"unexpected-{type(e).__name__}", z3.BoolVal(True)))
            return out
        out["viol"].append(("accepted-invalid-arguments", z3.Not(z3.And(z3.BoolVal(valid_args), size_ok))))
        if valid_args:
            want = f"{which}{nbits}_8_{'big' if order[0] == 'b' else 'little'}"
            ok_call = len(kr.calls) == 1 and kr.calls[0][0] == want and kr.calls[0][1] is arr
            out["viol"].append(("dispatch-by-name", z3.BoolVal(not ok_call)))
            if ok_call:
                tgt = kr.calls[0][2]
                if with_buf:
                    out["viol"].append(("result-is-caller-buffer", z3.BoolVal(not (tgt is buf and r is buf))))
                else:
                    exp = n * f if which == "unpack" else n / f
                    out["viol"].append(("allocated-buffer-size", z3.Or(tgt.length != exp, z3.BoolVal(r is not tgt))))
                    out["viol"].append(("allocated-buffer-dtype", z3.BoolVal(tgt.dt != "u1")))
        return out
    return run


def wrapper_work(P, item):
    which, nbits, order, dt, with_buf = item
    res, stt = explore(wrapper_harness(which, nbits, order, dt, with_buf), bound=3)
    label = f"{which}[nbits={nbits},bitorder={order!r},dtype={dt},buffer={'given' if with_buf else 'None'}]"
    for ctx, out in res:
        Ctx.cur = ctx
        P.reached += 1
        for name, c in out["viol"]:
            if ctx.check(c) == z3.unsat:
                P.obligation(f"{label}/{name}", "holds", symbolic=True)
                continue
            m = ctx.solver.model()
            ev = lambda t: m.eval(t, model_completion=True).as_long()
            params = dict(kind="wrapper", which=which, nbits=nbits, order=order, dtype=dt, n=ev(out["n"]),
                          m=ev(out["m"]) if with_buf else None)
            src = ("import sys, json\nfrom symx.concrete import c03\n"
                   f"sys.exit(c03.main(json.loads({json.dumps(json.dumps(params))})))\n")
            P.violation(f"wrapper-{which}-{nbits}-{order}-{dt}-{int(with_buf)}-{name}", f"{name}: {params}", src, model=params)
        Ctx.cur = None
    P.stats.add(stt)


def kernel_work(P, item):
    nbits, order, L = item
    kernel_obligations(P, nbits, order, L)


def run(R):
    from sigpyproc.core import kernels
    from sigpyproc.io import bits
    quick = R.tier == "quick"
    maxL = 3 if quick else 6
    for nb in (1, 2, 4):
        for o in ORDERS:
            R.encode(getattr(kernels, f"unpack{nb}_8_{o}"), getattr(kernels, f"pack{nb}_8_{o}"))
    R.encode(bits.unpack, bits.pack)
    R.bounds.update(dict(kernels="all byte values / all field tuples (8-bit bit-vectors), array lengths 0.." + str(maxL),
                         wrappers="array size n and buffer size m unbounded integers; nbits in " + str(NBITS) + "; bitorder in " + str(BITORDERS) +
                                  "; dtypes " + str(DTYPES) + "; buffer given / None"))
    R.assume("numba compiles the typed IR it reports (typing of every operation taken from numba's own pipeline)",
             "wrapper harness: kernels replaced by a recorder; np.zeros allocates exactly the requested size")
    R.out_of_claim(f"array lengths > {maxL} for the kernels (loop bodies are position independent but this is not proved)",
                   "pack of out-of-range samples (>= 2^nbits)", "non-contiguous arrays (rejected by the numba signature)")
    # encoder validation (every run)
    for nb in (1, 2, 4):
        for o in ORDERS:
            try:
                ev_ = validate_encoder(R, nb, o)
            except Exception as e:  # noqa: BLE001 - e.g. the kernel's result is not determined by its inputs
                R.inconclusive_(f"encoder validation of the {nb}-bit {o} kernels could not be completed: {type(e).__name__}: {e}")
                ev_ = dict(kernel=f"{nb}bit-{o}", unpack_256_bytes=False, pack_256_bytes=False)
            R.encoder_validation.append(ev_)
            if ev_["unpack_256_bytes"] and ev_["pack_256_bytes"]:
                R.validated(2)
    items = [(nb, o, L) for nb in (1, 2, 4) for o in ORDERS for L in range(0, maxL + 1)]
    parts = R.pmap(kernel_work, items)
    witems = []
    for which in ("unpack", "pack"):
        for nbits in NBITS:
            for order in BITORDERS:
                for dt in DTYPES:
                    for wb in (False, True):
                        if quick and (dt not in ("u1", "u2") or order in ("Big", "x")) and nbits not in (1, 2, 4):
                            continue
                        witems.append((which, nbits, order, dt, wb))
    parts += R.pmap(wrapper_work, witems)
    # BitsInfo defaults
    bi = {nb: bits.BitsInfo(nb) for nb in (1, 2, 4)}
    okd = bi[1].bitorder == "little" and bi[2].bitorder == "big" and bi[4].bitorder == "big" and all(bi[nb].bitfact == 8 // nb and bi[nb].unpack for nb in bi)
    R.stats.queries += 1
    if okd:
        R.obligation("BitsInfo-default-bitorder", "holds", symbolic=False)
    else:
        src = ("import sys\nfrom sigpyproc.io.bits import BitsInfo\nok = (BitsInfo(1).bitorder, BitsInfo(2).bitorder, BitsInfo(4).bitorder) == ('little', 'big', 'big')\n"
               "print('default bit orders ok' if ok else 'MISMATCH: default bit order per depth is not little/big/big')\nsys.exit(0 if ok else 1)\n")
        R.violation("bitsinfo-defaults", "default bit order per depth changed", src)
    R.vacuity_witness("c03", sum(p.reached for p in parts) > 0)
    # reachability twin: the negated *false* claim "unpack2_big(b)[0] == b" must be satisfiable
    from numba.core import types
    un = kernels.unpack2_8_big
    it = Interp(capture(un, un.nopython_signatures[0].args), "bv")
    a = sym_array(it, "b", un.nopython_signatures[0].args[0], (1,))
    u = NArr(types.uint8, (4,), name="unpacked")
    u.store = [0] * 4
    it.run([a, u])
    s = z3.Solver()
    s.add(u.store[0].t != a.store[0].t)
    R.stats.queries += 1
    R.vacuity_witness("c03-twin(unpack(b)[0]==b must fail)", s.check() == z3.sat)
