"""C04 - what is written is what is read back, for every format and sample depth.

E2 byte accounting on the real FileWriter.cwrite / Header.prep_outfile / TimeSeries.to_tim,to_dat,
from_tim,from_dat / FourierSeries.to_spec,to_fft,from_spec,from_fft / FilterbankBlock.to_file /
Filterbank.requantize bytecode over a symbolic write log: arrays carry a dtype tag, sample counts
and header lengths are unbounded integers, and the reader's window is mapped back onto the bytes
that were written."""
from __future__ import annotations

import json

import numpy as np
import z3

from ..arrays import FArr, F2, _dt, np_dtype
from ..core import NumpyFallback, Ctx, Inconclusive, SBool, SInt, SReal, Unsupported, explore, rebind, s_int, term
from ..fileshim import FS, SymFile
from ..stack import build_fileio
from ..stream import HdrBytes, StreamHeader, SigprocStub

IntS, RealS = z3.IntSort(), z3.RealSort()
DTYPE_OF = {1: "u1", 2: "u1", 4: "u1", 8: "u1", 16: "u2", 32: "f4"}
SIZE = {"u1": 1, "u2": 2, "f4": 4, "f8": 8, "i8": 8, "i4": 4}


class CArr:
    """complex64 array: (re, im) closures"""

    def __init__(self, n, re, im):
        self.length, self.re, self.im = term(n), re, im
        self.ndim, self.dt = 1, "c8"

    @property
    def size(self):
        return SInt(self.length)

    def view(self, dt):
        if _dt(dt) != "f4":
            raise Unsupported("complex view")
        re, im = self.re, self.im
        return FArr(self.length * 2, lambda j: z3.If(j % 2 == 0, re(j / 2), im(j / 2)), "f4", "cview")


def farr_view(self, dt):
    try:
        tag = _dt(dt)
    except Exception:  # complex64
        tag = "c8" if np.dtype(dt) == np.complex64 else None
    if tag == self.dt:
        return self
    if tag == "c8" and self.dt == "f4":
        f = self.fn
        return CArr(self.length / 2, lambda k: f(2 * k), lambda k: f(2 * k + 1))
    raise Unsupported("view dtype change")


def file_bytes(name):
    """byte model of a written file: (total bytes term, segments [(start, nbytes, kind, obj)])"""
    segs, pos = [], z3.IntVal(0)
    for kind, obj in FS.written.get(name, []):
        if kind == "bytes":
            n = obj.length if isinstance(obj, HdrBytes) else z3.IntVal(len(obj))
        else:
            pf = getattr(obj, "packed_from", None)
            n = obj.length * SIZE[obj.dt]
        segs.append((pos, n, kind, obj))
        pos = pos + n
    return z3.simplify(pos), segs


class NPread(metaclass=NumpyFallback):
    """np.fromfile(path, dtype, offset) over the byte model (trusted stub)"""
    float32, complex64 = np.float32, np.complex64

    @staticmethod
    def fromfile(path, dtype=None, offset=0, count=-1):
        name = path if isinstance(path, str) else path.as_posix()
        total, segs = file_bytes(name)
        tag = _dt(dtype)
        s = SIZE[tag]
        off = term(offset)
        n = z3.simplify(z3.If(total > off, (total - off) / s, z3.IntVal(0)))
        Ctx.cur.nfresh += 1
        G = z3.Function(f"reinterpreted!{Ctx.cur.nfresh}", IntS, RealS if tag in ("f4", "f8") else IntS)

        def fn(j):
            q = off + j * s
            r = G(j)
            for start, nb, kind, obj in reversed(segs):
                if kind != "arr" or obj.dt != tag:
                    continue
                inside = z3.And(q >= start, q + s <= start + nb, (q - start) % s == 0)
                r = z3.If(inside, obj.fn((q - start) / s), r)
            return r
        return FArr(n, fn, tag, "fromfile")


class RecObj:
    def __init__(self, data, header):
        self.data, self.header = data, header


class PathStub:
    def __init__(self, name):
        self.name = name

    def as_posix(self):
        return self.name

    def with_suffix(self, s):
        return PathStub(self.name.rsplit(".", 1)[0] + s)


def setup(ctx, st):
    FS.reset()
    StreamHeader.prep_outfile = rebind(__import__("sigpyproc.header", fromlist=["Header"]).Header.prep_outfile, FileWriter=st["FileWriter"], sigproc=SigprocStub)
    StreamHeader.make_inf = lambda self, outfile=None: None
    orig_tofile, orig_view = FArr.tofile, FArr.view

    def tofile(self, f):
        if isinstance(f, str):
            frozen = FArr(self.length, self.snapshot(), self.dt, self.name)
            FS.written[f] = [("arr", frozen)]
        else:
            orig_tofile(self, f)
    FArr.tofile, FArr.view = tofile, farr_view
    return orig_tofile, orig_view


def restore(o):
    FArr.tofile, FArr.view = o


def header_of(name):
    """what a SIGPROC reader learns from the file: the header object that was encoded + its length"""
    tr = FS.written.get(name, [])
    if tr and tr[0][0] == "bytes" and isinstance(tr[0][1], HdrBytes):
        hb = tr[0][1]

        class E:
            hdrlen = SInt(hb.length)

        class SI:
            entries = [E()]
        h = hb.hdr
        h.stream_info = SI()
        return h
    return None


def fmt_harness(st, fmt):
    from sigpyproc import fourierseries, timeseries, block

    def run(ctx):
        o = setup(ctx, st)
        try:
            n = z3.Int("n")
            ctx.assume(n >= 1)
            X = z3.Function("X", IntS, RealS)
            Y = z3.Function("Y", IntS, RealS)
            hdr = StreamHeader(1, SInt(n), 8)
            out = dict(n=n, viol=[], err=None, fmt=fmt)
            k = z3.Int("k!sk")

            def read_sub():
                return dict(np=NPread, validate_path=lambda p, **kw: PathStub(p) if isinstance(p, str) else p,
                            Header=type("H", (), {"from_sigproc": staticmethod(lambda f, **kw: header_of(f if isinstance(f, str) else f.as_posix())),
                                                  "from_inffile": staticmethod(lambda f: StreamHeader(1, SInt(z3.IntVal(0)), 32))}))
            try:
                if fmt in ("tim", "dat"):
                    ts = RecObj(FArr(n, lambda j: X(j), "f4", "tim"), hdr)
                    if fmt == "tim":
                        name = rebind(timeseries.TimeSeries.to_tim)(ts, "o.tim")
                        back = rebind(timeseries.TimeSeries.from_tim.__func__, **read_sub())(RecObj, name)
                    else:
                        name = rebind(timeseries.TimeSeries.to_dat, FileWriter=st["FileWriter"])(ts, "o")
                        back = rebind(timeseries.TimeSeries.from_dat.__func__, **read_sub())(RecObj, name)
                    d = back.data
                    out["viol"].append(("samples read = samples written", d.length != n))
                    out["viol"].append(("values identical, same order", z3.And(k >= 0, k < n, d.fn(k) != X(k))))
                    hn = back.header.updates.get("nsamples") if getattr(back.header, "updates", None) and "nsamples" in back.header.updates else None
                    if hn is not None:
                        out["viol"].append(("reader's nsamples = samples written", term(hn) != n))
                    if fmt == "tim":
                        out["viol"].append(("file declares 32-bit samples", term(back.header.nbits) != 32))
                elif fmt in ("spec", "fft"):
                    fs = RecObj(CArr(n, lambda j: X(j), lambda j: Y(j)), hdr)
                    if fmt == "spec":
                        name = rebind(fourierseries.FourierSeries.to_spec)(fs, "o.spec")
                        back = rebind(fourierseries.FourierSeries.from_spec.__func__, **read_sub())(RecObj, name)
                    else:
                        name = rebind(fourierseries.FourierSeries.to_fft)(fs, "o")
                        back = rebind(fourierseries.FourierSeries.from_fft.__func__, **read_sub())(RecObj, name)
                    d = back.data
                    if not isinstance(d, CArr):
                        out["viol"].append(("reader returns complex bins", z3.BoolVal(True)))
                    else:
                        out["viol"].append(("bins read = bins written", d.length != n))
                        out["viol"].append(("real and imaginary parts identical, same order", z3.And(k >= 0, k < n, z3.Or(d.re(k) != X(k), d.im(k) != Y(k)))))
                elif fmt == "block":
                    C = 3
                    XX = z3.Function("XX", IntS, IntS, RealS)
                    blk = RecObj(F2(C, n, lambda c, t: XX(c, t), "f4"), StreamHeader(C, SInt(n), 8))
                    name = rebind(block.FilterbankBlock.to_file)(blk, "o.fil")
                    h = header_of(name)
                    total, segs = file_bytes(name)
                    out["viol"].append(("header declares 32-bit samples", z3.BoolVal(h is None) if h is None else term(h.nbits) != 32))
                    arrs = [s for s in segs if s[2] == "arr"]
                    out["viol"].append(("one header then float32 data of nsamps*nchans samples", z3.BoolVal(len(segs) != 2 or len(arrs) != 1) if (len(segs) != 2 or len(arrs) != 1) else z3.Or(arrs[0][3].length != C * n, z3.BoolVal(arrs[0][3].dt != "f4"))))
                    if len(arrs) == 1:
                        t, c = z3.Int("t!sk"), z3.Int("c!sk")
                        out["viol"].append(("time-major order: element t*nchans+c = data[c,t]", z3.And(t >= 0, t < n, c >= 0, c < C, arrs[0][3].fn(t * C + c) != XX(c, t))))
            except (ValueError, TypeError, AttributeError, KeyError, IndexError) as e:
                out["err"] = f"{type(e).__name__}: {e}"
                out["viol"].append((f"round trip raised {type(e).__name__}", z3.BoolVal(True)))
            return out
        finally:
            restore(o)
    return run


def cwrite_harness(st, nbits, dt, nchans):
    def run(ctx):
        o = setup(ctx, st)
        try:
            n = z3.Int("nsamps")
            ctx.assume(n >= 1)
            ne = n * nchans
            isint = dt not in ("f4", "f8")
            V = z3.Function("V", IntS, IntS if isint else RealS)
            arr = FArr(ne, lambda j: V(j), dt, "data")
            hdr = StreamHeader(nchans, SInt(n), 8)
            out = dict(n=n, viol=[], err=None)
            try:
                # history: an earlier, unrelated depth-changing write from another header must leave no trace
                w0 = StreamHeader(2, SInt(z3.IntVal(4)), 8).prep_outfile("pre.fil", nbits=16 if nbits != 16 else 32)
                w0.close()
            except Exception:  # noqa: BLE001
                pass
            try:
                w = hdr.prep_outfile("o.fil", nbits=nbits)
                w.cwrite(arr)
                w.close()
            except ValueError as e:
                out["err"] = "ValueError"
                # refused: nothing but the header may be in the file
                tr = FS.written.get("o.fil", [])
                out["viol"].append(("refused write left no data behind", z3.BoolVal(any(kd == "arr" for kd, _ in tr))))
                return out
            total, segs = file_bytes("o.fil")
            h = header_of("o.fil")
            arrs = [s for s in segs if s[2] == "arr"]
            out["viol"].append(("header declares the depth written", z3.BoolVal(True) if h is None else term(h.nbits) != nbits))
            if len(arrs) != 1:
                out["viol"].append(("exactly one data write", z3.BoolVal(True)))
                return out
            start, nb, _, fa = arrs[0]
            out["viol"].append(("bytes*8 = samples*nchans*nbits", nb * 8 != ne * nbits))
            k = z3.Int("k!sk")
            if nbits < 8:
                pf = getattr(fa, "packed_from", None)
                out["viol"].append(("packed at the declared depth", z3.BoolVal(pf is None or pf[1] != 8 // nbits)))
                out["viol"].append(("packed in the bit order the readers unpack this depth with", z3.BoolVal(pf is None or not z3.eq(z3.simplify(pf[2]), z3.IntVal(nbits)))))
                if pf is not None:
                    out["viol"].append(("packed samples are the data, same order", z3.And(k >= 0, k < ne, pf[0](k) != V(k))))
            else:
                out["viol"].append(("item type = declared depth", z3.BoolVal(fa.dt != DTYPE_OF[nbits])))
                got = fa.fn(k)
                want = V(k)
                if got.sort() != want.sort():
                    want = z3.ToReal(want) if want.sort() == IntS else want
                    got = z3.ToReal(got) if got.sort() == IntS else got
                # values representable at the declared depth read back identically
                rep = z3.BoolVal(True)
                if not isint and DTYPE_OF[nbits] != "f4":
                    rep = V(k) == z3.ToReal(z3.ToInt(V(k)))
                out["viol"].append(("representable values stored unchanged, same order", z3.And(k >= 0, k < ne, rep, got != want)))
            # the reader's sample count: the real parse_header arithmetic on a file with this data length
            from .c20 import FakePath, HybridFile
            from ..concrete.sigfile import header_bytes
            from sigpyproc.io import sigproc
            ph = rebind(sigproc.parse_header, validate_path=lambda fn: FakePath(HybridFile(header_bytes(nchans, nbits), nb)), int=s_int)
            out["viol"].append(("inferred nsamples (real parse_header) = samples written", term(ph("o.fil")["nsamples"]) != n))
            return out
        finally:
            restore(o)
    return run


def requantize_harness(st2, nbits_in, nbits_out, nchans):
    from ..stream import make_fil

    def run(ctx):
        o = setup(ctx, st2)
        try:
            r, N, ns = make_fil(ctx, st2, nbits_in, nchans, 1)
            gulp = z3.Int("gulp")
            ctx.assume(gulp >= 1)
            out = dict(n=N, viol=[], err=None)
            try:
                r.requantize(nbits_out, outfile_name="q.fil", gulp=SInt(gulp), quiet=True)
            except ValueError:
                out["err"] = "ValueError"
                tr = FS.written.get("q.fil", [])
                out["viol"].append(("refused requantisation wrote no data", z3.BoolVal(any(kd == "arr" for kd, _ in tr))))
                return out
            total, segs = file_bytes("q.fil")
            data_bytes = z3.Sum([s[1] for s in segs if s[2] == "arr"] or [z3.IntVal(0)])
            h = header_of("q.fil")
            out["viol"].append(("header declares nbits_out", z3.BoolVal(True) if h is None else term(h.nbits) != nbits_out))
            out["viol"].append(("data section = nsamples*nchans*nbits_out/8 bytes", data_bytes * 8 != N * nchans * nbits_out))
            for s in segs:
                if s[2] == "arr" and nbits_out >= 8:
                    out["viol"].append(("item type = declared depth", z3.BoolVal(s[3].dt != DTYPE_OF[nbits_out])))
            return out
        finally:
            restore(o)
    return run


def work(P, item):
    kind = item[0]
    if kind == "fmt":
        st = build_fileio()
        h, label, bound = fmt_harness(st, item[1]), f"roundtrip[{item[1]}]", 2
    elif kind == "cwrite":
        st = build_fileio()
        h, label, bound = cwrite_harness(st, item[1], item[2], item[3]), f"cwrite[nbits={item[1]},dtype={item[2]},nchans={item[3]}]", 2
    else:
        from ..stream import build_stream
        st = build_stream()
        h, label, bound = requantize_harness(st, item[1], item[2], item[3]), f"requantize[{item[1]}->{item[2]} bits,nchans={item[3]}]", 3

    wit = [2]

    def on_path(ctx, o):
        Ctx.cur = ctx
        P.reached += 1
        allhold = True
        for n_, c in o["viol"]:
            if ctx.check(c) == z3.unsat:
                P.obligation(f"{label}/{n_}", "holds", outcome=o["err"] or "ok")
                continue
            allhold = False
            m = ctx.solver.model()
            nv = m.eval(o["n"], model_completion=True).as_long()
            params = dict(kind=kind, item=list(item[1:]), n=nv)
            src = ("import sys, json\nfrom symx.concrete import c04\n"
                   f"sys.exit(c04.main(json.loads({json.dumps(json.dumps(params))})))\n")
            P.violation(f"{label}-{n_[:30]}".replace(" ", "_").replace("[", "_").replace("]", "_").replace(",", "_").replace("=", "").replace(">", "").replace("*", "x").replace("/", "-"), f"{label}: {n_} (n={nv}; {o['err']})", src, model=params)
            break
        if allhold and wit[0] > 0 and ctx.check() == z3.sat:
            wit[0] -= 1
            nv = ctx.solver.model().eval(o["n"], model_completion=True).as_long()
            if nv <= 64:
                P.witness("c04", dict(kind=kind, item=list(item[1:]), n=nv), f"{label}-witness-{nv}".replace(" ", "_").replace("[", "_").replace("]", "_").replace(",", "_").replace("=", "").replace(">", ""), label)
        Ctx.cur = None
        return "stop" if len(P.cands) >= 2 else None
    try:
        explore(h, bound=bound, on_path=on_path, stats=P.stats, deadline_s=300)
    except Inconclusive:
        if not P.cands:
            raise


def batch(P, items):
    for it in items:
        work(P, it)


def run(R):
    from sigpyproc import base, block, fourierseries, header, timeseries
    from sigpyproc.io import fileio
    build_fileio(R)
    from sigpyproc.io import sigproc as _sp
    R.encode(_sp.parse_header)
    R.encode(fileio.FileWriter.cwrite, header.Header.prep_outfile, timeseries.TimeSeries.to_tim, timeseries.TimeSeries.to_dat,
             timeseries.TimeSeries.from_tim.__func__, timeseries.TimeSeries.from_dat.__func__, fourierseries.FourierSeries.to_spec,
             fourierseries.FourierSeries.to_fft, fourierseries.FourierSeries.from_spec.__func__, fourierseries.FourierSeries.from_fft.__func__,
             block.FilterbankBlock.to_file, base.Filterbank.requantize)
    quick = R.tier == "quick"
    items = [("fmt", f) for f in ("tim", "dat", "spec", "fft", "block")]
    for nbits in (1, 2, 4, 8, 16, 32):
        for dt in ("u1", "u2", "i8", "f4", "f8"):
            for nchans in ((8,) if quick else (8, 16)):
                items.append(("cwrite", nbits, dt, nchans))
    for a, b in ((8, 32), (32, 8), (8, 2), (2, 8), (32, 2), (8, 16)) if not quick else ((8, 32), (32, 8), (8, 2), (32, 2)):
        items.append(("requantize", a, b, 4))
    R.bounds.update(dict(formats="sample/bin counts and header lengths unbounded integers; arbitrary values (uninterpreted)",
                         cwrite="depths {1,2,4,8,16,32} x in-memory dtypes {uint8,uint16,int64,float32,float64} x nchans {8,16}; nsamps unbounded",
                         requantize="depth pairs listed in the obligation names, <= 3 blocks"))
    R.assume("np.tofile/np.fromfile copy raw bytes (trusted); encode_header yields opaque header bytes of some length (C05)",
             "integer->integer and float->float conversions to the declared dtype keep representable values (numpy astype)",
             "the .inf side files (text) are not modelled")
    R.out_of_claim("text formatting of .inf files and astropy time/coordinate strings", "values not representable at the declared depth",
                   "survival of tsamp/tstart/DM through the SIGPROC header (C05) and the .inf text")
    chunks = [items[i::12] for i in range(12)]
    parts = R.pmap(batch, chunks)
    R.vacuity_witness("c04", sum(p.reached for p in parts) > 0)
    # twin: reading a file from the wrong offset must be distinguishable
    st = build_fileio()
    tw = [0]

    def trun(ctx):
        o = setup(ctx, st)
        try:
            n = z3.Int("n")
            ctx.assume(n >= 2)
            X = z3.Function("X", IntS, RealS)
            FArr(n, lambda j: X(j), "f4").tofile("t.dat")
            d = NPread.fromfile("t.dat", dtype=np.float32, offset=4)
            k = z3.Int("k")
            return z3.And(k >= 0, k < d.length, d.fn(k) != X(k))
        finally:
            restore(o)

    def ton(ctx, c):
        Ctx.cur = ctx
        if ctx.check(c) == z3.sat:
            tw[0] += 1
        Ctx.cur = None
    explore(trun, bound=2, on_path=ton, stats=R.stats)
    R.vacuity_witness("c04-twin(an offset read is not the identity)", tw[0] > 0)
