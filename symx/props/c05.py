"""C05 - SIGPROC headers survive encode/parse; in-place edits touch only their key.

E2 on the real encode_header/encode_key/parse_header/_read_string/edit_header/parse_radec and the
frame/flag mapping of Header.from_sigproc/to_sigproc.  `struct` and file objects are trusted stubs
(symx.tokfile): field values are symbolic, key names / string values / lengths concrete."""
from __future__ import annotations

import itertools
import json
from fractions import Fraction

import z3

from ..core import Ctx, Inconclusive, SBool, SInt, SReal, Unsupported, explore, from_placeholder, rebind, s_int, term
from ..tokfile import SB, StructShim, TokFile, TokPath, differs

STRS = ["", "J0", "B1937+21", "pad  ", " lead"]


def enc_str(s):
    import struct
    return struct.pack("<I", len(s)) + s.encode()


def sym_value(key, fmt, tag):
    if fmt == "str":
        return None
    if fmt in ("I",):
        v = z3.Int(f"{key}_{tag}")
        return SInt(v), [v >= 0, v <= 2**32 - 1]
    if fmt == "b":
        v = z3.Int(f"{key}_{tag}")
        return SInt(v), [v >= -128, v <= 127]
    v = z3.Real(f"{key}_{tag}")
    return SReal(v), []


def ref_encode(entries):
    """independent encoder of a well-formed header: list of (key, fmt, value)"""
    out = SB([("raw", enc_str("HEADER_START"))])
    for key, fmt, val in entries:
        out = out + enc_str(key)
        if fmt == "str":
            out = out + enc_str(val)
        else:
            out = out + SB([("pack", fmt, term(val))])
    return out + enc_str("HEADER_END")


def build():
    from sigpyproc.io import sigproc
    sub = dict(struct=StructShim)
    rs = rebind(sigproc._read_string, **sub)
    ek = rebind(sigproc.encode_key, **sub)
    eh = rebind(sigproc.encode_header, encode_key=ek)
    paths = {}

    def vp(fn, writable=False):
        return paths[fn]
    ph = rebind(sigproc.parse_header, struct=StructShim, _read_string=rs, validate_path=vp, int=s_int)
    ed = rebind(sigproc.edit_header, parse_header=ph, encode_header=eh, validate_path=vp)
    return dict(parse_header=ph, encode_header=eh, edit_header=ed, paths=paths, sigproc=sigproc)


def roundtrip_work(P, item):
    keys = item[1]
    sshift = item[2] if len(item) > 2 else 0
    st = build()
    hk = st["sigproc"].header_keys
    label = "roundtrip[" + ",".join(keys) + "]"
    wit = [1]

    def run(ctx):
        entries, cons = [], []
        for i, k in enumerate(keys):
            fmt = hk[k]
            if fmt == "str":
                entries.append((k, fmt, STRS[(i + len(k) + sshift) % len(STRS)]))
            else:
                v, c = sym_value(k, fmt, i)
                cons += c
                entries.append((k, fmt, v))
        # nbits/nchans are needed by parse_header's sample-count arithmetic
        extra = []
        if "nbits" not in keys:
            extra.append(("nbits", "I", 8))
        if "nchans" not in keys:
            extra.append(("nchans", "I", 4))
        for c in cons:
            ctx.assume(c)
        for k, f, v in entries:
            if k in ("nbits", "nchans"):
                ctx.assume(v.e >= 1)
        allent = entries + [(k, f, SInt(z3.IntVal(v))) for k, f, v in extra]
        raw = ref_encode(allent)
        L = z3.Int("datalen")
        ctx.assume(L >= 0)
        tf = TokFile(raw, SInt(L))
        st["paths"]["h.fil"] = TokPath(tf)
        h = st["parse_header"]("h.fil")
        enc = st["encode_header"](h)
        # parse(encode(h)) for the dictionary itself
        tf2 = TokFile(enc, SInt(L))
        st["paths"]["h2.fil"] = TokPath(tf2)
        h2 = st["parse_header"]("h2.fil")
        return dict(raw=raw, h=h, enc=enc, h2=h2, entries=allent, L=L)

    def on_path(ctx, o):
        Ctx.cur = ctx
        P.reached += 1
        viol = [("encode(parse(bytes)) = bytes", differs(o["enc"], o["raw"])),
                ("hdrlen = bytes consumed", z3.BoolVal(o["h"]["hdrlen"] != len(o["raw"])))]
        keys_in = [k for k, _, _ in o["entries"]]
        hkeys = [k for k in o["h"] if k in st["sigproc"].header_keys]
        viol.append(("parsed keys = written keys, in order", z3.BoolVal(hkeys != keys_in)))
        for k, f, v in o["entries"]:
            got = o["h"].get(k)
            if f == "str":
                viol.append((f"value of {k}", z3.BoolVal(got != v)))
            else:
                viol.append((f"value of {k}", z3.BoolVal(True) if got is None else term(got) != term(v)))
        same = [k for k in o["h"] if k in st["sigproc"].header_keys]
        bad2 = [z3.BoolVal(list(k for k in o["h2"] if k in st["sigproc"].header_keys) != same)]
        for k in same:
            a, b = o["h"][k], o["h2"].get(k)
            bad2.append(z3.BoolVal(a != b) if isinstance(a, str) else (z3.BoolVal(True) if b is None else term(a) != term(b)))
        viol.append(("parse(encode(h)) = h", z3.Or(bad2)))
        # data length bookkeeping
        viol.append(("datalen = file length - hdrlen", term(o["h"]["datalen"]) != o["L"]))
        if wit[0] > 0 and ctx.check(z3.Or([c for _, c in viol])) == z3.unsat:
            wit[0] -= 1
            P.witness("c05", dict(kind="roundtrip", keys=keys, sshift=sshift), f"roundtrip-witness-{'-'.join(keys)}-{sshift}", label)
        for n_, c in viol:
            if ctx.check(c) == z3.unsat:
                P.obligation(f"{label}/{n_}", "holds")
            else:
                params = dict(kind="roundtrip", keys=keys, sshift=sshift)
                src = ("import sys, json\nfrom symx.concrete import c05\n"
                       f"sys.exit(c05.main(json.loads({json.dumps(json.dumps(params))})))\n")
                P.violation(f"roundtrip-{'-'.join(keys)}-{sshift}-{n_[:20]}".replace(" ", "_").replace("(", "").replace(")", "").replace("=", ""), f"{label}: {n_}", src, model=params)
                break
        Ctx.cur = None
    try:
        explore(run, bound=3, on_path=on_path, stats=P.stats, deadline_s=300)
    except Inconclusive as e:
        P.inconclusive_(f"{label}: {e}")
    except Exception as e:  # noqa: BLE001  (struct.error, KeyError ... on the unchanged tree would be a defect of the codec)
        params = dict(kind="roundtrip", keys=keys)
        src = ("import sys, json\nfrom symx.concrete import c05\n"
               f"sys.exit(c05.main(json.loads({json.dumps(json.dumps(params))})))\n")
        P.violation(f"roundtrip-{'-'.join(keys)}-raised", f"{label}: raised {type(e).__name__}: {e}", src, model=params)


def edit_work(P, item):
    _, keys, ekey, evalkind = item
    st = build()
    hk = st["sigproc"].header_keys
    label = f"edit_header[file keys={','.join(keys)}; edit {ekey}={evalkind}]"

    def run(ctx):
        entries = []
        for i, k in enumerate(keys):
            fmt = hk[k]
            if fmt == "str":
                entries.append((k, fmt, STRS[2] if k == "source_name" else STRS[1]))
            else:
                v, c = sym_value(k, fmt, i)
                for x in c:
                    ctx.assume(x)
                if k in ("nbits", "nchans"):
                    ctx.assume(v.e >= 1)
                entries.append((k, fmt, v))
        raw = ref_encode(entries)
        L = z3.Int("datalen")
        ctx.assume(L >= 0)
        tf = TokFile(raw, SInt(L))
        tp = TokPath(tf)
        st["paths"]["e.fil"] = tp
        if evalkind == "sym":
            f = hk.get(ekey, "I")
            nv = sym_value("new", f if f != "str" else "I", "v")
            if nv:
                for x in nv[1]:
                    ctx.assume(x)
            value = nv[0] if nv else 0
        elif evalkind == "short":
            value = "X"
        elif evalkind == "long":
            value = "a-much-longer-source-name"
        else:
            value = evalkind
        before = tf.content
        err = None
        try:
            st["edit_header"]("e.fil", ekey, value)
        except Exception as e:  # noqa: BLE001
            err = type(e).__name__
        return dict(before=before, after=tf.content, err=err, tf=tf, tp=tp, value=value, entries=entries)

    witE = [1]

    def on_path(ctx, o):
        Ctx.cur = ctx
        P.reached += 1
        viol = []
        corrupted = getattr(o["tf"], "corrupted", False)
        viol.append(("write never changes the file length or touches data bytes", z3.BoolVal(bool(corrupted))))
        if o["err"]:
            viol.append((f"raised {o['err']}: file byte-identical", differs(o["before"], o["after"])))
            viol.append((f"raised {o['err']}: nothing was written", z3.BoolVal(bool(o["tf"].writes))))
        else:
            # only the value bytes of that key differ
            exp = []
            for k, f, v in o["entries"]:
                if k == ekey:
                    nv = o["value"]
                    if f == "str":
                        old = v
                        nv = (nv[:len(old)] + " " * (len(old) - len(nv))) if isinstance(nv, str) else nv
                    exp.append((k, f, nv))
                else:
                    exp.append((k, f, v))
            try:
                want = ref_encode(exp)
                viol.append(("only the edited key's value differs", differs(o["after"], want)))
            except Exception:  # noqa: BLE001
                viol.append(("accepted an edit that cannot be encoded", z3.BoolVal(True)))
            viol.append(("header length unchanged", z3.BoolVal(len(o["after"]) != len(o["before"]))))
            viol.append(("edited key exists in the file", z3.BoolVal(ekey not in [k for k, _, _ in o["entries"]])))
        if witE[0] > 0 and ctx.check(z3.Or([c for _, c in viol])) == z3.unsat:
            witE[0] -= 1
            P.witness("c05", dict(kind="edit", keys=keys, ekey=ekey, evalkind=evalkind), f"edit-witness-{'-'.join(keys)}-{ekey}-{evalkind}".replace(" ", "_").replace(":", ""), label)
        for n_, c in viol:
            if ctx.check(c) == z3.unsat:
                P.obligation(f"{label}/{n_}", "holds")
            else:
                params = dict(kind="edit", keys=keys, ekey=ekey, evalkind=evalkind)
                src = ("import sys, json\nfrom symx.concrete import c05\n"
                       f"sys.exit(c05.main(json.loads({json.dumps(json.dumps(params))})))\n")
                P.violation(f"edit-{'-'.join(keys)}-{ekey}-{evalkind}-{n_[:20]}".replace(" ", "_").replace(":", ""), f"{label}: {n_}", src, model=params)
                break
        Ctx.cur = None
    explore(run, bound=3, on_path=on_path, stats=P.stats, deadline_s=300)


# ---------------------------------------------------------------- frame flags and declination sign
def frame_work(P, item):
    from sigpyproc import header, params
    from sigpyproc.io import sigproc
    import attrs
    got = {}

    class SP:
        telescope_ids, machine_ids = sigproc.telescope_ids, sigproc.machine_ids

        @staticmethod
        def parse_radec(a, b):
            return "coord"

    class AttrsStub:
        @staticmethod
        def fields_dict(cls):
            return attrs.fields_dict(header.Header)

    def run(ctx):
        p, b = z3.Int("pulsarcentric"), z3.Int("barycentric")
        ctx.assume(z3.And(p >= 0, p <= 1, b >= 0, b <= 1, p + b <= 1))   # what to_sigproc can write (checked below)
        hd = dict(filename="x", data_type=1, nchans=4, foff=-1.0, fch1=1500.0, nbits=8, tsamp=1.0, tstart=5e4, nsamples=10,
                  pulsarcentric=SInt(p), barycentric=SInt(b))
        SP.parse_header_multi = staticmethod(lambda fn, check_contiguity=True: dict(hd))
        f = rebind(header.Header.__dict__["from_sigproc"].__func__, sigproc=SP, attrs=AttrsStub, Angle=lambda x: x, units=type("U", (), {"deg": 1}))
        res = f(lambda **kw: kw, "x")
        return p, b, res["frame"]

    def on_path(ctx, o):
        Ctx.cur = ctx
        P.reached += 1
        p, b, frame = o
        want = z3.If(b == 1, 2, z3.If(p == 1, 1, 0))
        code = {"topocentric": 0, "pulsarcentric": 1, "barycentric": 2}.get(frame, 9)
        c = want != code
        if ctx.check(c) == z3.unsat:
            P.obligation(f"from_sigproc frame flags -> {frame}", "holds")
        else:
            m = ctx.solver.model()
            params_ = dict(kind="frame")
            src = ("import sys, json\nfrom symx.concrete import c05\n"
                   f"sys.exit(c05.main(json.loads({json.dumps(json.dumps(params_))})))\n")
            P.violation("frame-flags", f"flags pulsarcentric={m.eval(p, model_completion=True)}, barycentric={m.eval(b, model_completion=True)} read back as {frame}", src, model=params_)
        Ctx.cur = None
    explore(run, bound=2, on_path=on_path, stats=P.stats)
    # to_sigproc writes exactly one flag per frame (concrete: three frames)
    import tempfile
    from ..concrete.sigfile import write_set
    import numpy as np
    with tempfile.TemporaryDirectory() as d:
        hdr = header.Header.from_sigproc(write_set(d, np.zeros((4, 2), np.uint8), 8, [4]))
    ok = True
    for fr, (pp, bb) in (("topocentric", (0, 0)), ("pulsarcentric", (1, 0)), ("barycentric", (0, 1))):
        sg = hdr.new_header({"frame": fr}).to_sigproc()
        ok = ok and (sg["pulsarcentric"], sg["barycentric"]) == (pp, bb)
    P.stats.queries += 1
    if ok:
        P.obligation("to_sigproc writes (pulsarcentric, barycentric) = (0,0)/(1,0)/(0,1) for the three frames", "holds", symbolic=False)
    else:
        P.violation("frame-to_sigproc", "to_sigproc flag encoding changed", "import sys\nfrom symx.concrete import c05\nsys.exit(c05.main({'kind': 'frame'}))\n")


def radec_work(P, item):
    from sigpyproc.io import sigproc
    rec = {}

    class SkyStub:
        def __init__(self, s, unit=None):
            rec["s"] = s

    def run(ctx):
        dd, mm, ss = z3.Int("DD"), z3.Int("MM"), z3.Real("SS")
        neg = z3.Bool("neg")
        ctx.assume(z3.And(dd >= 0, dd <= 89, mm >= 0, mm <= 59, ss >= 0, ss < 60, dd * 10000 + mm * 100 + ss > 0))
        mag = z3.ToReal(dd) * 10000 + z3.ToReal(mm) * 100 + ss
        dej = z3.If(neg, -mag, mag)
        hh, hm, hs = z3.Int("HH"), z3.Int("HM"), z3.Real("HS")
        ctx.assume(z3.And(hh >= 0, hh <= 23, hm >= 0, hm <= 59, hs >= 0, hs < 60))
        raj = z3.ToReal(hh) * 10000 + z3.ToReal(hm) * 100 + hs
        f = rebind(sigproc.parse_radec, SkyCoord=SkyStub, int=s_int)
        f(SReal(raj), SReal(dej))
        return dict(s=rec["s"], dd=dd, mm=mm, ss=ss, neg=neg, hh=hh, hm=hm, hs=hs)

    def field(tok):
        """(sign_from_text, value term)"""
        neg = tok.startswith("-")
        body = tok[1:] if neg else tok
        v = from_placeholder(body)
        if v is None:
            t = z3.RealVal(Fraction(body))
        else:
            t = v.e if isinstance(v, SReal) else z3.ToReal(v.e)
        return neg, t

    def on_path(ctx, o):
        Ctx.cur = ctx
        P.reached += 1
        toks = o["s"].split()
        viol = []
        if len(toks) != 6:
            viol.append(("six sexagesimal fields", z3.BoolVal(True)))
        else:
            (n0, h), (_, m_), (_, s_), (nd, d), (nm, am), (ns, as_) = [field(t) for t in toks]
            # astropy: the sign of a sexagesimal angle is the sign of its first field as written ("-0" is negative)
            dneg = z3.Or(z3.BoolVal(nd), d < 0)
            dabs = z3.If(d < 0, -d, d)
            decl_abs = dabs + am / 60 + as_ / 3600
            want_abs = z3.ToReal(o["dd"]) + z3.ToReal(o["mm"]) / 60 + o["ss"] / 3600
            viol.append(("declination sign = sign of src_dej (incl. 0 > dec > -1 deg)", dneg != o["neg"]))
            viol.append(("declination magnitude = DD + MM/60 + SS/3600", decl_abs != want_abs))
            viol.append(("right ascension = HH + MM/60 + SS/3600", h + m_ / 60 + s_ / 3600 != z3.ToReal(o["hh"]) + z3.ToReal(o["hm"]) / 60 + o["hs"] / 3600))
        for n_, c in viol:
            if ctx.check(c) == z3.unsat:
                P.obligation(f"parse_radec/{n_}", "holds")
            else:
                m = ctx.solver.model()
                ev = lambda t: m.eval(t, model_completion=True)
                dej = (ev(o["dd"]).as_long() * 10000 + ev(o["mm"]).as_long() * 100 + float(Fraction(ev(o["ss"]).numerator_as_long(), ev(o["ss"]).denominator_as_long()))) * (-1 if z3.is_true(ev(o["neg"])) else 1)
                params_ = dict(kind="radec", src_dej=dej, src_raj=123456.5)
                src = ("import sys, json\nfrom symx.concrete import c05\n"
                       f"sys.exit(c05.main(json.loads({json.dumps(json.dumps(params_))})))\n")
                P.violation("parse_radec-" + n_[:20].replace(" ", "_"), f"parse_radec: {n_} for src_dej={dej}", src, model=params_)
                break
        Ctx.cur = None
    explore(run, bound=3, on_path=on_path, stats=P.stats, deadline_s=300)


# ---------------------------------------------------------------- field mapping Header <-> SIGPROC dictionary
def mapping_work(P, item):
    """Header.to_sigproc followed by Header.from_sigproc (real bytecode; astropy objects and the file codec are
    stand-ins): every physical field lands in its SIGPROC key and comes back in its Header field - numeric fields as
    symbolic values, telescope/backend names through every entry of the id tables, unknown ids as Fake/FAKE."""
    from sigpyproc import header, params
    from sigpyproc.io import sigproc
    import attrs
    H_ = header.Header
    NUM_I = ("nchans", "nbits", "nifs", "ibeam", "nbeams", "nsamples")
    NUM_R = ("foff", "fch1", "tsamp", "tstart")

    def run(ctx):
        vals = {k: SInt(z3.Int(k)) for k in NUM_I}
        vals.update({k: SReal(z3.Real(k)) for k in NUM_R})
        dm, az, za = SReal(z3.Real("dm")), SReal(z3.Real("az")), SReal(z3.Real("za"))
        tel, be, frame, dtype = item[1], item[2], item[3], item[4]

        class Ang:
            def __init__(self, d):
                self.deg = d

        class HS:
            source, rawdatafile, signed = "J0534+2200", "raw.dat", True
            ra, dec = "05:34:31.9400", "-00:30:00.5000"
            zenith, azimuth = Ang(za), Ang(az)
            telescope, backend = tel, be
            telescope_id = property(H_.telescope_id.fget)
            machine_id = property(H_.machine_id.fget)

            def to_dict(self):
                d = dict(vals)
                d.update(filename="x.fil", data_type=dtype, telescope=tel, backend=be, source=self.source, frame=frame, dm=dm, signed=self.signed,
                         rawdatafile=self.rawdatafile, telescope_id=self.telescope_id, machine_id=self.machine_id, coord="COORD", azimuth=self.azimuth,
                         zenith=self.zenith, bandwidth="x", ftop="x", period=0, accel=0)
                return d
        hs = HS()
        hs.frame, hs.dm = frame, dm
        sig = rebind(H_.to_sigproc)(hs)
        got = {}

        class SP:
            telescope_ids, machine_ids = sigproc.telescope_ids, sigproc.machine_ids

            @staticmethod
            def parse_radec(a, b):
                return ("COORD", a, b)

            @staticmethod
            def parse_header_multi(fn, check_contiguity=True):
                d = dict(sig)
                d.update(filename=fn, hdrlens=[1], datalens=[1], nsamples_files=[1], tstart_files=[0], filenames=[fn], nsamples=vals["nsamples"])
                return d

        class AttrsStub:
            @staticmethod
            def fields_dict(cls):
                return attrs.fields_dict(H_)
        f = rebind(H_.__dict__["from_sigproc"].__func__, sigproc=SP, attrs=AttrsStub, Angle=lambda x: x, units=type("U", (), {"deg": 1}))
        back = f(lambda **kw: kw, "x.fil")
        return dict(sig=sig, back=back, vals=vals, dm=dm, az=az, za=za)

    def on_path(ctx, o):
        Ctx.cur = ctx
        P.reached += 1
        sig, back, vals = o["sig"], o["back"], o["vals"]
        tel, be, frame, dtype = item[1], item[2], item[3], item[4]
        viol = []
        viol.append(("to_sigproc emits only recognised keys", z3.BoolVal(any(k not in sigproc.header_keys for k in sig))))
        need = ("telescope_id", "machine_id", "data_type", "source_name", "barycentric", "pulsarcentric", "az_start", "za_start", "src_raj", "src_dej", "tstart", "tsamp",
                "nbits", "fch1", "foff", "nchans", "nifs", "refdm", "ibeam", "nbeams")
        viol.append(("to_sigproc emits every physical key", z3.BoolVal(any(k not in sig for k in need))))

        def ne(a, b):
            try:
                return term(a) != term(b)
            except Exception:  # noqa: BLE001
                return z3.BoolVal(a != b)
        if all(k in sig for k in need):
            for k in ("nchans", "nbits", "nifs", "ibeam", "nbeams", "foff", "fch1", "tsamp", "tstart"):
                viol.append((f"to_sigproc[{k}]", ne(sig[k], vals[k])))
            viol.append(("to_sigproc[refdm] = dm", ne(sig["refdm"], o["dm"])))
            viol.append(("to_sigproc[az_start] = azimuth", ne(sig["az_start"], o["az"])))
            viol.append(("to_sigproc[za_start] = zenith", ne(sig["za_start"], o["za"])))
            viol.append(("to_sigproc ids / type / names / coordinates", z3.BoolVal(not (
                sig["telescope_id"] == sigproc.telescope_ids.get(tel, 0) and sig["machine_id"] == sigproc.machine_ids.get(be, 0)
                and sig["data_type"] == params.data_types.inverse[dtype] and sig["source_name"] == "J0534+2200"
                and sig["src_raj"] == 53431.94 and sig["src_dej"] == -3000.5 and sig.get("rawdatafile") == "raw.dat"
                and (sig["pulsarcentric"], sig["barycentric"]) == {"topocentric": (0, 0), "pulsarcentric": (1, 0), "barycentric": (0, 1)}[frame]))))
        known_t, known_b = tel in sigproc.telescope_ids, be in sigproc.machine_ids
        for k in ("nchans", "nbits", "nifs", "ibeam", "nbeams", "foff", "fch1", "tsamp", "tstart"):
            viol.append((f"from_sigproc[{k}]", z3.BoolVal(True) if k not in back else ne(back[k], vals[k])))
        viol.append(("from_sigproc[dm] = refdm", z3.BoolVal(True) if "dm" not in back else ne(back["dm"], o["dm"])))
        viol.append(("from_sigproc[azimuth] = az_start", z3.BoolVal(True) if "azimuth" not in back else ne(back["azimuth"], o["az"])))
        viol.append(("from_sigproc[zenith] = za_start", z3.BoolVal(True) if "zenith" not in back else ne(back["zenith"], o["za"])))
        viol.append(("from_sigproc names / frame / type / coordinates", z3.BoolVal(not (
            back.get("telescope") == (tel if known_t else "Fake") and back.get("backend") == (be if known_b else "FAKE") and back.get("source") == "J0534+2200"
            and back.get("frame") == frame and back.get("data_type") == dtype and back.get("coord") == ("COORD", 53431.94, -3000.5)
            and back.get("rawdatafile") == "raw.dat" and back.get("signed") is True))))
        label = f"field mapping[{tel}/{be},{frame},{dtype}]"
        for n_, c in viol:
            if ctx.check(c) == z3.unsat:
                P.obligation(f"{label}/{n_}", "holds")
            else:
                params_ = dict(kind="mapping", telescope=tel, backend=be, frame=frame, data_type=dtype)
                src = ("import sys, json\nfrom symx.concrete import c05\n"
                       f"sys.exit(c05.main(json.loads({json.dumps(json.dumps(params_))})))\n")
                P.violation(f"mapping-{tel}-{be}-{frame}-{n_[:30]}".replace(" ", "_").replace("[", "_").replace("]", "_").replace("/", "-").replace("=", ""), f"{label}: {n_}", src, model=params_)
                break
        Ctx.cur = None
    try:
        explore(run, bound=2, on_path=on_path, stats=P.stats, deadline_s=120)
    except Inconclusive as e:
        P.inconclusive_(f"field mapping: {e}")


def work(P, item):
    return {"roundtrip": roundtrip_work, "edit": edit_work, "frame": frame_work, "radec": radec_work, "mapping": mapping_work}[item[0]](P, item)


def batch(P, items):
    for it in items:
        work(P, it)


def run(R):
    from sigpyproc import header
    from sigpyproc.io import sigproc
    R.encode(sigproc.parse_header, sigproc.encode_header, sigproc.encode_key, sigproc._read_string, sigproc.edit_header, sigproc.parse_radec,
             header.Header.__dict__["from_sigproc"].__func__, header.Header.to_sigproc)
    quick = R.tier == "quick"
    keys = list(sigproc.header_keys)
    items = [("roundtrip", [k]) for k in keys]
    for k in keys:          # every string of the alphabet (incl. padded ones, as edit_header writes them) for the string keys
        if sigproc.header_keys[k] == "str":
            items += [("roundtrip", [k], sh) for sh in range(1, len(STRS))]
    pairs = list(itertools.permutations(keys, 2))
    if quick:
        pairs = pairs[::7]
    items += [("roundtrip", list(p)) for p in pairs]
    if not quick:
        items += [("roundtrip", list(p)) for p in list(itertools.permutations(keys, 3))[::97]]
    filek = ["nbits", "nchans", "source_name", "tsamp", "rawdatafile", "signed"]
    for ek in keys + ["not_a_key"]:
        for kind in (("sym",) if sigproc.header_keys.get(ek) != "str" else ("short", "long", "B1937+21")):
            items.append(("edit", filek, ek, kind))
    items.append(("edit", filek, "nbits", "a-string-for-a-number"))
    items.append(("frame",))
    items.append(("radec",))
    from sigpyproc import params as _params
    tels, bes = list(sigproc.telescope_ids), list(sigproc.machine_ids)
    frames = ("topocentric", "pulsarcentric", "barycentric")
    for i in range(max(len(tels), len(bes))):
        items.append(("mapping", tels[i % len(tels)], bes[i % len(bes)], frames[i % 3], ("filterbank", "time series")[i % 2]))
    items.append(("mapping", "NoSuchDish", "NoSuchBackend", "topocentric", "filterbank"))
    R.encode(header.Header.to_sigproc, header.Header.telescope_id.fget, header.Header.machine_id.fget)
    R.bounds["field_mapping"] = "every telescope and machine id of the tables (plus one unknown name each), the three frames, two data types; numeric fields symbolic"
    R.bounds.update(dict(roundtrip=f"headers of 1..{2 if quick else 3} recognised keys in any order ({len([i for i in items if i[0] == 'roundtrip'])} key tuples), numeric values symbolic over their whole range, string values from {STRS}, data length unbounded",
                         edit="file with keys " + str(filek) + "; every recognised key and an unknown key as the edited key; numeric values symbolic, strings shorter/longer/equal",
                         radec="every DDMMSS.S / HHMMSS.S with 0<=DD<=89, 0<=MM<60, 0<=SS<60 (reals), both signs"))
    R.assume("struct.pack/unpack are bijections between values of a format and byte strings of its size (token model, symx.tokfile)",
             "astropy SkyCoord('h m s d m s') takes the sign of an angle from its first field as written ('-0' is negative)",
             "file objects: read(n)/seek/tell/write as documented; a write of the header's own length at offset 0 replaces exactly the header")
    R.out_of_claim("0.01-arcsec accuracy of astropy's string round trip", "NaN payloads", "symbolic string contents / header keys outside the table",
                   "telescope/machine id tables (bidict: bijective by construction)")
    chunks = [items[i::14] for i in range(14)]
    parts = R.pmap(batch, chunks)
    R.vacuity_witness("c05", sum(p.reached for p in parts) > 0)
    # twin: two different numeric values must give different header bytes
    a, b = z3.Int("a"), z3.Int("b")
    s = z3.Solver()
    s.add(a != b, z3.Not(differs(SB([("pack", "I", a)]), SB([("pack", "I", b)]))))
    R.stats.queries += 1
    R.vacuity_witness("c05-twin(different values, identical bytes is unsat)", s.check() == z3.unsat)
