"""C06 - streaming reductions are independent of the gulp and equal their definitions.

E2 on the real Filterbank.collapse/bandpass/read_chan/dedisperse/compute_stats(_basic) bytecode
running on the real read_plan/FileReader stack over symbolic files, kernels replaced by their
contracts (established from the numba IR, see C19/contract evidence)."""
from __future__ import annotations

import json

import z3

from ..core import Ctx, Inconclusive, SBool, SInt, explore
from ..fileshim import stream_elem, stream_unpacked
from ..stream import RecStats, SymList, build_stream, make_fil

DT = {1: "u1", 2: "u1", 4: "u1", 8: "u1", 16: "u2", 32: "f4"}
OPS = ("collapse", "bandpass", "read_chan", "dedisperse", "compute_stats", "compute_stats_basic")


def X(nbits, nchans, t, c):
    q = t * nchans + c
    v = stream_unpacked(nbits, q) if nbits < 8 else stream_elem(DT[nbits], q)
    return z3.ToReal(v) if v.sort() == z3.IntSort() else v


class Rec:
    pass


def harness(st, op, nbits, nchans, nfiles, none):
    def run(ctx):
        delays = None
        D = z3.IntVal(0)
        if op == "dedisperse":
            ds = [z3.Int(f"delay{c}") for c in range(nchans)]
            D = ds[-1]
            ctx.assume(ds[0] == 0)
            for a, b in zip(ds, ds[1:]):
                ctx.assume(a <= b)
            delays = SymList([SInt(d) for d in ds], maxv=SInt(D))
        r, N, ns = make_fil(ctx, st, nbits, nchans, nfiles, delays)
        gulp, start = z3.Int("gulp"), z3.Int("start")
        ctx.assume(z3.And(gulp >= 1, start >= 0))
        if none:
            ctx.assume(start < N)
            ne, arg_ns = N - start, None
        else:
            nsv = z3.Int("nsamps")
            ctx.assume(z3.And(nsv >= 1, start + nsv <= N))
            ne, arg_ns = nsv, SInt(nsv)
        ctx.assume(D < ne)
        rec = Rec()
        rec.vars = dict(ns=ns, gulp=gulp, start=start, nsamps=None if none else ne, delays=None if delays is None else ds)
        rec.viol, rec.err, rec.outlen = [], None, None
        kw = dict(gulp=SInt(gulp), start=SInt(start), nsamps=arg_ns, quiet=True)
        k = z3.Int("k!sk")
        kc = None
        try:
            if op == "collapse":
                ts = r.collapse(**kw)
            elif op == "bandpass":
                ts = r.bandpass(**kw)
            elif op == "read_chan":
                ichan = z3.Int("ichan")
                ctx.assume(z3.And(ichan >= 0, ichan < nchans))
                rec.vars["ichan"] = ichan
                ts = r.read_chan(SInt(ichan), **kw)
            elif op == "dedisperse":
                ts = r.dedisperse(1.0, **kw)
            else:
                getattr(r, op)(**kw)
                ts = None
        except (ValueError, IndexError, TypeError, ZeroDivisionError, RuntimeError, AttributeError) as e:
            rec.err = type(e).__name__
            rec.viol.append((f"in-range-request-raised-{rec.err}", z3.BoolVal(True)))
            return rec
        kc = st["kc"]["kc"]
        rec.ts = ts
        for nm, c in kc.pre:
            rec.viol.append((f"kernel-precondition: {nm}", z3.Not(c)))
        if op in ("collapse", "read_chan", "dedisperse"):
            d = ts.data
            want_len = ne - D if op == "dedisperse" else ne
            rec.outlen = d.length
            rec.viol.append(("output-length", d.length != want_len))
            if op == "collapse":
                spec = z3.Sum([X(nbits, nchans, start + k, c) for c in range(nchans)])
            elif op == "read_chan":
                spec = X(nbits, nchans, start + k, rec.vars["ichan"])
            else:
                spec = z3.Sum([X(nbits, nchans, start + k + ds[c], c) for c in range(nchans)])
            got = d.fn(k)
            got = z3.ToReal(got) if got.sort() == z3.IntSort() else got
            rec.viol.append(("values", z3.And(k >= 0, k < want_len, got != spec)))
            hn = ts.header.nsamples
            rec.viol.append(("header-nsamples=len", (hn.e if isinstance(hn, SInt) else z3.IntVal(hn)) != d.length))
        elif op == "bandpass":
            d = ts.data
            rec.outlen = d.length
            rec.viol.append(("output-length", d.length != nchans))
            segs = getattr(d, "accumulated", [])
            check_tiling(rec, [(f, n) for f, n in segs], nbits, nchans, start, ne, k)
            divs = getattr(d, "divisors", [])
            rec.viol.append(("divided-once-by-samples-seen", z3.BoolVal(len(divs) != 1) if len(divs) != 1 else divs[0] != ne))
        else:
            insts = RecStats.instances
            if len(insts) != 1:
                rec.viol.append(("one-accumulator", z3.BoolVal(True)))
            else:
                cs = insts[0]
                rec.outlen = z3.IntVal(len(cs.pushes))
                ctor = cs.nsamps.e if isinstance(cs.nsamps, SInt) else z3.IntVal(cs.nsamps)
                rec.viol.append(("accumulator-sized-by-samples-pushed", ctor != ne))
                check_tiling(rec, [(f, ln / nchans) for f, ln, _, _ in cs.pushes], nbits, nchans, start, ne, k)
                for i, (_, ln, si, mode) in enumerate(cs.pushes):
                    sie = si.e if isinstance(si, SInt) else z3.IntVal(si)
                    rec.viol.append((f"push{i}:startflag", (sie != 0) if i == 0 else (sie == 0)))
                    rec.viol.append((f"push{i}:whole-samples", ln % nchans != 0))
                    if mode != ("basic" if op.endswith("basic") else "full"):
                        rec.viol.append((f"push{i}:mode", z3.BoolVal(True)))
        return rec
    return run


def check_tiling(rec, segs, nbits, nchans, start, ne, k):
    """the segments handed to an accumulating kernel are exactly consecutive slices tiling [start, start+ne)"""
    pos = start
    for i, (f, n) in enumerate(segs):
        got = f(k)
        got = z3.ToReal(got) if got.sort() == z3.IntSort() else got
        q = pos * nchans + k
        want = stream_unpacked(nbits, q) if nbits < 8 else stream_elem(DT[nbits], q)
        want = z3.ToReal(want) if want.sort() == z3.IntSort() else want
        rec.viol.append((f"segment{i}:is-stream-slice", z3.And(k >= 0, k < n * nchans, got != want)))
        rec.viol.append((f"segment{i}:nonempty", n < 1))
        pos = pos + n
    rec.viol.append(("segments-tile-the-request", pos != start + ne))


def concretize(ctx, rec, op, nbits, nchans, extra=()):
    if ctx.check(*extra) != z3.sat:
        return None
    m = ctx.solver.model()
    ev = lambda t: m.eval(t, model_completion=True).as_long()
    v = rec.vars
    p = dict(op=op, nbits=nbits, nchans=nchans, splits=[ev(n) for n in v["ns"]], gulp=ev(v["gulp"]), start=ev(v["start"]),
             nsamps=None if v["nsamps"] is None else ev(v["nsamps"]), seed=1)
    if v.get("delays"):
        p["delays"] = [ev(d) for d in v["delays"]]
    if "ichan" in v:
        p["ichan"] = ev(v["ichan"])
    return p, m


def check_path(P, ctx, rec, op, nbits, nchans, label, budget):
    from ..concrete import c06 as conc
    Ctx.cur = ctx
    conds = [c for _, c in rec.viol]
    if ctx.check(z3.Or(conds)) == z3.unsat:
        for name, _ in rec.viol:
            P.obligation(f"{label}/{name}", "holds")
    else:
        for name, c in rec.viol:
            if ctx.check(c) == z3.unsat:
                P.obligation(f"{label}/{name}", "holds")
                continue
            params, _ = concretize(ctx, rec, op, nbits, nchans, [c])
            src = ("import sys, json\nfrom symx.concrete import c06\n"
                   f"sys.exit(c06.main(json.loads({json.dumps(json.dumps(params))})))\n")
            P.violation(f"{label}-{name}".replace("/", "-").replace(":", "-").replace(" ", "_"), f"{name} with {params}", src, model=params)
    if budget[0] > 0:
        cz = concretize(ctx, rec, op, nbits, nchans)
        if cz is not None:
            params, m = cz
            budget[0] -= 1
            out, bad = conc.run(params)
            sym_out = "raise" if rec.err else "ok"
            if out[0] != sym_out and not bad:
                P.inconclusive_(f"path witness disagrees with the real code on {label}: {params} symbolic={sym_out}/{rec.err} real={out}")
            else:
                P.validated()
    Ctx.cur = None
    return 1


def work(P, item):
    if item[0] == "contract":
        from .. import contracts
        contracts.establish(P, [item[1]], quick=item[2])
        P.reached += 1
        return
    op, nbits, nchans, nfiles, none, nblocks, budget, deadline = item
    st = build_stream()
    label = f"{op}[nbits={nbits},nchans={nchans},files={nfiles},nsamps={'None' if none else 'sym'}]"
    bud = [budget]

    def on_path(ctx, rec):
        P.reached += check_path(P, ctx, rec, op, nbits, nchans, label, bud)
        return "stop" if len(P.cands) >= 2 else None
    try:
        explore(harness(st, op, nbits, nchans, nfiles, none), bound=nblocks, on_path=on_path, deadline_s=deadline, stats=P.stats)
    except Inconclusive:
        if not P.cands:
            raise


def run(R):
    from sigpyproc import base
    build_stream(R)
    R.encode(base.Filterbank.collapse, base.Filterbank.bandpass, base.Filterbank.read_chan, base.Filterbank.dedisperse,
             base.Filterbank.compute_stats, base.Filterbank.compute_stats_basic)
    quick = R.tier == "quick"
    nblocks = 3 if quick else 4
    cfgs = [(8, 2), (2, 4), (32, 1)] if quick else [(8, 1), (8, 2), (8, 3), (1, 8), (2, 4), (4, 2), (32, 1), (32, 2)]
    R.bounds.update(dict(blocks=f"<= {nblocks} blocks (and initial plan quotient <= {nblocks}); longer plans cut and counted",
                         ints="N, gulp, start, nsamps (or None), maxdelay, per-channel delays, channel index: unbounded integers",
                         configs=[f"nbits={b},nchans={c}" for b, c in cfgs], files="1..2 (quick) / 1..3 (thorough; dedisperse at 1/2/4 bits on one file only)"))
    R.assume("sample values are such that float32 sums are exact (arithmetic decided over the reals)",
             "kernel contracts (extract_tim, extract_bpass, dedisperse, compute_online_moments*) as established from the numba IR",
             "dispersion delays are 0 at the first channel, non-decreasing and at most maxdelay (descending band, DM >= 0); maxdelay < nsamps",
             "files hold whole samples; default allocator")
    R.out_of_claim("float32 rounding of sums; numerical error of the moments (C10)", f"plans with more than {nblocks} blocks",
                   "delays of mixed sign (ascending bands / negative DM)")
    items = []
    for op in OPS:
        for nbits, nchans in cfgs:
            if op == "dedisperse" and nchans == 1 and not quick:
                continue
            for nfiles in ((1, 2) if quick else (1, 2, 3)):
                if quick and nfiles == 2 and nbits != 8:
                    continue
                for none in (False, True):
                    if quick and none and (nfiles > 1 or nbits != 8):
                        continue
                    nb = nblocks if nfiles < 3 else min(nblocks, 3)
                    if op == "dedisperse" and nbits < 8 and nfiles >= 2 and not quick:
                        # measured twice on an idle machine: sub-byte dedispersion over several files leaves z3 undecided for
                        # > 180 s per query and single items beyond 45 min.  Multi-file dedispersion is explored at 8/32 bits,
                        # sub-byte dedispersion on one file; sub-byte multi-file reading itself is C01/C02 and the other reductions
                        continue
                    items.append((op, nbits, nchans, nfiles, none, nb, 2 if quick else 15, 200 if quick else 1500))
    from sigpyproc.core import kernels as K
    for kn in ("extract_tim", "extract_bpass", "dedisperse"):
        R.encode(getattr(K, kn))
        items.append(("contract", kn, quick))
    R.bounds["kernel_contracts"] = "established from the numba typed IR for arbitrary uint8 data at shapes (nchans, nsamps) in " + \
        ("{(1,1),(2,3),(3,2)}" if quick else "{(1,1),(1,4),(2,3),(3,2),(3,4),(4,2)}") + "; used by the streaming harness at unbounded sizes (stated gap)"
    from .. import kvalid
    kvalid.validate(R, ["extract_tim", "extract_bpass", "dedisperse", "compute_online_moments", "compute_online_moments_basic"])
    parts = R.pmap(work, items)
    R.vacuity_witness("c06", sum(p.reached for p in parts) > 0)
    st = build_stream()
    tw = [0]

    def twin(ctx, rec):
        if rec.err is None and ctx.check() == z3.sat:
            tw[0] += 1
    explore(harness(st, "collapse", 8, 2, 1, False), bound=2, on_path=twin, stats=R.stats)
    R.vacuity_witness("c06-twin(assert False after collapse returns)", tw[0] > 0)
