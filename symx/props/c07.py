"""C07 - streaming file-to-file transforms equal their whole-array definitions.
(also produces the write-trace obligations of C20 and the header obligations of C08)

E2 on the real Filterbank.invert_freq/apply_channel_mask/extract_samps/extract_chans/
extract_bands/downsample/subband/remove_zerodm bytecode over the real read_plan/FileReader
stack and the real FileWriter.cwrite/prep_outfile, kernels as contracts from the numba IR."""
from __future__ import annotations

import json

import z3

from ..arrays import FArr
from ..core import Ctx, Inconclusive, SBool, SInt, Unsupported, explore
from ..fileshim import FS, stream_elem, stream_unpacked
from ..stack import RecBlock
from ..stream import HdrBytes, SymList, build_stream, make_fil

DT = {1: "u1", 2: "u1", 4: "u1", 8: "u1", 16: "u2", 32: "f4"}
OPS = ("invert_freq", "apply_channel_mask", "extract_samps", "extract_chans", "extract_bands", "downsample", "subband", "remove_zerodm")


def X(nbits, nchans, t, c):
    q = t * nchans + c
    v = stream_unpacked(nbits, q) if nbits < 8 else stream_elem(DT[nbits], q)
    return z3.ToReal(v) if v.sort() == z3.IntSort() else v


def R_(t):
    return z3.ToReal(t) if t.sort() == z3.IntSort() else t


class Rec:
    pass


def out_model(name, out_nbits, out_nchans, rec):
    """from the write trace of file `name`: (element function q -> value, total elements term);
    appends C07 format obligations and C20 trace obligations"""
    tr = FS.written.get(name)
    if tr is None:
        rec.viol.append((f"{name}: output file never opened", z3.BoolVal(True)))
        return None, None
    v20 = rec.viol20
    if not tr or tr[0][0] != "bytes" or not isinstance(tr[0][1], HdrBytes):
        v20.append((f"{name}: first write is the complete header", z3.BoolVal(True)))
    hdr = tr[0][1] if tr and tr[0][0] == "bytes" else None
    arrs = []
    for kind, a in tr[1:]:
        if kind != "arr":
            v20.append((f"{name}: header bytes written after data started", z3.BoolVal(True)))
        else:
            arrs.append(a)
    seeks = [e for e in FS.log if e[0] in ("seek", "truncate") and e[1] == name]
    if seeks:
        v20.append((f"{name}: writer used {seeks[0][0]} (not append-only)", z3.BoolVal(True)))
    f = 8 // out_nbits if out_nbits < 8 else 1
    pieces = []
    total = z3.IntVal(0)
    for i, a in enumerate(arrs):
        if out_nbits < 8:
            pf = getattr(a, "packed_from", None)
            if pf is None or pf[1] != f:
                rec.viol.append((f"{name}: write {i} is not packed at {out_nbits} bits", z3.BoolVal(True)))
                continue
            src, _, tag, n = pf
            rec.viol.append((f"{name}: write {i} packs a whole number of bytes", n % f != 0))
            want_tag = out_nbits   # default bit order of the depth
            if not z3.is_int_value(tag) or tag.as_long() != want_tag:
                rec.viol.append((f"{name}: write {i} packed in a non-default bit order", z3.BoolVal(True)))
            fn, n_el = src, n
        else:
            if a.dt != DT[out_nbits]:
                rec.viol.append((f"{name}: write {i} has item type {a.dt}, the file declares {out_nbits}-bit samples", z3.BoolVal(True)))
            fn, n_el = a.snapshot(), a.length
        v20.append((f"{name}: write {i} is a whole number of output samples", n_el % out_nchans != 0))
        pieces.append((total, n_el, fn))
        total = total + n_el

    def out(q):
        r = None
        for off, n, fn in reversed(pieces):
            v = R_(fn(q - off))
            r = v if r is None else z3.If(q < off + n, v, r)
        return r if r is not None else z3.RealVal(-12345)
    rec.traces[name] = dict(header=hdr, pieces=pieces, total=total)
    return out, z3.simplify(total)


def trunc(t):
    from ..stream import TRUNC
    return z3.ToReal(TRUNC(t))


def harness(st, op, nbits, nchans, nfiles, none, prm):
    def run(ctx):
        delays = None
        D = z3.IntVal(0)
        ds = None
        if op == "subband":
            ds = [z3.Int(f"delay{c}") for c in range(nchans)]
            D = ds[-1]
            ctx.assume(ds[0] == 0)
            for a, b in zip(ds, ds[1:]):
                ctx.assume(a <= b)
            delays = SymList([SInt(d) for d in ds], maxv=SInt(D))
        r, N, ns = make_fil(ctx, st, nbits, nchans, nfiles, delays)
        F0, FOFF = prm.get("chan", (1500.0, -1.0))
        r._header.fch1, r._header.foff = F0, FOFF
        gulp, start = z3.Int("gulp"), z3.Int("start")
        ctx.assume(z3.And(gulp >= 1, start >= 0))
        if none and op != "extract_samps":
            ctx.assume(start < N)
            ne, arg_ns = N - start, None
        else:
            nsv = z3.Int("nsamps")
            ctx.assume(z3.And(nsv >= 1, start + nsv <= N))
            ne, arg_ns = nsv, SInt(nsv)
        ctx.assume(D < ne)
        rec = Rec()
        rec.vars = dict(ns=ns, gulp=gulp, start=start, nsamps=None if arg_ns is None else ne, delays=ds)
        rec.viol, rec.viol20, rec.viol08, rec.err, rec.traces = [], [], [], None, {}
        rec.hdr = r._header
        kw = dict(gulp=SInt(gulp), start=SInt(start), nsamps=arg_ns, quiet=True)
        tq, cq = z3.Int("t!sk"), z3.Int("c!sk")
        outs = []   # (name, out_nbits, out_nchans, Tout, spec(t,c), expected header updates)
        try:
            if op == "invert_freq":
                r.invert_freq(outfile_name="o.fil", **kw)
                outs.append(("o.fil", nbits, nchans, ne, lambda t, c: X(nbits, nchans, start + t, nchans - 1 - c),
                             dict(span=lambda c: (nchans - 1 - c, nchans - 1 - c), tf=1)))
            elif op == "apply_channel_mask":
                mask = [z3.Bool(f"mask{c}") for c in range(nchans)]
                mv = z3.Int("maskvalue")
                ctx.assume(z3.And(mv >= 0, mv < (1 << min(nbits, 8))))
                rec.vars.update(mask=mask, mv=mv)
                r.apply_channel_mask(SymList([SBool(m) for m in mask]), SInt(mv), outfile_name="o.fil", **kw)

                def spec(t, c):
                    e = X(nbits, nchans, start + t, c)
                    for cc in range(nchans):
                        e = z3.If(z3.And(c == cc, mask[cc]), z3.ToReal(mv), e)
                    return e
                outs.append(("o.fil", nbits, nchans, ne, spec, dict(span=lambda c: (c, c), tf=1)))
            elif op == "extract_samps":
                r.extract_samps(SInt(start), SInt(ne), outfile_name="o.fil", gulp=SInt(gulp), quiet=True)
                outs.append(("o.fil", nbits, nchans, ne, lambda t, c: X(nbits, nchans, start + t, c), dict(span=lambda c: (c, c), tf=1)))
            elif op == "extract_chans":
                chans = prm["chans"]
                names = r.extract_chans(list(chans), outfile_base="o", batch_size=prm.get("batch_size", 200), **kw)
                for nm, ch in zip(names, chans):
                    outs.append((nm, 32, 1, ne, lambda t, c, ch=ch: X(nbits, nchans, start + t, ch), dict(span=lambda c, ch=ch: (ch, ch), tf=1)))
            elif op == "extract_bands":
                cs, ncs, cps = prm["chanstart"], prm["nchans_sel"], prm["chanpersub"]
                names = r.extract_bands(cs, ncs, cps, outfile_base="o", batch_size=prm.get("batch_size", 200), **kw)
                if len(names) < ncs // cps:
                    rec.viol.append(("extract_bands covers the requested range", z3.BoolVal(True)))
                for b, nm in enumerate(names):
                    lo = cs + b * cps
                    outs.append((nm, nbits, cps, ne, lambda t, c, lo=lo: X(nbits, nchans, start + t, lo + c), dict(span=lambda c, lo=lo: (lo + c, lo + c), tf=1)))
            elif op == "downsample":
                tf, ff = prm["tfactor"], prm["ffactor"]
                r.downsample(tfactor=tf, ffactor=ff, outfile_name="o.fil", **kw)
                def spec(t, c):
                    m = z3.Sum([X(nbits, nchans, start + t * tf + a, c * ff + b) for a in range(tf) for b in range(ff)]) / (tf * ff)
                    return m if nbits == 32 else trunc(m)
                outs.append(("o.fil", nbits, nchans // ff, ne / tf, spec, dict(span=lambda c: (c * ff, c * ff + ff - 1), tf=tf, width=ff)))
            elif op == "subband":
                nsub = prm["nsub"]
                sf = nchans // nsub
                r.subband(1.0, nsub, outfile_name="o.fil", **kw)
                outs.append(("o.fil", 32, nsub, ne - D, lambda t, c: z3.Sum([z3.If(c == cc // sf, X(nbits, nchans, start + t + ds[cc], cc), z3.RealVal(0)) for cc in range(nchans)]),
                             dict(span=lambda c: (c * sf, c * sf + sf - 1), tf=1, width=sf, dm=1.0)))
            elif op == "remove_zerodm":
                # bandpass from a small concrete alphabet (keeps zerodm*weight linear in the samples)
                bp = [z3.RealVal(v) for v in prm.get("bpass", [2, 6, 8])[:nchans]]
                bsum = z3.simplify(z3.Sum(bp))
                bpa = FArr(nchans, SymList([__import__("symx.core", fromlist=["SReal"]).SReal(b) for b in bp]).fn, "f4", "bpass")
                r.bandpass = lambda **k: RecBlock(bpa, None)
                r.remove_zerodm(outfile_name="o.fil", **kw)

                def spec(t, c):
                    zdm = z3.Sum([X(nbits, nchans, start + t, cc) for cc in range(nchans)])
                    e = None
                    for cc in range(nchans):
                        v = (X(nbits, nchans, start + t, cc) - zdm * (bp[cc] / bsum)) + bp[cc]
                        e = v if e is None else z3.If(c == cc, v, e)
                    return e if nbits == 32 else trunc(e)
                outs.append(("o.fil", nbits, nchans, ne, spec, dict(span=lambda c: (c, c), tf=1)))
        except (ValueError, IndexError, TypeError, ZeroDivisionError, RuntimeError, AttributeError, KeyError) as e:
            rec.err = type(e).__name__
            rec.viol.append((f"in-range-request-raised-{rec.err}", z3.BoolVal(True)))
            return rec
        except (OSError, NotImplementedError, AssertionError, Unsupported) as e:
            # the (modified) library reached real I/O or something else outside the modelled subset: no symbolic trace;
            # the path's witness is replayed on the real library instead (see check_path)
            rec.err = type(e).__name__
            rec.unmodelled = True
            rec.viol.append((f"left-the-modelled-subset-{rec.err}", z3.BoolVal(True)))
            return rec
        kc = st["kc"]["kc"]
        for nm, c in kc.pre:
            rec.viol.append((f"kernel-precondition: {nm}", z3.Not(c)))
        rec.outshape = []
        for (name, onb, onc, Tout, spec, hupd) in outs:
            out, total = out_model(name, onb, onc, rec)
            if out is None:
                continue
            rec.outshape.append(total)
            rec.viol.append((f"{name}: sample count = definition", total != Tout * onc))
            for cc in range(onc):   # output channel enumerated (concrete), output sample index Skolem
                q = tq * onc + cc
                rec.viol.append((f"{name}: values = definition (channel {cc})",
                                 z3.And(tq >= 0, tq < Tout, z3.simplify(out(q)) != z3.simplify(spec(tq, z3.IntVal(cc))))))
            # C08: header of the output file
            hdr = rec.traces[name]["header"]
            if hdr is not None:
                h = hdr.hdr
                hb = h.nbits.e if isinstance(h.nbits, SInt) else z3.IntVal(int(h.nbits))
                rec.viol08.append((f"{name}: header nbits = on-disk depth", hb != onb))
                hc = h.nchans.e if isinstance(h.nchans, SInt) else z3.IntVal(int(h.nchans))
                rec.viol08.append((f"{name}: header nchans = channels per sample", hc != onc))
                from fractions import Fraction
                f0, fo = Fraction(F0), Fraction(FOFF)
                okl = True
                for cc in range(onc):
                    a, b = hupd["span"](cc)
                    lo, hi = sorted((f0 + a * fo, f0 + b * fo))
                    lab = Fraction(float(h.fch1)) + cc * Fraction(float(h.foff))
                    eps = Fraction(1, 10**9) * max(1, abs(lo))
                    if not (lo - eps <= lab <= hi + eps):
                        okl = False
                rec.viol08.append((f"{name}: channel labels match the source channels", z3.BoolVal(not okl)))
                w = hupd.get("width", 1)
                rec.viol08.append((f"{name}: channel spacing scaled by the factor", z3.BoolVal(abs(abs(float(h.foff)) - abs(FOFF) * w) > 1e-9 * abs(FOFF) * w)))
                rec.viol08.append((f"{name}: tsamp scaled by the time factor", z3.BoolVal(abs(float(h.tsamp) - 1.0 * hupd["tf"]) > 1e-12)))
                got = (h.updates or {}).get("tstart")
                from ..core import term
                okt = isinstance(got, tuple) and got[0] == "mjd_after_nsamps" and not ctx.sat(term(got[1]) != start)
                # start == 0 needs no update
                rec.viol08.append((f"{name}: tstart advanced by start*tsamp", z3.BoolVal(False) if okt else (start != 0)))
                if "dm" in hupd:
                    rd = (h.updates or {}).get("refdm", (h.updates or {}).get("dm"))
                    rec.viol08.append((f"{name}: header records the applied DM", z3.BoolVal(rd != hupd["dm"])))
        return rec
    return run


def concretize(ctx, rec, op, nbits, nchans, prm, extra=()):
    if ctx.check(*extra) != z3.sat:
        return None
    m = ctx.solver.model()
    ev = lambda t: m.eval(t, model_completion=True).as_long()
    v = rec.vars
    p = dict(op=op, nbits=nbits, nchans=nchans, splits=[ev(n) for n in v["ns"]], gulp=ev(v["gulp"]), start=ev(v["start"]),
             nsamps=None if v["nsamps"] is None else ev(v["nsamps"]), seed=1)
    p.update(prm)
    if v.get("delays"):
        p["delays"] = [ev(d) for d in v["delays"]]
    if "mask" in v:
        p["mask"] = [bool(z3.is_true(m.eval(b, model_completion=True))) for b in v["mask"]]
        p["maskvalue"] = ev(v["mv"])
    return p, m


def check_path(P, ctx, rec, op, nbits, nchans, prm, label, budget, which="viol", driver="c07"):
    from ..concrete import c07 as conc
    Ctx.cur = ctx
    viol = getattr(rec, which)
    if which != "viol" and rec.err:
        # the transform left the modelled subset / raised: never a silent pass for the piggy-backed properties
        # ... but the path's witness is still a concrete input: replay it on the real code, which decides
        # (reproduced -> violation; otherwise the obligation stays undecided -> inconclusive)
        cz = concretize(ctx, rec, op, nbits, nchans, prm)
        if cz is not None:
            params = cz[0]
            params["check"] = which
            src = ("import sys, json\nfrom symx.concrete import " + driver + "\n"
                   f"sys.exit({driver}.main(json.loads({json.dumps(json.dumps(params))})))\n")
            P.violation(f"{label}-unmodelled-{rec.err}".replace("/", "-").replace(":", "-").replace(" ", "_"),
                        f"the transform left the modelled subset ({rec.err}); witness {params}", src, model=params)
        else:
            P.inconclusive_(f"{label}: symbolic execution of the transform raised {rec.err}; no trace to check")
        Ctx.cur = None
        return 0
    conds = [c for _, c in viol]
    clean = False
    try:
        all_hold = not conds or ctx.check(z3.Or(conds)) == z3.unsat
    except Inconclusive:
        all_hold = False        # the disjunction was too hard: decide the obligations one by one below
    if all_hold:
        clean = True
        for name, _ in viol:
            P.obligation(f"{label}/{name}", "holds")
    else:
        for name, c in viol:
            if ctx.check(c) == z3.unsat:
                P.obligation(f"{label}/{name}", "holds")
                continue
            params, _ = concretize(ctx, rec, op, nbits, nchans, prm, [c])
            params["check"] = which
            src = ("import sys, json\nfrom symx.concrete import " + driver + "\n"
                   f"sys.exit({driver}.main(json.loads({json.dumps(json.dumps(params))})))\n")
            P.violation(f"{label}-{name}".replace("/", "-").replace(":", "-").replace(" ", "_"), f"{name} with {params}", src, model=params)
    if budget[0] > 0 and which != "viol" and not rec.err and clean:
        cz = concretize(ctx, rec, op, nbits, nchans, prm)
        if cz is not None:
            params = cz[0]
            params["check"] = which
            budget[0] -= 1
            P.witness(driver, params, f"{label}-path-witness".replace("/", "-").replace(":", "-").replace(" ", "_"), label)
    if budget[0] > 0 and which == "viol":
        cz = concretize(ctx, rec, op, nbits, nchans, prm)
        if cz is not None:
            params, m = cz
            budget[0] -= 1
            out, bad = conc.run(params)
            sym_out = "raise" if rec.err else "ok"
            if out[0] != sym_out and not bad:
                P.inconclusive_(f"path witness disagrees with the real code on {label}: {params} symbolic={sym_out}/{rec.err} real={out}")
            else:
                P.validated()
    Ctx.cur = None
    return 1


def items_for(tier, which="viol"):
    quick = tier == "quick"
    items = []
    nblocks = 3 if quick else 4
    for op in OPS:
        if op in ("extract_chans",):
            prms = [dict(chans=[1, 0]), dict(chans=[0, 1], batch_size=1)] if quick else [dict(chans=[0]), dict(chans=[1, 0]), dict(chans=[2, 0, 1]), dict(chans=[0, 1], batch_size=1)]
        elif op == "extract_bands":
            prms = [dict(chanstart=0, nchans_sel=4, chanpersub=2), dict(chanstart=0, nchans_sel=4, chanpersub=2, batch_size=1)] if quick else [dict(chanstart=0, nchans_sel=4, chanpersub=2), dict(chanstart=2, nchans_sel=2, chanpersub=2), dict(chanstart=0, nchans_sel=4, chanpersub=4), dict(chanstart=0, nchans_sel=4, chanpersub=2, batch_size=1)]
        elif op == "downsample":
            prms = [dict(tfactor=2, ffactor=2), dict(tfactor=3, ffactor=1)] if quick else [dict(tfactor=1, ffactor=2), dict(tfactor=2, ffactor=1), dict(tfactor=2, ffactor=2), dict(tfactor=3, ffactor=1), dict(tfactor=3, ffactor=2)]
        elif op == "subband":
            prms = [dict(nsub=2), dict(nsub=4)] if quick else [dict(nsub=1), dict(nsub=2), dict(nsub=4)]
        elif op == "remove_zerodm":
            prms = [dict(bpass=[2, 6, 8])] if quick else [dict(bpass=[2, 6, 8]), dict(bpass=[1, 1, 1]), dict(bpass=[5, 0, 3])]
        else:
            prms = [dict()]
        if op in ("extract_bands", "downsample", "subband"):
            cfgs = [(8, 4), (32, 4)] if quick else [(8, 4), (4, 8), (2, 8), (32, 4)]
            if op == "extract_chans":
                cfgs = [(8, 4)]
        elif op == "extract_chans":
            cfgs = [(8, 3), (32, 2)] if quick else [(8, 3), (2, 4), (32, 3)]
        else:
            cfgs = [(8, 2), (2, 4), (32, 1)] if quick else [(8, 1), (8, 3), (1, 8), (2, 4), (4, 2), (32, 2)]
        for prm in prms:
            for nbits, nchans in cfgs:
                if op == "subband" and nchans % prm["nsub"]:
                    continue
                if op == "extract_bands" and (prm["chanpersub"] * nbits) % 8:
                    continue
                if op == "downsample" and ((nchans // prm["ffactor"]) * nbits) % 8:
                    continue
                if op == "remove_zerodm" and nchans > 3:
                    continue
                for nfiles in ((1,) if quick else (1, 2)):
                    if nfiles == 2 and nbits < 8:
                        # measured four times on an idle machine: sub-byte x 8 channels over two files does not finish inside
                        # the item budget (1500 s) even at 3 blocks; two-file streaming is explored at 8 and 32 bits, sub-byte
                        # depths on one file (multi-file reading of every depth is C01/C02)
                        continue
                    for none in ((False,) if quick else (False, True)):
                        # measured (twice, idle machine): 4 blocks of sub-byte data leave single z3 queries undecided after
                        # 60 s + 180 s and the whole tier at about an hour; sub-byte configurations explore 3 blocks
                        nb = 3 if nbits < 8 else nblocks
                        items.append((op, nbits, nchans, nfiles, none, prm, nb, 2 if quick else 10, 240 if quick else 1500, which))
    return items


def work(P, item):
    if item[0] == "contract":
        from .. import contracts
        contracts.establish(P, [item[1]], quick=item[2])
        P.reached += 1
        return
    op, nbits, nchans, nfiles, none, prm, nblocks, budget, deadline, which = item
    st = build_stream()
    label = f"{op}[nbits={nbits},nchans={nchans},files={nfiles},nsamps={'None' if none else 'sym'}{',' + str(prm) if prm else ''}]"
    bud = [budget]

    def on_path(ctx, rec):
        P.reached += check_path(P, ctx, rec, op, nbits, nchans, prm, label, bud, which,
                                driver={"viol": "c07", "viol20": "c20", "viol08": "c08"}[which])
        return "stop" if len(P.cands) >= 2 else None
    try:
        explore(harness(st, op, nbits, nchans, nfiles, none, prm), bound=nblocks, on_path=on_path, deadline_s=deadline, stats=P.stats)
    except Inconclusive:
        if not P.cands:
            raise


def common_setup(R):
    from sigpyproc import base
    from sigpyproc.core import kernels as K
    from sigpyproc.io import fileio
    build_stream(R)
    for op in OPS:
        R.encode(getattr(base.Filterbank, op))
    R.encode(fileio.FileWriter.cwrite, fileio.FileWriter.write)
    quick = R.tier == "quick"
    R.bounds.update(dict(blocks="<= 3 (quick) / 4 (thorough) blocks per plan; longer plans cut and counted",
                         ints="N, gulp, start, nsamps (or None), maxdelay/delays, mask, mask value: unbounded / arbitrary",
                         parameters="tfactor, ffactor, nsub, channel lists, (chanstart,nchans,chanpersub): small concrete values (see obligation names)"))
    R.assume("arithmetic over the reals (exactness premise); final store into integer depths truncates toward zero",
             "kernel contracts established from the numba IR at small shapes (see kernel_contracts)",
             "delays 0 at channel 0, non-decreasing, <= maxdelay < nsamps", "remove_zerodm: the bandpass handed to the kernel is a concrete vector from a small alphabet ([2,6,8], [1,1,1], [5,0,3]); the bandpass computation itself is C06",
             "encode_header yields opaque header bytes (content is C05)")
    R.out_of_claim("requantize (covered by C04)", "plans beyond the block bound", "float32 rounding", "zero-DM results that leave the representable range",
                   "channel lists that name a channel twice (both outputs would go to the same file name)",
                   "paths whose branch feasibility z3 leaves undecided within 60 s + 180 s (counted under cut reason 'solver-unknown')")
    return quick


def run(R):
    from sigpyproc.core import kernels as K
    quick = common_setup(R)
    items = items_for(R.tier, "viol")
    for kn in ("invert_freq", "mask_channels", "downsample_2d_mean_flat", "subband", "remove_zerodm"):
        R.encode(getattr(K, kn))
        items.append(("contract", kn, quick))
    R.bounds["kernel_contracts"] = "arbitrary uint8 (and float32 for zero-DM) data at small (nchans, nsamps) shapes"
    from .. import kvalid
    kvalid.validate(R, ["invert_freq", "mask_channels", "downsample_2d_mean_flat", "subband", "remove_zerodm"])
    parts = R.pmap(work, items)
    R.vacuity_witness("c07", sum(p.reached for p in parts) > 0)
    st = build_stream()
    tw = [0]

    def twin(ctx, rec):
        if rec.err is None and ctx.check() == z3.sat:
            tw[0] += 1
    explore(harness(st, "invert_freq", 8, 2, 1, False, {}), bound=2, on_path=twin, stats=R.stats)
    R.vacuity_witness("c07-twin(assert False after invert_freq returns)", tw[0] > 0)
