"""C08 - output metadata describes the output data.

A. headers written by every streaming file transform (C07 harness, real prep_outfile/new_header
   update dictionaries) for several channelisations: nbits, nchans, tsamp factor, tstart, DM,
   channel labels versus the input channels actually present in the data;
B. headers of the containers returned by collapse/read_chan/dedisperse (C06 harness);
C. read_block(fch1=label of channel k): the real float expression that turns a frequency into a
   channel index is executed over IEEE-754 doubles (z3 FP theory, k symbolic in [0,4096]) and must
   give back k; the slice/labels that follow are decided over the integers."""
from __future__ import annotations

import json

import z3

from ..core import Ctx, Inconclusive, SBool, SInt, SReal, Unsupported, explore, rebind_class, term
from ..stack import build_filreader, make_filreader
from . import c06, c07

CHANS = [(1500.0, -0.1), (1400.1, -1.0 / 3.0), (800.0, 0.390625), (1500.0, -4.0)]
F64, RNE = z3.Float64(), z3.RNE()


# ---------------------------------------------------------------- B: containers
def container_work(P, item):
    _, op, nbits, nchans, nblocks = item
    from ..stream import build_stream
    st = build_stream()
    label = f"container:{op}[nbits={nbits},nchans={nchans}]"

    def on_path(ctx, rec):
        Ctx.cur = ctx
        if rec.err or rec.ts is None:
            Ctx.cur = None
            return
        P.reached += 1
        h = rec.ts.header
        up = h.updates or {}
        v = rec.vars
        start = v["start"]
        viol = []
        hn = up.get("nsamples", h.nsamples)
        viol.append(("nsamples = data length", term(hn) != rec.ts.data.length))
        viol.append(("nchans = 1", z3.BoolVal(up.get("nchans") != 1)))
        want_dm = 1.0 if op == "dedisperse" else 0
        viol.append(("dm records the applied DM", z3.BoolVal(up.get("dm") != want_dm)))
        got = up.get("tstart")
        okt = isinstance(got, tuple) and got[0] == "mjd_after_nsamps" and not ctx.sat(term(got[1]) != start)
        viol.append(("tstart advanced by start*tsamp", z3.BoolVal(False) if okt else (start != 0)))
        if op == "read_chan":
            f = up.get("fch1", h.fch1)
            from fractions import Fraction
            exp = z3.RealVal(Fraction(1500.0)) + z3.ToReal(v["ichan"]) * z3.RealVal(Fraction(-1.0))
            ft = f.e if isinstance(f, SReal) else z3.RealVal(Fraction(float(f)))
            viol.append(("fch1 labels the extracted channel", ft != exp))
        for name, c in viol:
            if ctx.check(c) == z3.unsat:
                P.obligation(f"{label}/{name}", "holds")
                continue
            params, _ = c06.concretize(ctx, rec, op, nbits, nchans, [c])
            params["check"] = name
            src = ("import sys, json\nfrom symx.concrete import c08\n"
                   f"sys.exit(c08.main_container(json.loads({json.dumps(json.dumps(params))})))\n")
            P.violation(f"{label}-{name}".replace(" ", "_").replace("/", "-").replace(":", "-"), f"{name} with {params}", src, model=params)
        Ctx.cur = None
    explore(c06.harness(st, op, nbits, nchans, 1, False), bound=nblocks, on_path=on_path, stats=P.stats, deadline_s=300)


# ---------------------------------------------------------------- C: read_block(fch1=...)
class SF:
    """symbolic IEEE-754 double (only what the channel-index expression needs)"""
    solver = None
    restricted = []

    def __init__(self, t):
        self.t = t

    @staticmethod
    def lift(x):
        if isinstance(x, SF):
            return x.t
        return z3.FPVal(float(x), F64)

    def __sub__(self, o):
        return SF(z3.fpSub(RNE, self.t, SF.lift(o)))

    def __rsub__(self, o):
        return SF(z3.fpSub(RNE, SF.lift(o), self.t))

    def __add__(self, o):
        return SF(z3.fpAdd(RNE, self.t, SF.lift(o)))

    __radd__ = __add__

    def __mul__(self, o):
        return SF(z3.fpMul(RNE, self.t, SF.lift(o)))

    __rmul__ = __mul__

    def __truediv__(self, o):
        return SF(z3.fpDiv(RNE, self.t, SF.lift(o)))

    def __rtruediv__(self, o):
        return SF(z3.fpDiv(RNE, SF.lift(o), self.t))

    def _decide(self, c):
        s = SF.solver
        a, b = s.check(c), s.check(z3.Not(c))
        if z3.unknown in (a, b):
            raise Inconclusive("FP solver unknown on a comparison")
        if a == z3.sat and b == z3.sat:
            # both outcomes occur inside the k range: continue with the accepted (False) side, record it
            s.add(z3.Not(c))
            SF.restricted.append(str(c)[:80])
            return False
        return a == z3.sat

    def __gt__(self, o):
        return self._decide(z3.fpGT(self.t, SF.lift(o)))

    def __lt__(self, o):
        return self._decide(z3.fpLT(self.t, SF.lift(o)))

    def __ge__(self, o):
        return self._decide(z3.fpGEQ(self.t, SF.lift(o)))

    def __le__(self, o):
        return self._decide(z3.fpLEQ(self.t, SF.lift(o)))

    def __format__(self, spec):
        return "<symf64>"


def readblock_work(P, item):
    _, f0, foff, kmax = item
    st = build_filreader()
    from sigpyproc import readers
    label = f"read_block(fch1=label_k)[fch1_0={f0},foff={foff:.6g},k<={kmax}]"
    captured = {}
    kbv = z3.BitVec("k", 16)
    K = z3.fpSignedToFP(RNE, z3.ZeroExt(16, kbv), F64)
    kint = z3.Int("kint")

    def cap_round(x, *a):
        if isinstance(x, SF):
            captured["r"] = z3.fpRoundToIntegral(RNE, x.t)
            captured["how"] = "round"
            return x
        return round(x, *a)

    def cap_int(x, *a):
        if isinstance(x, SF):
            if "r" not in captured:
                captured["r"] = z3.fpRoundToIntegral(z3.RTZ(), x.t)
                captured["how"] = "int (truncation)"
            return SInt(kint)
        from ..core import s_int
        return s_int(x, *a)

    from ..stack import READER_STUBS, RecBlock, passthrough_track
    from ..fileshim import NPfile
    from ..arrays import MV, SymBuf
    from ..core import s_max, s_min
    sub = dict(np=NPfile, allocate_buffer=st["allocate_buffer"], track=passthrough_track, memoryview=MV, bytearray=SymBuf,
               int=cap_int, round=cap_round, min=s_min, max=s_max, FilterbankBlock=RecBlock, FileReader=st["FileReader"])
    RF = rebind_class(readers.FilReader, sub, name="RFilReaderFP")
    C = kmax + 1

    def run(ctx):
        SF.solver = z3.Solver()
        SF.solver.set("timeout", 180000)
        SF.solver.add(z3.ULE(kbv, kmax))
        SF.restricted = []
        captured.clear()
        r, N, ns, _ = make_filreader(ctx, st, 8, C, 1, cls=RF)
        r._header.fch1, r._header.foff = f0, foff
        start, nsamps, m = z3.Int("start"), z3.Int("nsamps"), z3.Int("m")
        ctx.assume(z3.And(start >= 0, nsamps >= 1, start + nsamps <= N, kint >= 0, kint <= kmax, m >= 1, kint + m <= C))
        lab = SF(z3.fpAdd(RNE, z3.FPVal(f0, F64), z3.fpMul(RNE, K, z3.FPVal(foff, F64))))   # label of channel k as a user computes it
        out = dict(viol=[], fp=None, err=None, restricted=None)
        try:
            blk = r.read_block(SInt(start), SInt(nsamps), fch1=lab, nchans=SInt(m))
        except ValueError:
            out["err"] = "ValueError"
            return out
        out["restricted"] = list(SF.restricted)
        if "r" not in captured:
            raise Unsupported("read_block no longer derives the channel index through int()/round() of a float expression")
        out["fp"] = (captured["r"], captured["how"])
        d = blk.data
        c, t = z3.Int("c!sk"), z3.Int("t!sk")
        from ..fileshim import stream_elem
        out["viol"].append(("rows = requested channels", z3.Or(d.rows != m, d.cols != nsamps)))
        out["viol"].append(("rows are channels k..k+m", z3.And(c >= 0, c < m, t >= 0, t < nsamps, d.fn(c, t) != stream_elem("u1", (start + t) * C + kint + c))))
        up = blk.header.updates or {}
        out["viol"].append(("header nchans = rows", term(up.get("nchans", C)) != m))
        out["viol"].append(("header fch1 = requested label", z3.BoolVal(up.get("fch1") is not lab)))
        got = up.get("tstart")
        okt = isinstance(got, tuple) and got[0] == "mjd_after_nsamps" and not ctx.sat(term(got[1]) != start)
        out["viol"].append(("tstart advanced by start*tsamp", z3.BoolVal(not okt)))
        return out

    def on_path(ctx, out):
        Ctx.cur = ctx
        P.reached += 1
        if out["err"]:
            P.obligation(f"{label}/rejected-path", "holds", note="request rejected for every k on this path")
            Ctx.cur = None
            return
        for name, cnd in out["viol"]:
            if ctx.check(cnd) == z3.unsat:
                P.obligation(f"{label}/{name}", "holds")
            else:
                P.inconclusive_(f"{label}: integer-side obligation {name} failed; model {ctx.solver.model()}")
        r, how = out["fp"]
        import time
        t0 = time.time()
        s = z3.Solver()          # fresh, non-incremental: z3's bit-blasting tactic decides this in ~20 s
        s.set("timeout", 600000)
        s.add(*SF.solver.assertions())
        s.add(z3.Not(z3.fpEQ(r, K)))
        res = s.check()
        P.stats.queries += 1
        P.stats.solver_s += time.time() - t0
        oname = f"{label}/float expression maps the label of channel k back to k ({how})"
        if res == z3.unsat:
            P.obligation(oname, "holds", restricted_to=out["restricted"], fp_seconds=round(time.time() - t0, 1))
        elif res == z3.unknown:
            P.inconclusive_(f"{oname}: FP solver unknown")
        else:
            kv = s.model()[kbv].as_long()
            params = dict(fch1=f0, foff=foff, k=kv, nchans=kmax + 1)
            src = ("import sys, json\nfrom symx.concrete import c08\n"
                   f"sys.exit(c08.main_readblock(json.loads({json.dumps(json.dumps(params))})))\n")
            P.violation(f"read_block-fch1-{f0}-{foff:.4g}", f"label of channel {kv} (fch1_0={f0}, foff={foff}) is mapped to another channel", src, model=params)
        Ctx.cur = None
    explore(run, bound=3, on_path=on_path, stats=P.stats, deadline_s=900)


# ---------------------------------------------------------------- D: the time stamp arithmetic itself
def mjd_work(P, item):
    """Header.mjd_after_nsamps / obs_time (real bytecode) over an astropy Time contract: Time(mjd) + TimeDelta(s seconds)
    has .mjd = mjd + s/86400.  Decides that the product handed to TimeDelta is nsamps*tsamp in seconds and that the
    epoch is the header's tstart in MJD."""
    from ..core import rebind
    from sigpyproc import header

    class TimeStub:
        def __init__(self, val, format=None, scale=None, precision=None):
            self.val, self.format, self.scale = val, format, scale

        def __add__(self, d):
            if not isinstance(d, DeltaStub):
                raise TypeError("Time + non-TimeDelta")
            r = TimeStub(self.val, self.format, self.scale)
            r.val = self.val + d.days
            return r

        @property
        def mjd(self):
            if self.format != "mjd":
                raise Unsupported("epoch not given as MJD")
            return self.val

    class DeltaStub:
        def __init__(self, val, format=None):
            self.days = {"sec": val / 86400, "jd": val}[format]

    class NPt:
        @staticmethod
        def log10(x):
            return 0.0

        @staticmethod
        def ceil(x):
            return 4.0

    def run(ctx):
        t0, ts, n = SReal(z3.Real("tstart")), SReal(z3.Real("tsamp")), SInt(z3.Int("nsamps"))
        ctx.assume(z3.And(ts.e > 0, n.e >= 0))

        class H:
            tstart, tsamp = t0, ts
            obs_time = property(rebind(header.Header.obs_time.fget, Time=TimeStub, np=NPt, abs=lambda v: v, int=lambda v: 4))
        return rebind(header.Header.mjd_after_nsamps, TimeDelta=DeltaStub)(H(), n), t0, ts, n

    def on_path(ctx, o):
        Ctx.cur = ctx
        P.reached += 1
        got, t0, ts, n = o
        from ..core import wrap
        bad = wrap(got).e != t0.e + z3.ToReal(n.e) * ts.e / 86400
        if ctx.check(bad) == z3.unsat:
            P.obligation("mjd_after_nsamps(n) = tstart + n*tsamp/86400 days", "holds", symbolic=True)
        else:
            params = dict(kind="mjd")
            src = ("import sys, json\nfrom symx.concrete import c08\n"
                   f"sys.exit(c08.main(json.loads({json.dumps(json.dumps(params))})))\n")
            P.violation("mjd_after_nsamps", "mjd_after_nsamps(n) != tstart + n*tsamp/86400", src, model=params)
        Ctx.cur = None
    try:
        explore(run, bound=2, on_path=on_path, stats=P.stats, deadline_s=120)
    except Inconclusive as e:
        P.inconclusive_(f"mjd_after_nsamps: {e}")


# ---------------------------------------------------------------- E: headers of containers derived from containers
def methods_work(P, item):
    """TimeSeries.downsample / pad and FilterbankBlock.get_tim / dedisperse / pad_samples (real bytecode, recorder header,
    the real Header.dedispersed_header): tsamp scaled by the factor, nsamples = length of the data handed over, dm = the
    DM that was applied (the block's own, not the file's reference DM)."""
    import numpy as np
    from ..core import rebind, wrap
    from sigpyproc import block, header, timeseries
    obls = []

    class Hdr:
        def __init__(self, **kw):
            self.__dict__.update(kw)

        def new_header(self, upd=None):
            h = Hdr(**{k: v for k, v in self.__dict__.items() if k != "updates"})
            h.updates = dict(upd or {})
            for k, v in (upd or {}).items():
                setattr(h, k, v)
            return h
        dedispersed_header = header.Header.dedispersed_header

        def __getattr__(self, name):
            # any other header quantity: the real Header's property / method on this stand-in's fields
            if name.startswith("__"):
                raise AttributeError(name)
            a = header.Header.__dict__.get(name)
            if isinstance(a, property):
                return a.fget(self)
            if callable(a):
                import types as _t
                return _t.MethodType(a, self)
            raise AttributeError(name)

    class TS:
        def __init__(self, data, hdr, *a):
            self.data, self.header = data, hdr

    class FB:
        def __init__(self, data, hdr, dm=0):
            self.data, self.header, self.dm = data, hdr, dm
    tsamp, dmf, dmb = SReal(z3.Real("tsamp")), SReal(z3.Real("dm_file")), SReal(z3.Real("dm_block"))

    class StatsStub:
        @staticmethod
        def downsample_1d(data, factor, method="mean"):
            return np.zeros(len(data) // factor)

    class KStub:
        @staticmethod
        def roll_block(data, shifts):
            return np.zeros(data.shape)

        @staticmethod
        def roll_block_valid(data, shifts):
            return np.zeros((data.shape[0], data.shape[1] - 2))
    s = z3.Solver()
    s.add(tsamp.e > 0)

    def decide(name, cond, kind):
        P.stats.queries += 1
        r = s.check(cond)
        if r == z3.unsat:
            P.obligation(f"container methods/{name}", "holds", symbolic=True)
        else:
            params = dict(kind="methods", which=kind)
            src = ("import sys, json\nfrom symx.concrete import c08\n"
                   f"sys.exit(c08.main(json.loads({json.dumps(json.dumps(params))})))\n")
            P.violation(f"methods-{kind}-{name[:40]}".replace(" ", "_").replace("=", "").replace("*", "x").replace("/", "-"), f"container methods: {name}", src, model=params)
    for n, factor in ((7, 2), (9, 3), (8, 4), (5, 5)):
        me = TS(np.zeros(n), Hdr(tsamp=tsamp, nsamples=n, dm=dmf, nchans=1))
        out = rebind(timeseries.TimeSeries.downsample, stats=StatsStub, TimeSeries=TS)(me, factor)
        up = out.header.updates
        decide(f"TimeSeries.downsample[n={n},factor={factor}]: tsamp = tsamp*factor", z3.BoolVal(True) if "tsamp" not in up else wrap(up["tsamp"]).e != tsamp.e * factor, "ts_downsample")
        decide(f"TimeSeries.downsample[n={n},factor={factor}]: nsamples = n//factor = data length", z3.BoolVal(up.get("nsamples") != n // factor or len(out.data) != n // factor), "ts_downsample")
    me = TS(np.zeros(6), Hdr(tsamp=tsamp, nsamples=6, dm=dmf, nchans=1))
    out = rebind(timeseries.TimeSeries.pad, TimeSeries=TS)(me, 3)
    decide("TimeSeries.pad[6+3]: nsamples = data length", z3.BoolVal(out.header.updates.get("nsamples") != 9 or len(out.data) != 9), "ts_pad")
    blk = FB(np.zeros((3, 8)), Hdr(tsamp=tsamp, nsamples=8, dm=dmf, nchans=3, get_dmdelays=lambda dm, ref_freq="ch1": np.zeros(3, dtype=int)), dmb)
    t = rebind(block.FilterbankBlock.get_tim, TimeSeries=TS)(blk)
    up = t.header.updates
    decide("FilterbankBlock.get_tim: dm = the block's DM", z3.BoolVal(True) if "dm" not in up else wrap(up["dm"]).e != dmb.e, "get_tim")
    decide("FilterbankBlock.get_tim: nchans = 1 and one value per time sample", z3.BoolVal(up.get("nchans") != 1 or len(t.data) != 8), "get_tim")
    for valid, cols in ((False, 8), (True, 6)):
        dmx = SReal(z3.Real("dm_applied"))
        d = rebind(block.FilterbankBlock.__dict__["dedisperse"], kernels=KStub, FilterbankBlock=FB)(blk, dmx, only_valid_samples=valid)
        decide(f"FilterbankBlock.dedisperse[valid={valid}]: block records the applied DM", wrap(d.dm).e != dmx.e, "blk_dedisperse")
        decide(f"FilterbankBlock.dedisperse[valid={valid}]: nsamples = data length", z3.BoolVal(d.header.updates.get("nsamples") != cols or d.data.shape[1] != cols), "blk_dedisperse")
        t2 = rebind(block.FilterbankBlock.get_tim, TimeSeries=TS)(d)
        decide(f"dedisperse[valid={valid}] then get_tim: the time series records the applied DM", z3.BoolVal(True) if "dm" not in t2.header.updates else wrap(t2.header.updates["dm"]).e != dmx.e, "get_tim")
    P.reached += 1


def work(P, item):
    if item[0] == "methods":
        return methods_work(P, item)
    if item[0] == "mjd":
        return mjd_work(P, item)
    if item[0] == "container":
        return container_work(P, item)
    if item[0] == "readblock":
        return readblock_work(P, item)
    return c07.work(P, item)


def run(R):
    from sigpyproc import header, readers
    quick = c07.common_setup(R)
    R.encode(header.Header.new_header, readers.FilReader.read_block)
    chans = [CHANS[0], CHANS[2]] if quick else CHANS
    R.bounds["channelisations"] = [list(c) for c in chans]
    R.bounds["read_block_fch1"] = "k symbolic in [0,4096] (16-bit bit-vector -> IEEE double), channelisation from the list above"
    R.assume("Header.new_header applies the update dictionary it is given (recorded, not re-implemented)",
             "in the streaming harnesses mjd_after_nsamps(start) is an uninterpreted application; the method itself is decided separately over an astropy Time/TimeDelta contract "
             "(Time(mjd)+TimeDelta(s, 'sec') has mjd + s/86400); astropy's own two-double arithmetic (the 5 us tolerance) is outside the claim",
             "channel labels compared in exact arithmetic on the double values of fch1/foff (tolerance 1e-9 relative)")
    R.out_of_claim("float32 chan_freqs arrays", "channelisations not in the list", "PSRFITS headers (C18)")
    items = []
    for it in c07.items_for(R.tier, "viol08"):
        for ch in chans:
            op, nbits, nchans, nfiles, none, prm, nb, bud, dl, which = it
            if nbits != 8 and ch != chans[0]:
                continue
            p2 = dict(prm)
            p2["chan"] = ch
            items.append((op, nbits, nchans, nfiles, none, p2, nb, bud, dl, which))
    for op in ("collapse", "read_chan", "dedisperse"):
        items.append(("container", op, 8, 2, 3))
    for f0, fo in (chans[:1] if quick else chans):
        items.insert(0, ("readblock", f0, fo, 4096))
    items.append(("mjd",))
    items.append(("methods",))
    from sigpyproc import block as _block, timeseries as _ts
    R.encode(_ts.TimeSeries.downsample, _ts.TimeSeries.pad, _block.FilterbankBlock.get_tim, _block.FilterbankBlock.__dict__["dedisperse"], header.Header.dedispersed_header)
    R.encode(header.Header.mjd_after_nsamps, header.Header.obs_time.fget)
    parts = R.pmap(work, items)
    R.vacuity_witness("c08", sum(p.reached for p in parts) > 0)
    # twin: the truncating variant of the expression must be refuted for (1500, -0.1)
    kbv = z3.BitVec("k", 16)
    K = z3.fpSignedToFP(RNE, z3.ZeroExt(16, kbv), F64)
    lab = z3.fpAdd(RNE, z3.FPVal(1500.0, F64), z3.fpMul(RNE, K, z3.FPVal(-0.1, F64)))
    x = z3.fpDiv(RNE, z3.fpSub(RNE, lab, z3.FPVal(1500.0, F64)), z3.FPVal(-0.1, F64))
    s = z3.Solver()
    s.add(z3.ULE(kbv, 4096), z3.Not(z3.fpEQ(z3.fpRoundToIntegral(z3.RTZ(), x), K)))
    R.stats.queries += 1
    R.vacuity_witness("c08-twin(truncating index expression must have a counterexample)", s.check() == z3.sat)
