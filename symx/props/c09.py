"""C09 - one dispersion law, applied identically by every dedispersion path.

A. E1 on roll_block / roll_block_valid / dmt_block / dmt_block_valid (numba typed IR): symbolic
   data and symbolic integer shift vectors (forked over their values up to a bound);
B. the real FilterbankBlock.dedisperse / dmt_transform bytecode on top of the interpreted kernels:
   every entry point outputs x[c, t + delay_c] for the delays of the DM it reports;
C. the real compute_dmdelays in exact arithmetic (object arrays of symbolic reals);
D. the real FilReader.read_dedisp_block on a symbolic file (concrete small shapes, symbolic samples).
(The streamed Filterbank.dedisperse is decided in C06.)"""
from __future__ import annotations

import itertools
import json
from fractions import Fraction

import numpy as np
import z3
from numba.core import types

from ..core import NumpyFallback, Ctx, Cut, Inconclusive, SBool, SInt, SReal, Unsupported, explore, rebind, rebind_class, wrap
from ..nbsym import Interp, KernelRaise, NArr, Sym, capture, sym_array

f4 = types.float32
A2 = types.Array(types.float32, 2, "C")
I1 = types.Array(types.int32, 1, "C")
I2 = types.Array(types.int32, 2, "C")


def T(v):
    if isinstance(v, Sym):
        return v.t
    if isinstance(v, (int, np.integer)):
        return z3.RealVal(int(v))
    return z3.RealVal(Fraction(float(v)))


def Rr(t):
    return z3.ToReal(t) if t.sort() == z3.IntSort() else t


def sym_data(it, rows, cols):
    return sym_array(it, "x", A2, (rows, cols))


def sym_shifts(name, n, lo, hi, cons):
    a = NArr(types.int32, (n,), name=name)
    for i in range(n):
        v = z3.Int(f"{name}{i}")
        cons += [v >= lo, v <= hi]
        a.store[i] = Sym(v, types.int32)
    return a


def ite_index(elems, idx):
    """elems[idx] for a symbolic idx in range"""
    r = elems[-1]
    for i in range(len(elems) - 2, -1, -1):
        r = z3.If(idx == i, elems[i], r)
    return r


def violation(P, key, desc, params):
    src = ("import sys, json\nfrom symx.concrete import c09\n"
           f"sys.exit(c09.main(json.loads({json.dumps(json.dumps(params))})))\n")
    P.violation(key, f"{desc}: {params}", src, model=params)


def model_ints(ctx, terms):
    m = ctx.solver.model()
    return [m.eval(t, model_completion=True).as_long() for t in terms]


# ---------------------------------------------------------------- A: kernels
def kernel_work(P, item):
    _, name, rows, cols = item
    from sigpyproc.core import kernels as K
    bound = cols + 1

    def run(ctx):
        cons = []
        if name in ("roll_block", "roll_block_valid"):
            cap = capture(getattr(K, name), (A2, I1))
            it = Interp(cap, "int")
            x = sym_data(it, rows, cols)
            sh = sym_shifts("s", rows, -bound, bound, cons)
            for c in cons:
                ctx.assume(c)
            shv = [e.t for e in sh.store]
            try:
                r = it.run([x, sh])
            except KernelRaise as e:
                return dict(kind=name, x=x, sh=shv, raised=e.exc_class.__name__)
            return dict(kind=name, x=x, sh=shv, res=r, raised=None)
        ndm = 2
        cap = capture(getattr(K, name), (A2, I2))
        it = Interp(cap, "int")
        x = sym_data(it, rows, cols)
        dl = NArr(types.int32, (ndm, rows), name="delays")
        shv = []
        for i in range(ndm * rows):
            v = z3.Int(f"d{i}")
            ctx.assume(z3.And(v >= -bound, v <= bound))
            dl.store[i] = Sym(v, types.int32)
            shv.append(v)
        try:
            r = it.run([x, dl])
        except KernelRaise as e:
            return dict(kind=name, x=x, sh=shv, raised=e.exc_class.__name__, ndm=ndm)
        return dict(kind=name, x=x, sh=shv, res=r, raised=None, ndm=ndm)

    def on_path(ctx, out):
        Ctx.cur = ctx
        P.reached += 1
        x, sh = out["x"], out["sh"]
        X = [[T(x.get((r_, c))) for c in range(cols)] for r_ in range(rows)]
        viol = []
        kind = out["kind"]
        if kind == "roll_block":
            if out["raised"]:
                viol.append(("raised", z3.BoolVal(True)))
            else:
                r = out["res"]
                viol.append(("shape", z3.BoolVal(r.shape != (rows, cols))))
                for i in range(rows):
                    for j in range(cols):
                        want = ite_index(X[i], (j - sh[i]) % cols)
                        viol.append((f"res[{i},{j}] = arr[{i},(j-shift) mod n]", Rr(T(r.get((i, j)))) != Rr(want)))
        elif kind == "roll_block_valid":
            mx = z3.IntVal(0)
            mn = z3.IntVal(0)
            for s in sh:
                mx = z3.If(s > mx, s, mx)
                mn = z3.If(s < mn, s, mn)
            width = cols + mn - mx
            if out["raised"]:
                viol.append(("ValueError only when no valid column exists", width > 0))
            else:
                r = out["res"]
                viol.append(("accepted although no valid column exists", width <= 0))
                viol.append(("width = ncols - shift range", z3.BoolVal(r.shape[0] != rows) if r.shape[0] != rows else (width != r.shape[1])))
                for i in range(rows):
                    for j in range(r.shape[1]):
                        want = ite_index(X[i], mx - sh[i] + j)
                        viol.append((f"res[{i},{j}] = arr[{i}, start-shift+j]", Rr(T(r.get((i, j)))) != Rr(want)))
        else:
            ndm = out["ndm"]
            D = [[sh[d * rows + c] for c in range(rows)] for d in range(ndm)]
            if kind == "dmt_block":
                if out["raised"]:
                    viol.append(("raised", z3.BoolVal(True)))
                else:
                    r = out["res"]
                    viol.append(("shape", z3.BoolVal(r.shape != (ndm, cols))))
                    for d in range(ndm):
                        for j in range(cols):
                            want = z3.Sum([Rr(ite_index(X[c], (j - D[d][c]) % cols)) for c in range(rows)])
                            viol.append((f"res[{d},{j}] = sum_c arr[c,(j-shift_dc) mod n]", Rr(T(r.get((d, j)))) != want))
            else:
                mx = z3.IntVal(0)
                mn = z3.IntVal(0)
                for s in sh:
                    mx = z3.If(s > mx, s, mx)
                    mn = z3.If(s < mn, s, mn)
                width = cols + mn - mx
                if out["raised"]:
                    viol.append(("ValueError only when no valid column exists", width > 0))
                else:
                    r = out["res"]
                    viol.append(("accepted although no valid column exists", width <= 0))
                    viol.append(("width = ncols - global shift range", width != r.shape[1]))
                    for d in range(ndm):
                        for j in range(r.shape[1]):
                            want = z3.Sum([Rr(ite_index(X[c], mx - D[d][c] + j)) for c in range(rows)])
                            viol.append((f"res[{d},{j}] = sum_c arr[c, start-shift_dc+j]", Rr(T(r.get((d, j)))) != want))
        conds = [c for _, c in viol]
        if ctx.check(z3.Or(conds)) == z3.unsat:
            for n_, _ in viol:
                P.obligation(f"kernel:{kind}[{rows}x{cols}]/{n_}", "holds")
        else:
            for n_, c in viol:
                if ctx.check(c) == z3.unsat:
                    P.obligation(f"kernel:{kind}[{rows}x{cols}]/{n_}", "holds")
                    continue
                shv = model_ints(ctx, sh)
                params = dict(kind="kernel", kernel=kind, rows=rows, cols=cols, shifts=shv, ndm=out.get("ndm"))
                violation(P, f"kernel-{kind}-{rows}x{cols}-{n_}".replace(" ", "_").replace("/", "-"), f"{kind}: {n_}", params)
                break
        Ctx.cur = None
        return "stop" if len(P.cands) >= 2 else None
    try:
        explore(run, bound=bound, on_path=on_path, stats=P.stats, deadline_s=600, maxpaths=200000)
    except Inconclusive:
        if not P.cands:
            raise


# ---------------------------------------------------------------- B: block methods on interpreted kernels
class SymVec:
    """delay vector / table returned by header.get_dmdelays (symbolic int32)"""

    def __init__(self, narr):
        self.n = narr

    def __neg__(self):
        out = NArr(self.n.dtype, self.n.shape, name="neg")
        out.store = [Sym(-e.t, types.int32) if isinstance(e, Sym) else -e for e in self.n.store]
        return SymVec(out)


class KInterp:
    """kernels.* replaced by symbolic interpretation of their typed IR"""

    def __getattr__(self, name):
        from sigpyproc.core import kernels as K
        disp = getattr(K, name)

        def call(data, delays):
            d = delays.n if isinstance(delays, SymVec) else delays
            ty = I1 if d.ndim == 1 else I2
            it = Interp(capture(disp, (A2, ty)), "int")
            try:
                return it.run([data, d])
            except KernelRaise as e:
                raise e.exc_class(*e.exc_args)
        return call


class BRec:
    def __init__(self, data, header, *a):
        self.data, self.header, self.extra = data, header, a
        if data.shape[1] != header.nsamples:
            raise ValueError("Input data length does not match header nsamples")


class BHdr:
    def __init__(self, nsamples, delays, nchans):
        self.nsamples, self.delays, self.nchans, self.updates = nsamples, delays, nchans, None

    def get_dmdelays(self, dm, ref_freq="ch1", **k):
        return self.delays

    def new_header(self, upd=None):
        h = BHdr(self.nsamples, self.delays, self.nchans)
        h.updates = dict(upd or {})
        for k, v in (upd or {}).items():
            if k in ("nsamples", "nchans"):
                setattr(h, k, v)
        return h


def block_work(P, item):
    _, method, valid, rows, cols = item
    from sigpyproc import block
    bound = cols + 1
    fn = rebind(getattr(block.FilterbankBlock, method), kernels=KInterp(), FilterbankBlock=BRec, DMTBlock=BRec, np=np)
    ndm = 2

    def run(ctx):
        it = Interp(capture(__import__("sigpyproc.core.kernels", fromlist=["x"]).roll_block, (A2, I1)), "int")
        x = sym_data(it, rows, cols)
        n = rows if method == "dedisperse" else ndm * rows
        dl = NArr(types.int32, (rows,) if method == "dedisperse" else (ndm, rows), name="delays")
        dv = []
        for i in range(n):
            v = z3.Int(f"d{i}")
            ctx.assume(z3.And(v >= 0, v <= bound))     # delays of a DM >= 0 on a descending band
            dl.store[i] = Sym(v, types.int32)
            dv.append(v)

        class Self:
            data = x
            header = BHdr(cols, SymVec(dl), rows)
        try:
            if method == "dedisperse":
                out = fn(Self(), 10.0, only_valid_samples=valid)
            else:
                out = fn(Self(), 10.0, dmsteps=ndm, only_valid_samples=valid)
        except ValueError as e:
            return dict(x=x, dv=dv, raised="ValueError", msg=str(e))
        return dict(x=x, dv=dv, raised=None, out=out)

    def on_path(ctx, o):
        Ctx.cur = ctx
        P.reached += 1
        x, dv = o["x"], o["dv"]
        X = [[T(x.get((r_, c))) for c in range(cols)] for r_ in range(rows)]
        mxd = z3.IntVal(0)
        for s in dv:
            mxd = z3.If(s > mxd, s, mxd)
        label = f"FilterbankBlock.{method}[{'valid' if valid else 'rotate'},{rows}x{cols}]"
        viol = []
        if o["raised"]:
            viol.append(("raises only when the delay range exceeds the block", (mxd < cols) if valid else z3.BoolVal(True)))
        else:
            r = o["out"].data
            if valid:
                viol.append(("output length = nsamples - maxdelay", r.shape[1] != cols - mxd))
            else:
                viol.append(("output length = nsamples", z3.BoolVal(r.shape[1] != cols)))
            hn = o["out"].header.nsamples
            viol.append(("header nsamples = output length", z3.BoolVal(hn != r.shape[1])))
            nrow = rows if method == "dedisperse" else ndm
            viol.append(("rows", z3.BoolVal(r.shape[0] != nrow)))
            for i in range(r.shape[0]):
                for j in range(r.shape[1]):
                    if method == "dedisperse":
                        idx = (j + dv[i]) if valid else (j + dv[i]) % cols
                        want = Rr(ite_index(X[i], idx))
                        nm = f"out[{i},{j}] = x[{i}, t+delay]"
                    else:
                        want = z3.Sum([Rr(ite_index(X[c], (j + dv[i * rows + c]) if valid else (j + dv[i * rows + c]) % cols)) for c in range(rows)])
                        nm = f"out[dm{i},{j}] = sum_c x[c, t+delay_c(dm{i})]"
                    viol.append((nm, Rr(T(r.get((i, j)))) != want))
        for n_, c in viol:
            if ctx.check(c) == z3.unsat:
                P.obligation(f"{label}/{n_}", "holds")
                continue
            params = dict(kind="block", method=method, valid=valid, rows=rows, cols=cols, delays=model_ints(ctx, dv), ndm=ndm)
            violation(P, f"block-{method}-{'valid' if valid else 'rotate'}-{n_}".replace(" ", "_").replace("/", "-").replace("[", "_").replace("]", "_").replace(",", "_"),
                      f"{label}: {n_}", params)
            break
        Ctx.cur = None
        return "stop" if len(P.cands) >= 2 else None
    try:
        explore(run, bound=bound, on_path=on_path, stats=P.stats, deadline_s=600, maxpaths=200000)
    except Inconclusive:
        if not P.cands:
            raise


# ---------------------------------------------------------------- C: compute_dmdelays in exact arithmetic
class OArr(np.ndarray):
    """object array of symbolic reals: float casts are identities in the exact model, a cast to an
    integer dtype truncates toward zero, round is half-even"""

    def astype(self, dt, *a, **k):
        try:
            isint = np.issubdtype(np.dtype(dt), np.integer)
        except TypeError:
            isint = False
        if not isint:
            return self
        out = np.empty(self.shape, dtype=object)
        for i in np.ndindex(self.shape):
            v = self[i]
            out[i] = v.trunc() if isinstance(v, SReal) else v
        return out.view(OArr)

    def round(self, *a, **k):
        out = np.empty(self.shape, dtype=object)
        for i in np.ndindex(self.shape):
            out[i] = self[i].round_half_even()
        return out.view(OArr)


class NPdelay(metaclass=NumpyFallback):
    float32 = np.float32
    int32 = np.int32
    newaxis = np.newaxis

    @staticmethod
    def atleast_1d(x):
        a = np.atleast_1d(np.asarray(x, dtype=object) if not isinstance(x, np.ndarray) else x)
        return a.view(OArr)


def delays_work(P, item):
    from sigpyproc import params
    fn = rebind(params.compute_dmdelays, np=NPdelay)
    K = Fraction(4.148808e3)      # the documented dispersion constant (property text), not whatever the library currently uses
    st = z3.Solver()
    st.set("timeout", 60000)
    nch = 3
    # u_c = f_c^-2 (fresh, positive): keeps the arithmetic polynomial; f1 <= f2  <=>  u1 >= u2
    us = [z3.Real(f"u{c}") for c in range(nch)]
    ur, dm, ts = z3.Real("u_ref"), z3.Real("dm"), z3.Real("tsamp")

    class Freq(SReal):
        def __pow__(self, k):
            if k == -2:
                return SReal(self.e)
            raise Unsupported("freq power")
    freqs = np.array([Freq(u) for u in us], dtype=object)

    class Ref(float):
        pass
    ref = Freq(ur)
    pre = [u > 0 for u in us] + [ur > 0, ts > 0]
    d = fn(freqs, SReal(dm), SReal(ts), ref)
    dneg = fn(freqs, SReal(-dm), SReal(ts), ref)
    dref = fn(np.array([Freq(ur)], dtype=object), SReal(dm), SReal(ts), ref)
    obl = []
    de = [x.e for x in np.atleast_1d(d)]
    obl.append(("zero at the reference frequency", np.atleast_1d(dref)[0].e != 0))
    obl.append(("antisymmetric in DM", z3.Or([a.e != -b for a, b in zip(np.atleast_1d(dneg), de)])))
    obl.append(("monotone in frequency (DM >= 0)", z3.And(dm >= 0, us[0] >= us[1], de[0] < de[1])))
    exact = [z3.RealVal(K) * dm * (u - ur) / ts for u in us]
    obl.append(("within half a sample of 4.148808e3*DM*(f^-2 - fref^-2)/tsamp", z3.Or([z3.Or(z3.ToReal(a) - e > Fraction(1, 2), e - z3.ToReal(a) > Fraction(1, 2)) for a, e in zip(de, exact)])))
    for name, c in obl:
        s = z3.Solver()
        s.set("timeout", 120000)
        s.add(*pre)
        P.stats.queries += 1
        r = s.check(c)
        for seed in (1, 2, 3):
            if r != z3.unknown:
                break
            # nonlinear real arithmetic with rounding: z3's answer time varies a lot with its random choices
            s = z3.Solver()
            s.set("timeout", 120000)
            s.set("random_seed", seed)
            s.add(*pre)
            P.stats.queries += 1
            r = s.check(c)
        if r == z3.unsat:
            P.obligation(f"compute_dmdelays/{name}", "holds", symbolic=True)
        elif r == z3.unknown:
            P.inconclusive_(f"compute_dmdelays/{name}: solver unknown")
        else:
            m = s.model()
            # prefer a witness in a physically ordinary range and, for the rounding obligation, one that is off by more than
            # a whole sample (the replay cannot judge float32 evaluations that sit on a rounding boundary)
            s2 = z3.Solver()
            s2.set("timeout", 30000)
            s2.add(*pre)
            s2.add(*[z3.And(u >= z3.RealVal("1/100000000"), u <= z3.RealVal("1/10000")) for u in us], ur >= z3.RealVal("1/100000000"), ur <= z3.RealVal("1/10000"),
                   ts >= z3.RealVal("1/100000"), ts <= 1, dm >= -3000, dm <= 3000)
            strong = z3.Or([z3.Or(z3.ToReal(a) - e > 1, e - z3.ToReal(a) > 1) for a, e in zip(de, exact)]) if name.startswith("within half") else c
            if s2.check(strong) == z3.sat:
                m = s2.model()

            def fv(t):
                v = m.eval(t, model_completion=True)
                return float(Fraction(v.numerator_as_long(), v.denominator_as_long()))
            params_ = dict(kind="delays", check=name, freqs=[fv(u) ** -0.5 for u in us], ref=fv(ur) ** -0.5, dm=fv(dm), tsamp=fv(ts))
            violation(P, "compute_dmdelays-" + name[:30].replace(" ", "_").replace("(", "").replace(")", "").replace(">", "").replace("=", ""), f"compute_dmdelays: {name}", params_)
    P.reached += 1
    # reference frequency selection of Header.get_dmdelays: the real method and the real band-geometry properties
    # (ftop, fcenter, chan_freqs, fmax, fmin) on a header with symbolic fch1 / foff
    from sigpyproc import header
    H_ = header.Header

    for nch in (1, 2, 3, 4):
        for rf in ("ch1", "max", "min", "center", 1234.5, 1300, "bogus"):
            def body(ctx, nch=nch, rf=rf):
                calls = []

                class PStub:
                    @staticmethod
                    def compute_dmdelays(freqs, dm, tsamp, fref, in_samples=True):
                        calls.append((list(np.asarray(freqs, dtype=object).ravel()), dm, tsamp, fref, in_samples))
                        return "delays"

                class HS:
                    nchans = nch
                    fch1, foff, tsamp = SReal(z3.Real("fch1")), SReal(z3.Real("foff")), SReal(z3.Real("tsamp"))
                    ftop = property(H_.ftop.fget)
                    fbottom = property(H_.fbottom.fget)
                    fcenter = property(H_.fcenter.fget)
                    bandwidth = property(H_.bandwidth.fget)
                    chan_freqs = property(rebind(H_.chan_freqs.fget))
                    fmax = property(H_.fmax.fget)
                    fmin = property(H_.fmin.fget)
                ctx.assume(HS.foff.e != 0)
                class _FM(type):
                    def __instancecheck__(cls, x):
                        return isinstance(x, float)

                class FloatShim(metaclass=_FM):
                    """float(): identity on symbolic reals, the real conversion otherwise"""
                    def __new__(cls, v):
                        return v if isinstance(v, (SReal, SInt)) else float(v)
                g = rebind(H_.get_dmdelays, params=PStub, float=FloatShim)
                try:
                    g(HS(), 10.0, ref_freq=rf)
                    return calls, None
                except ValueError:
                    return calls, "ValueError"

            def on_path(ctx, res, nch=nch, rf=rf):
                Ctx.cur = ctx
                calls, err = res
                fch1, foff = z3.Real("fch1"), z3.Real("foff")
                cf = [fch1 + c * foff for c in range(nch)]
                label = f"Header.get_dmdelays[nchans={nch},ref_freq={rf!r}]"
                params_ = dict(kind="reffreq", nchans=nch, ref_freq=rf)
                bad = None
                if rf == "bogus":
                    bad = z3.BoolVal(err != "ValueError")
                elif err is not None or len(calls) != 1:
                    bad = z3.BoolVal(True)
                else:
                    freqs, dm, ts, fref, ins = calls[0]
                    hi = cf[0]
                    lo = cf[0]
                    for c in cf[1:]:
                        hi, lo = z3.If(c > hi, c, hi), z3.If(c < lo, c, lo)
                    want = {"ch1": fch1, "max": hi, "min": lo, "center": (hi + lo) / 2}[rf] if isinstance(rf, str) else z3.RealVal(str(rf))
                    bad = z3.Or([wrap(fref).e != want, wrap(ts).e != z3.Real("tsamp"), z3.BoolVal(len(freqs) != nch or dm != 10.0 or ins is not True)]
                                + [wrap(a).e != b for a, b in zip(freqs, cf)])
                r = ctx.check(bad)
                if r == z3.unsat:
                    P.obligation(label + ": reference frequency, channel frequencies and sampling time handed to the delay formula", "holds", symbolic=True)
                else:
                    m = ctx.solver.model()
                    fv = lambda t: float(Fraction(m.eval(t, model_completion=True).numerator_as_long(), m.eval(t, model_completion=True).denominator_as_long()))
                    params_.update(fch1=fv(fch1), foff=fv(foff))
                    violation(P, f"get_dmdelays-reffreq-{nch}-{rf}", label, params_)
                Ctx.cur = None
            try:
                explore(body, bound=4, on_path=on_path, stats=P.stats, deadline_s=120)
            except Inconclusive as e:
                P.inconclusive_(f"get_dmdelays reference frequency: {e}")


# ---------------------------------------------------------------- D: read_dedisp_block
def rdb_work(P, item):
    _, nchans, nsamps, start, delays = item
    from ..stack import build_filreader, make_filreader, RecBlock, passthrough_track
    from ..fileshim import stream_elem
    from ..arrays import FArr
    from sigpyproc import readers
    st = build_filreader()

    class NPo:
        def __getattr__(self, n):
            return getattr(np, n)

        def zeros(self, shape, dtype=None):
            if dtype is int or (isinstance(shape, tuple) is False and dtype is int):
                return np.zeros(shape, dtype=int)
            a = np.empty(shape, dtype=object)
            for i in np.ndindex(a.shape):
                a[i] = z3.IntVal(0)
            return a
    dl = np.array(delays, dtype=np.int32)

    def run(ctx):
        r, N, ns, _ = make_filreader(ctx, st, 8, nchans, 1)
        ctx.assume(N >= start + nsamps + int(dl.max()))
        r._header.get_dmdelays = lambda dm: dl
        # wrap cread so that numpy fancy indexing works on its (concrete-length) result
        real_cread = r._file.cread

        def cread(n):
            fa = real_cread(n)
            ln = SInt(fa.length).__index__()     # uniquely determined under the path condition
            return np.array([fa.fn(z3.IntVal(i)) for i in range(ln)], dtype=object)
        r._file.cread = cread
        fn = rebind(readers.FilReader.read_dedisp_block, np=NPo(), track=passthrough_track, FilterbankBlock=RecBlockND)
        try:
            blk = fn(r, start, nsamps, 10.0)
        except (ValueError, IndexError) as e:
            return dict(raised=type(e).__name__)
        return dict(raised=None, blk=blk)

    def on_path(ctx, o):
        Ctx.cur = ctx
        P.reached += 1
        label = f"read_dedisp_block[nchans={nchans},nsamps={nsamps},start={start},delays={list(delays)}]"
        if o["raised"]:
            c = z3.BoolVal(True)
            viol = [("in-range request raised " + o["raised"], c)]
        else:
            d = o["blk"].data
            viol = [("shape", z3.BoolVal(d.shape != (nchans, nsamps)))]
            if d.shape == (nchans, nsamps):
                for c_ in range(nchans):
                    for t in range(nsamps):
                        want = stream_elem("u1", z3.IntVal((start + t + int(dl[c_])) * nchans + c_))
                        viol.append((f"out[{c_},{t}] = x[{c_}, t+delay]", d[c_, t] != want))
        for n_, c in viol:
            if ctx.check(c) == z3.unsat:
                P.obligation(f"{label}/{n_}", "holds")
                continue
            params = dict(kind="read_dedisp_block", nchans=nchans, nsamps=nsamps, start=start, delays=list(map(int, delays)))
            violation(P, f"read_dedisp_block-{nchans}-{nsamps}-{start}-{'_'.join(map(str, delays))}", f"{label}: {n_}", params)
            break
        Ctx.cur = None
    explore(run, bound=4, on_path=on_path, stats=P.stats, deadline_s=300)


class RecBlockND:
    def __init__(self, data, header, dm=0):
        self.data, self.header, self.dm = data, header, dm


def work(P, item):
    return {"kernel": kernel_work, "block": block_work, "delays": delays_work, "rdb": rdb_work}[item[0]](P, item)


def run(R):
    from sigpyproc import block, header, params, readers
    from sigpyproc.core import kernels as K
    R.encode(K.roll_block, K.roll_block_valid, K.dmt_block, K.dmt_block_valid, block.FilterbankBlock.dedisperse, block.FilterbankBlock.dmt_transform,
             params.compute_dmdelays, header.Header.get_dmdelays, readers.FilReader.read_dedisp_block)
    quick = R.tier == "quick"
    shapes = [(2, 3)] if quick else [(2, 3), (2, 4), (3, 3)]
    R.bounds.update(dict(kernels=f"rows x cols in {shapes}, symbolic float data, every integer shift in [-(cols+1), cols+1] per row (paths forked per value), 2 DMs for the DM-time kernels",
                         blocks="same shapes; delays in [0, cols+1] (DM >= 0, descending band)",
                         delays="3 channels; f^-2 abstracted to positive reals u_c (order-reversing), DM, tsamp, reference symbolic reals",
                         read_dedisp_block="nchans 2..3, nsamps 1..3, start 0..1, delay vectors from a small alphabet; sample values symbolic; file length unbounded"))
    R.assume("exact arithmetic for the delay formula (float32 evaluation near a rounding boundary is outside the claim)",
             "the rotation variants are cyclic: x[c, (t + delay_c) mod nsamples]", "header.get_dmdelays stubbed by a symbolic delay vector in the block harnesses")
    R.out_of_claim("shifts outside the stated range (equivalent modulo ncols, not proved)", "streamed dedispersion (C06)", "PSRFITS (C18)")
    items = []
    for rows, cols in shapes:
        for k in ("roll_block", "roll_block_valid", "dmt_block", "dmt_block_valid"):
            if k.startswith("dmt") and (rows, cols) != shapes[0] and quick:
                continue
            if k.startswith("dmt") and rows * cols > 8:
                continue
            items.append(("kernel", k, rows, cols))
        for valid in (False, True):
            items.append(("block", "dedisperse", valid, rows, cols))
            if rows * cols <= 8:
                items.append(("block", "dmt_transform", valid, rows, cols))
    items.append(("delays",))
    rdb = [(2, 2, 0, (0, 1)), (3, 2, 1, (0, 1, 2)), (2, 3, 0, (0, 0)), (3, 1, 0, (0, 2, 2))]
    if not quick:
        rdb += [(3, 3, 1, (0, 1, 3)), (2, 1, 1, (0, 3)), (3, 2, 0, (0, 0, 1))]
    items += [("rdb",) + c for c in rdb]
    from .. import kvalid
    kvalid.validate(R, ["roll_block", "roll_block_valid", "dmt_block", "dmt_block_valid"])
    parts = R.pmap(work, items)
    R.vacuity_witness("c09", sum(p.reached for p in parts) > 0)
    # twin: roll_block with the opposite sign convention must be refuted
    it = Interp(capture(K.roll_block, (A2, I1)), "int")
    x = sym_data(it, 1, 3)
    sh = NArr(types.int32, (1,), name="s")
    sh.store = [1]
    r = it.run([x, sh])
    s = z3.Solver()
    s.add(T(r.get((0, 0))) != T(x.get((0, 1))))
    R.stats.queries += 1
    R.vacuity_witness("c09-twin(roll by +1 is not a roll by -1)", s.check() == z3.sat)
