"""C10 - online channel statistics do not depend on how the stream is chunked or merged.

E1 (numba typed IR, exact real arithmetic) on update_moments(_basic), compute_online_moments(_basic)
and add_online_moments: every composition of a symbolic stream into chunks and every split point;
integer overflow obligations of every typed integer operation; E2/FP on the guarded divisions of
ChannelStats.var/skew/kurtosis (IEEE float32/float64 terms)."""
from __future__ import annotations

import itertools
import json
import time
from fractions import Fraction

import numpy as np
import z3
from numba.core import types

from ..core import Inconclusive, Unsupported, rebind
from ..kernel_specs import moments_ty
from ..nbsym import Interp, NArr, Sym, capture, irange

F4 = types.float32
f4a = types.Array(types.float32, 1, "C")


def compositions(n):
    for k in range(n):
        for cuts in itertools.combinations(range(1, n), k):
            b = (0,) + cuts + (n,)
            yield [b[i + 1] - b[i] for i in range(len(b) - 1)]


def fresh_moments(mty, nch):
    m = NArr(mty.dtype, (nch,), name="moments")
    m.store = [dict(count=0, m1=0.0, m2=0.0, m3=0.0, m4=0.0, min=0.0, max=0.0) for _ in range(nch)]
    return m


def accumulate(cap, mty, xs, chunks, nch, first_flag=0):
    m = fresh_moments(mty, nch)
    pos = 0
    for ci, n in enumerate(chunks):
        it = Interp(cap, "int")
        a = NArr(F4, (n * nch,), name="array")
        a.store = xs[pos:pos + n * nch]
        pos += n * nch
        it.run([a, m, ci + first_flag])
    return m


def T(v):
    return v.t if isinstance(v, Sym) else (z3.RealVal(Fraction(v)) if not isinstance(v, int) else z3.IntVal(v))


def R_(t):
    return z3.ToReal(t) if t.sort() == z3.IntSort() else t


def two_pass(vals):
    n = len(vals)
    mean = z3.Sum(vals) / n
    mn, mx = vals[0], vals[0]
    for v in vals[1:]:
        mn = z3.If(v < mn, v, mn)
        mx = z3.If(v > mx, v, mx)
    return dict(count=z3.IntVal(n), m1=mean, m2=z3.Sum([(v - mean) ** 2 for v in vals]), m3=z3.Sum([(v - mean) ** 3 for v in vals]),
                m4=z3.Sum([(v - mean) ** 4 for v in vals]), min=mn, max=mx)


def on_paths(P, body, then):
    """run `body` under the E2 path explorer (data-dependent branches of the kernels fork) and hand every path's
    result and path condition to `then`"""
    from ..core import Inconclusive, explore
    try:
        explore(lambda ctx: body(), bound=4, on_path=lambda ctx, res: then(res, list(ctx.pc)), stats=P.stats, deadline_s=600)
    except Inconclusive as e:
        P.inconclusive_(f"path exploration: {e}")


def check_record(P, label, rec, spec, fields, xs, replay_params, pc=()):
    """one query per field (polynomial identities and the ite-chains of min/max do not mix well)"""
    for f in fields:
        s = z3.Solver()
        s.add(*pc)
        s.set("timeout", 60000)
        P.stats.queries += 1
        t0 = time.time()
        lhs, rhs = R_(T(rec[f])), R_(spec[f])
        if f in ("m1", "m2", "m3", "m4"):
            # polynomial identity: let z3 expand the difference into a sum of monomials first
            diff = z3.simplify(lhs - rhs, som=True)
            s2 = z3.Tactic("qfnra-nlsat").solver()
            s2.set("timeout", 60000)
            s2.add(*pc)
            r = s2.check(diff != 0)
            if r == z3.unknown:
                r = s.check(diff != 0)
            elif r == z3.sat:
                s = s2
        else:
            r = s.check(lhs != rhs)
        P.stats.solver_s += time.time() - t0
        if f in ("count", "min", "max"):
            P.stats.note_query(list(pc) + [lhs != rhs], r)
        if r == z3.unsat:
            P.obligation(f"{label}/{f}", "holds", symbolic=True)
            continue
        if r == z3.unknown:
            P.inconclusive_(f"{label}/{f}: solver unknown")
            continue
        m = s.model()
        vals = []
        for x in xs:
            v = m.eval(x.t, model_completion=True)
            vals.append(float(Fraction(v.numerator_as_long(), v.denominator_as_long())))
        params = dict(replay_params)
        params["data"] = vals
        src = ("import sys, json\nfrom symx.concrete import c10\n"
               f"sys.exit(c10.main(json.loads({json.dumps(json.dumps(params))})))\n")
        key = (label + "-" + f).replace("/", "-").replace(" ", "_").replace("[", "_").replace("]", "_").replace(",", "_").replace("|", "_")
        P.violation(key, f"{label}/{f} with data {vals}", src, model=params)
        return


def chunk_work(P, item):
    _, mode, n, nch = item
    from sigpyproc.core import kernels as K
    mty = moments_ty()
    disp = K.compute_online_moments if mode == "full" else K.compute_online_moments_basic
    cap = capture(disp, (f4a, mty, types.int64))
    fields = ("count", "m1", "m2", "m3", "m4", "min", "max") if mode == "full" else ("count", "m1", "m2", "min", "max")
    xs = [Sym(z3.Real(f"x{i}"), F4) for i in range(n * nch)]
    for comp in compositions(n):
        def then(m, pc, comp=comp):
            for c in range(nch):
                spec = two_pass([xs[i * nch + c].t for i in range(n)])
                check_record(P, f"chunks[{mode},n={n},nchans={nch},{'+'.join(map(str, comp))}]/chan{c}", m.store[c], spec, fields, xs,
                             dict(kind="chunks", mode=mode, nchans=nch, chunks=comp), pc)
            P.reached += 1
        on_paths(P, lambda comp=comp: accumulate(cap, mty, xs, comp, nch), then)


def merge_work(P, item):
    _, n, nch, deep = item
    from sigpyproc.core import kernels as K
    mty = moments_ty()
    cap = capture(K.compute_online_moments, (f4a, mty, types.int64))
    capadd = capture(K.add_online_moments, (mty, mty, mty))
    xs = [Sym(z3.Real(f"x{i}"), F4) for i in range(n * nch)]
    fields = ("count", "m1", "m2", "m3", "m4", "min", "max")
    for s in range(1, n):
        comps_a = list(compositions(s)) if deep else [[s]]
        comps_b = list(compositions(n - s)) if deep else [[n - s]]
        for ca in comps_a[:3]:
            for cb in comps_b[:3]:
                def body(s=s, ca=ca, cb=cb):
                    a = accumulate(cap, mty, xs[:s * nch], ca, nch)
                    b = accumulate(cap, mty, xs[s * nch:], cb, nch)
                    c = fresh_moments(mty, nch)
                    it = Interp(capadd, "int")
                    it.run([a, b, c])
                    return c

                def then(c, pc, s=s, ca=ca, cb=cb):
                    for ch in range(nch):
                        spec = two_pass([xs[i * nch + ch].t for i in range(n)])
                        check_record(P, f"merge[n={n},nchans={nch},split={s},{ca}|{cb}]/chan{ch}", c.store[ch], spec, fields, xs,
                                     dict(kind="merge", nchans=nch, split=s, chunks_a=ca, chunks_b=cb), pc)
                    P.reached += 1
                on_paths(P, body, then)


def overflow_work(P, item):
    """every typed integer operation of the merge / update kernels, counts anywhere in their int32 range"""
    from sigpyproc.core import kernels as K
    mty = moments_ty()
    capadd = capture(K.add_online_moments, (mty, mty, mty))

    def rec(tag):
        cnt = z3.Int(f"count_{tag}")
        d = dict(count=Sym(cnt, types.int32))
        for f in ("m1", "m2", "m3", "m4", "min", "max"):
            d[f] = Sym(z3.Real(f"{f}_{tag}"), F4)
        return d, cnt
    a, b, c = NArr(mty.dtype, (1,), name="a"), NArr(mty.dtype, (1,), name="b"), fresh_moments(mty, 1)
    (ra, ca), (rb, cb) = rec("a"), rec("b")
    a.store, b.store = [ra], [rb]
    it = Interp(capadd, "int")
    it.run([a, b, c])
    pre = [ca >= 1, cb >= 1, ca + cb <= 2**31 - 1]
    seen = set()
    for t, ty, where in it.ovf:
        key = (str(t), str(ty))
        if key in seen:
            continue
        seen.add(key)
        lo, hi = irange(ty)
        s = z3.Solver()
        s.set("timeout", 60000)
        s.add(*pre)
        P.stats.queries += 1
        r = s.check(z3.Or(t < lo, t > hi))
        name = f"no-integer-overflow[add_online_moments {where} : {ty}] {str(z3.simplify(t))[:60]}"
        if r == z3.unsat:
            P.obligation(name, "holds", symbolic=True)
        elif r == z3.unknown:
            P.inconclusive_(f"{name}: solver unknown")
        else:
            m = s.model()
            params = dict(kind="overflow", count_a=m.eval(ca, model_completion=True).as_long(), count_b=m.eval(cb, model_completion=True).as_long())
            # a balanced, smallish witness makes the wrapped term visible and the replay cheap
            s.add(ca + cb <= 6_000_000, ca == cb)
            if s.check(z3.Or(t < lo, t > hi)) == z3.sat:
                m = s.model()
                params = dict(kind="overflow", count_a=m.eval(ca, model_completion=True).as_long(), count_b=m.eval(cb, model_completion=True).as_long())
            src = ("import sys, json\nfrom symx.concrete import c10\n"
                   f"sys.exit(c10.main(json.loads({json.dumps(json.dumps(params))})))\n")
            P.violation("overflow-add_online_moments-" + where.replace(":", "_"), f"integer operation at {where} overflows {ty} for counts {params}", src, model=params)
    P.reached += 1
    # update kernels: counts up to 2^31-2 before the push
    for disp, nargs in ((K.update_moments, 6), (K.update_moments_basic, 4)):
        argt = (types.float32,) + (types.float32,) * (nargs - 2) + (types.int32,)
        cap = capture(disp, argt)
        it = Interp(cap, "int")
        nn = z3.Int("n")
        args = [Sym(z3.Real("val"), F4)] + [Sym(z3.Real(f"m{i}"), F4) for i in range(1, nargs - 1)] + [Sym(nn, types.int32)]
        it.run(args)
        for t, ty, where in it.ovf:
            lo, hi = irange(ty)
            s = z3.Solver()
            s.add(nn >= 0, nn <= 2**31 - 2)
            P.stats.queries += 1
            r = s.check(z3.Or(t < lo, t > hi))
            name = f"no-integer-overflow[{disp.py_func.__name__} {where} : {ty}] {str(z3.simplify(t))[:50]}"
            if r == z3.unsat:
                P.obligation(name, "holds", symbolic=True)
            else:
                P.inconclusive_(f"{name}: {r} (no replay driver for this kernel)")
    # constant data: pushing v onto (m1=v, m2=m3=m4=0, n=k) keeps the state
    cap = capture(K.update_moments, (types.float32,) * 5 + (types.int32,))
    it = Interp(cap, "int")
    v, k = z3.Real("v"), z3.Int("k")
    out = it.run([Sym(v, F4), Sym(v, F4), 0.0, 0.0, 0.0, Sym(k, types.int32)])
    s = z3.Solver()
    s.add(k >= 0, k <= 2**31 - 2)
    bad = z3.Or(T(out[0]) != v, R_(T(out[1])) != 0, R_(T(out[2])) != 0, R_(T(out[3])) != 0, T(out[4]) != k + 1)
    P.stats.queries += 1
    if s.check(bad) == z3.unsat:
        P.obligation("constant-data: one more identical sample keeps (m1=v, m2=m3=m4=0)", "holds", symbolic=True)
    else:
        P.inconclusive_(f"constant-data step fails: {s.model()}")


# ---------------------------------------------------------------- (iv) guarded divisions of ChannelStats
class FPVec:
    """one-element float vector as an IEEE term (float32 unless cast)"""

    def __init__(self, t):
        self.t = t

    def sort(self):
        return self.t.sort()

    def astype(self, dt, *a, **k):
        to = z3.Float64() if np.dtype(dt) == np.float64 else z3.Float32()
        return FPVec(z3.fpToFP(z3.RNE(), self.t, to)) if to != self.t.sort() else self

    def _lift(self, o, srt=None):
        srt = srt if srt is not None else self.t.sort()
        if isinstance(o, FPVec):
            if o.t.sort() != srt:
                return z3.fpToFP(z3.RNE(), o.t, srt)
            return o.t
        return z3.FPVal(float(o), srt)

    def _wide(self, o):
        """numpy result precision: float64 if either array operand is float64; python scalars do not widen"""
        if isinstance(o, FPVec) and o.t.sort() == z3.Float64():
            return z3.Float64()
        return self.t.sort()

    def __mul__(self, o):
        s = self._wide(o)
        return FPVec(z3.fpMul(z3.RNE(), self._lift(self, s), self._lift(o, s)))

    __rmul__ = __mul__

    def __sub__(self, o):
        s = self._wide(o)
        return FPVec(z3.fpSub(z3.RNE(), self._lift(self, s), self._lift(o, s)))

    def __truediv__(self, o):
        s = self._wide(o)
        FPnp.divisions.append((self._lift(o, s), z3.BoolVal(True)))
        return FPVec(z3.fpDiv(z3.RNE(), self._lift(self, s), self._lift(o, s)))

    def __ne__(self, o):
        return ("mask", z3.Not(z3.fpEQ(self.t, self._lift(o))))

    __hash__ = None


class FPnp:
    divisions = []
    axioms = []
    float64 = np.float64
    float32 = np.float32

    @staticmethod
    def divide(a, b, out=None, where=None):
        mask = where[1] if isinstance(where, tuple) else z3.BoolVal(True)
        bt = b.t
        at = a.t if a.t.sort() == bt.sort() else z3.fpToFP(z3.RNE(), a.t, bt.sort())
        FPnp.divisions.append((bt, mask))
        q = z3.fpDiv(z3.RNE(), at, bt)
        o = out.t if out is not None else z3.FPVal(0.0, bt.sort())
        if o.sort() != q.sort():
            o = z3.fpToFP(z3.RNE(), o, q.sort())
        return FPVec(z3.If(mask, q, o))

    @staticmethod
    def power(x, p):
        if float(p) == 2.0:
            return FPVec(z3.fpMul(z3.RNE(), x.t, x.t))
        if float(p) == 1.5:
            # libm pow(x, 1.5): trusted contract (bit-blasting a double-precision sqrt does not finish):
            #   float32: the result underflows to 0 for 0 < x <= 2^-100 (true value <= 2^-150)
            #   float64: for 2^-149 <= x <= 2^128 (every positive finite float32) the result lies in [2^-224, 2^192]
            srt = x.t.sort()
            P = z3.Function("pow15_f64" if srt == z3.Float64() else "pow15_f32", srt, srt)
            r = P(x.t)
            if srt == z3.Float64():
                FPnp.axioms.append(z3.Implies(z3.And(z3.fpGEQ(x.t, z3.FPVal(2.0**-149, srt)), z3.fpLEQ(x.t, z3.FPVal(2.0**128, srt))),
                                              z3.And(z3.fpGEQ(r, z3.FPVal(2.0**-224, srt)), z3.fpLEQ(r, z3.FPVal(2.0**192, srt)))))
            else:
                FPnp.axioms.append(z3.Implies(z3.And(z3.fpGT(x.t, z3.FPVal(0.0, srt)), z3.fpLEQ(x.t, z3.FPVal(2.0**-100, srt))), z3.fpIsZero(r)))
                FPnp.axioms.append(z3.Implies(z3.fpGT(x.t, z3.FPVal(2.0**-99, srt)), z3.And(z3.fpGT(r, z3.FPVal(0.0, srt)), z3.Not(z3.fpIsNaN(r)))))
            FPnp.axioms.append(z3.Implies(z3.fpIsZero(x.t), z3.fpIsZero(r)))
            return FPVec(r)
        raise Unsupported(f"power {p}")

    @staticmethod
    def zeros_like(x, *a, **k):
        return FPVec(z3.FPVal(0.0, x.t.sort()))

    @staticmethod
    def sqrt(x):
        if isinstance(x, FPVec):
            return FPVec(z3.fpSqrt(z3.RNE(), x.t))
        if isinstance(x, Sym):
            return FPVec(z3.fpSqrt(z3.RNE(), z3.fpSignedToFP(z3.RNE(), x.t, z3.Float64())))
        return np.sqrt(x)


def division_work(P, item):
    from sigpyproc.core import stats
    F32 = z3.Float32()
    for prop in ("var", "skew", "kurtosis"):
        FPnp.divisions = []
        FPnp.axioms = []
        m = {f: FPVec(z3.FP(f, F32)) for f in ("m1", "m2", "m3", "m4", "min", "max")}
        nbv = z3.BitVec("nsamps", 32)

        class CS:
            _moments = m
            nsamps = FPVec(z3.fpSignedToFP(z3.RNE(), nbv, z3.Float64()))
        fget = rebind(stats.ChannelStats.__dict__[prop].fget, np=FPnp)
        try:
            res = fget(CS())
        except Exception as e:  # noqa: BLE001
            raise Unsupported(f"ChannelStats.{prop} left the modelled subset: {type(e).__name__}: {e}")
        pre = [z3.Not(z3.fpIsNaN(v.t)) for v in m.values()] + [z3.Not(z3.fpIsInf(v.t)) for v in m.values()]
        pre += [z3.fpGEQ(m["m2"].t, z3.FPVal(0.0, F32)), nbv >= 1]
        for i, (div, mask) in enumerate(FPnp.divisions):
            s = z3.Solver()
            s.set("timeout", 120000)
            s.add(*pre)
            s.add(*FPnp.axioms)
            s.add(mask)
            P.stats.queries += 1
            t0 = time.time()
            r = s.check(z3.Or(z3.fpIsZero(div), z3.fpIsNaN(div)))
            P.stats.solver_s += time.time() - t0
            name = f"ChannelStats.{prop}: guarded divisor {i} is never zero/NaN for any finite float32 moment record"
            if r == z3.unsat:
                P.obligation(name, "holds", symbolic=True)
            elif r == z3.unknown:
                P.inconclusive_(f"{name}: FP solver unknown")
            else:
                mod = s.model()
                def fv(t):
                    v = mod.eval(t, model_completion=True)
                    return float(v.as_string()) if hasattr(v, "as_string") else 0.0
                vals = {}
                for f, v in m.items():
                    x = mod.eval(v.t, model_completion=True)
                    try:
                        vals[f] = float(eval(str(x).replace("*(2**", "*(2.0**")))
                    except Exception:  # noqa: BLE001
                        vals[f] = 1e-30
                params = dict(kind="division", prop=prop, moments=vals, nsamps=mod.eval(nbv, model_completion=True).as_long())
                src = ("import sys, json\nfrom symx.concrete import c10\n"
                       f"sys.exit(c10.main(json.loads({json.dumps(json.dumps(params))})))\n")
                P.violation(f"division-{prop}-{i}", f"ChannelStats.{prop} divides by a zero/non-finite divisor although its guard is true: {params}", src, model=params)
    P.reached += 1


def wrapper_work(P, item):
    """the real ChannelStats.push_data / __add__ bytecode with recording kernels: the right kernel gets
    (array, the accumulator's moments, the caller's start index); the merge gets (self, other, new)"""
    from sigpyproc.core import stats
    from ..core import Ctx, SInt, explore
    calls = []

    class KRec:
        def __getattr__(self, name):
            def k(*a):
                calls.append((name,) + a)
            return k

    def run(ctx):
        calls.clear()
        si = z3.Int("start_index")
        out = []
        for mode in ("basic", "full", "anything-else"):
            class CS:
                _moments = object()
            cs = CS()
            arr = object()
            calls.clear()
            rebind(stats.ChannelStats.push_data, kernels=KRec())(cs, arr, SInt(si), mode=mode)
            out.append((mode, list(calls), arr, cs))
        return si, out

    def on_path(ctx, o):
        Ctx.cur = ctx
        si, out = o
        P.reached += 1
        for mode, cl, arr, cs in out:
            want = "compute_online_moments_basic" if mode == "basic" else "compute_online_moments"
            ok = len(cl) == 1 and cl[0][0] == want and cl[0][1] is arr and cl[0][2] is cs._moments and len(cl[0]) == 4
            c = z3.BoolVal(not ok)
            if ok:
                from ..core import term
                c = term(cl[0][3]) != si
            name = f"ChannelStats.push_data[{mode}]: kernel({want}) receives (array, moments, start_index)"
            if ctx.check(c) == z3.unsat:
                P.obligation(name, "holds", symbolic=True)
            else:
                params = dict(kind="push_wrapper", mode="basic" if mode == "basic" else "full")
                src = ("import sys, json\nfrom symx.concrete import c10\n"
                       f"sys.exit(c10.main(json.loads({json.dumps(json.dumps(params))})))\n")
                P.violation(f"push_data-{mode}", name, src, model=params)
        Ctx.cur = None
    explore(run, bound=2, on_path=on_path, stats=P.stats)
    # __add__
    calls.clear()

    class CS2:
        def __init__(self, nchans, nsamps):
            self.nchans, self.nsamps, self._moments = nchans, nsamps, object()
    a, b = CS2(3, 5), CS2(3, 7)
    fn = rebind(stats.ChannelStats.__add__, kernels=KRec(), ChannelStats=CS2)
    c = fn(a, b)
    ok = len(calls) == 1 and calls[0][0] == "add_online_moments" and calls[0][1] is a._moments and calls[0][2] is b._moments and calls[0][3] is c._moments \
        and c.nsamps == 12 and c.nchans == 3
    P.stats.queries += 1
    if ok:
        P.obligation("ChannelStats.__add__: merge kernel receives (self, other, new) and the counts add", "holds", symbolic=False)
    else:
        params = dict(kind="merge", nchans=1, split=2, chunks_a=[2], chunks_b=[3], data=[1.0, 2.0, 4.0, 7.0, 11.0])
        src = ("import sys, json\nfrom symx.concrete import c10\n"
               f"sys.exit(c10.main(json.loads({json.dumps(json.dumps(params))})))\n")
        P.violation("add-wrapper", "ChannelStats.__add__ does not merge (self, other) into the new accumulator", src, model=params)


def work(P, item):
    if item[0] == "wrapper":
        return wrapper_work(P, item)
    return {"chunks": chunk_work, "merge": merge_work, "overflow": overflow_work, "division": division_work}[item[0]](P, item)


def run(R):
    from sigpyproc.core import kernels as K, stats
    R.encode(K.update_moments, K.update_moments_basic, K.compute_online_moments, K.compute_online_moments_basic, K.add_online_moments,
             stats.ChannelStats.__dict__["var"], stats.ChannelStats.__dict__["skew"], stats.ChannelStats.__dict__["kurtosis"])
    quick = R.tier == "quick"
    nmax = 5 if quick else 7
    R.bounds.update(dict(stream=f"symbolic real streams of length 1..{nmax}, every composition into chunks, 1-2 channels, full and basic mode",
                         merge=f"every split point of streams of length 2..{nmax} (thorough: sub-chunked halves)",
                         overflow="counts anywhere in [1, 2^31-1] with count_a+count_b <= 2^31-1; every integer operation of the typed IR",
                         divisions="every finite float32 moment record with m2 >= 0, nsamps in [1, 2^31)"))
    R.assume("exact real arithmetic for the recurrences (float32 accumulation error is outside the claim)",
             "libm pow(x,1.5) is a trusted stub: float32 result underflows to 0 for 0<x<=2^-100; float64 result of a positive float32 value lies in [2^-224,2^192]", "startflag = chunk index (as Filterbank.compute_stats passes it)")
    R.out_of_claim("the float32 accumulation error bound itself", "overflow of huge-but-legitimate skew/kurtosis ratios (excluded by the moment inequalities, not decided)")
    items = []
    for mode in ("full", "basic"):
        for n in range(1, nmax + 1):
            for nch in ((1,) if n > 4 else (1, 2)):
                items.append(("chunks", mode, n, nch))
    for n in range(2, nmax + 1):
        items.append(("merge", n, 1, not quick))
    items.append(("merge", 3, 2, False))
    items.append(("overflow",))
    items.append(("division",))
    items.append(("wrapper",))
    R.encode(stats.ChannelStats.push_data, stats.ChannelStats.__add__)
    from .. import kvalid
    kvalid.validate(R, ["update_moments", "compute_online_moments", "compute_online_moments_basic", "add_online_moments"])
    parts = R.pmap(work, items)
    R.vacuity_witness("c10", sum(p.reached for p in parts) > 0)
    # twin: a wrong claim (m2 equals the *sample* variance numerator times 2) must be refuted
    mty = moments_ty()
    cap = capture(K.compute_online_moments, (f4a, mty, types.int64))
    xs = [Sym(z3.Real(f"x{i}"), F4) for i in range(3)]
    m = accumulate(cap, mty, xs, [1, 2], 1)
    s = z3.Solver()
    s.add(T(m.store[0]["m2"]) != 2 * two_pass([x.t for x in xs])["m2"])
    R.stats.queries += 1
    R.vacuity_witness("c10-twin(m2 == 2*definition must fail)", s.check() == z3.sat)
