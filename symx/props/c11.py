"""C11 - folding puts every sample in exactly one bin fixed by the phase model.

A. E1 on the fold kernel (numba typed IR): symbolic data, delays and block offset `index`;
   (tsamp, period, accel) from a small alphabet of exactly representable values;
B. E2 on the real Filterbank.fold streaming loop (kernel replaced by a recording contract): the
   blocks handed to the kernel tile the request and `index` is the absolute offset of each block;
C. E2 on TimeSeries.fold (single kernel call)."""
from __future__ import annotations

import json
from fractions import Fraction

import numpy as np
import z3
from numba.core import types

from ..core import Ctx, Inconclusive, SBool, SInt, Unsupported, explore, rebind
from ..nbsym import Interp, NArr, Sym, capture, sym_array

u1a = types.Array(types.uint8, 1, "A")
f4a = types.Array(types.float32, 1, "A")
i4a = types.Array(types.int32, 1, "A")
C_LIGHT = Fraction(299792458)


def T(v):
    if isinstance(v, Sym):
        return v.t
    if isinstance(v, (int, np.integer)):
        return z3.IntVal(int(v))
    return z3.RealVal(Fraction(float(v)))


def Rr(t):
    return z3.ToReal(t) if t.sort() == z3.IntSort() else t


def trunc(t):
    fl = z3.ToInt(t)
    return z3.If(z3.Or(t >= 0, z3.ToReal(fl) == t), fl, fl + 1)


def spec_cell(t, c, cfg):
    """documented cell of absolute sample t (z3 Int term) and channel c (python int)"""
    ts, per, acc = (Fraction(x) for x in (cfg["tsamp"], cfg["period"], cfg["accel"]))
    N, nbins, nints, nsubs, nchans = cfg["total"], cfg["nbins"], cfg["nints"], cfg["nsubs"], cfg["nchans"]
    tj = z3.ToReal(t) * z3.RealVal(ts)
    tobs = z3.RealVal(N * ts)
    phase = nbins * tj * (1 + z3.RealVal(acc) * (tj - tobs) / z3.RealVal(2 * C_LIGHT)) / z3.RealVal(per) + z3.RealVal(Fraction(1, 2))
    tr = trunc(phase)
    pb = z3.If(tr >= 0, tr, -tr) % nbins
    subint = z3.ToInt(z3.ToReal(t) / z3.RealVal(Fraction(N, nints)))
    sb = int(Fraction(c) // Fraction(nchans, nsubs))
    return subint * nbins * nsubs + sb * nbins + pb


def kernel_work(P, item):
    _, cfg, sym_index = item
    from sigpyproc.core import kernels as K
    sig = [s for s in K.fold.nopython_signatures if s.args[0].dtype == types.uint8][0].args
    cap = capture(K.fold, sig)
    nchans, nsamps, D, nbins, nints, nsubs, N = (cfg[k] for k in ("nchans", "nsamps", "maxdelay", "nbins", "nints", "nsubs", "total"))
    ncell = nbins * nints * nsubs
    label = f"fold[{','.join(f'{k}={v}' for k, v in cfg.items())},index={'sym' if sym_index is None else sym_index}]"

    def run(ctx):
        it = Interp(cap, "int")
        x = sym_array(it, "x", u1a, (nchans * nsamps,))
        fold = NArr(types.float32, (ncell,), name="fold_ar")
        fold.store = [0.0] * ncell
        cnt = NArr(types.int32, (ncell,), name="count_ar")
        cnt.store = [0] * ncell
        dl = NArr(types.int32, (nchans,), name="delays")
        dv = []
        for c in range(nchans):
            v = z3.Int(f"delay{c}")
            ctx.assume(z3.And(v >= 0, v <= D))
            dl.store[c] = Sym(v, types.int32)
            dv.append(v)
        if sym_index is None:
            idx = z3.Int("index")
            ctx.assume(z3.And(idx >= 0, idx + (nsamps - D) <= N))
            index = Sym(idx, types.int32)
        else:
            idx = z3.IntVal(sym_index)
            index = sym_index
        for e in x.store:
            ctx.assume(z3.And(e.t >= 0, e.t <= 255))
        it.run([x, fold, cnt, dl, D, cfg["tsamp"], cfg["period"], cfg["accel"], N, nsamps, nchans, nbins, nints, nsubs, index])
        return dict(x=x, fold=fold, cnt=cnt, dv=dv, idx=idx)

    witk = [2]

    def on_path(ctx, o):
        Ctx.cur = ctx
        P.reached += 1
        xs = [e.t for e in o["x"].store]
        dv, idx = o["dv"], o["idx"]
        contrib = []
        for i in range(nsamps - D):
            for c in range(nchans):
                cell = spec_cell(idx + i, c, cfg)
                src = xs[-1]
                pos = nchans * (i + dv[c]) + c
                val = xs[-1]
                for k in range(len(xs) - 2, -1, -1):
                    val = z3.If(pos == k, xs[k], val)
                contrib.append((cell, z3.ToReal(val)))
        viol = []
        tot = z3.Sum([Rr(T(v)) for v in o["cnt"].store])
        viol.append(("sum of hit counts = samples folded", tot != (nsamps - D) * nchans))
        for k in range(ncell):
            wf = z3.Sum([z3.If(cell == k, v, z3.RealVal(0)) for cell, v in contrib])
            wc = z3.Sum([z3.If(cell == k, 1, 0) for cell, _ in contrib])
            viol.append((f"fold_ar[{k}] = sum of the samples assigned to cell {k}", Rr(T(o["fold"].store[k])) != wf))
            viol.append((f"count_ar[{k}] = number of samples assigned to cell {k}", Rr(T(o["cnt"].store[k])) != Rr(wc)))
        conds = [c for _, c in viol]
        if ctx.check(z3.Or(conds)) == z3.unsat:
            for n_, _ in viol:
                P.obligation(f"{label}/{n_}", "holds")
            if witk[0] > 0 and ctx.check() == z3.sat:
                witk[0] -= 1
                m = ctx.solver.model()
                ev = lambda t: m.eval(t, model_completion=True).as_long()
                P.witness("c11", dict(kind="kernel", cfg=cfg, index=ev(idx), delays=[ev(d) for d in dv], data=[ev(e) for e in xs]),
                          f"fold-kernel-witness-{abs(hash(label)) % 100000}", label)
        else:
            for n_, c in viol:
                if ctx.check(c) == z3.unsat:
                    P.obligation(f"{label}/{n_}", "holds")
                    continue
                m = ctx.solver.model()
                ev = lambda t: m.eval(t, model_completion=True).as_long()
                params = dict(kind="kernel", cfg=cfg, index=ev(idx), delays=[ev(d) for d in dv], data=[ev(e) for e in xs])
                src = ("import sys, json\nfrom symx.concrete import c11\n"
                       f"sys.exit(c11.main(json.loads({json.dumps(json.dumps(params))})))\n")
                P.violation(f"fold-kernel-{abs(hash(label)) % 100000}-{n_[:30]}".replace(" ", "_").replace("[", "_").replace("]", "_"), f"{label}: {n_}", src, model=params)
                break
        Ctx.cur = None
        return "stop" if len(P.cands) >= 2 else None
    try:
        explore(run, bound=max(ncell, N, 8), on_path=on_path, stats=P.stats, deadline_s=900, maxpaths=100000)
    except Inconclusive:
        if not P.cands:
            raise


# ---------------------------------------------------------------- B/C: callers
class FoldRec:
    calls = []

    @staticmethod
    def fold(inarray, fold_ar, count_ar, delays, maxdelay, tsamp, period, accel, total, nsamps, nchans, nbins, nints, nsubs, index):
        FoldRec.calls.append(dict(data=inarray.snapshot(), length=inarray.length, fold=fold_ar, count=count_ar, delays=delays, maxdelay=maxdelay, tsamp=tsamp,
                                  period=period, accel=accel, total=total, nsamps=nsamps, nchans=nchans, nbins=nbins, nints=nints, nsubs=nsubs, index=index))


class RecFold:
    def __init__(self, data, header, period, dm, accel):
        self.data, self.header, self.period, self.dm, self.accel = data, header, period, dm, accel


class Cube:
    def __init__(self, arr, shape):
        self.arr, self.shape = arr, shape


def stream_work(P, item):
    _, nbits, nchans, nfiles, nblocks = item
    from ..stream import SymList, build_stream, make_fil
    from ..fileshim import stream_elem, stream_unpacked
    from ..core import term
    from ..arrays import FArr
    from sigpyproc import base
    st = build_stream()
    label = f"Filterbank.fold[nbits={nbits},nchans={nchans},files={nfiles}]"
    nbins, nints, nbands = 3, 2, 4
    orig_reshape = FArr.reshape

    def reshape(self, *shape):
        if len(shape) == 3:
            return Cube(self, shape)
        return orig_reshape(self, *shape)

    def run(ctx):
        FArr.reshape = reshape
        FoldRec.calls = []
        ds = [z3.Int(f"delay{c}") for c in range(nchans)]
        D = ds[-1]
        ctx.assume(ds[0] == 0)
        for a, b in zip(ds, ds[1:]):
            ctx.assume(a <= b)
        delays = SymList([SInt(d) for d in ds], maxv=SInt(D))
        r, N, ns = make_fil(ctx, st, nbits, nchans, nfiles, delays)
        r._header.tsamp = 0.5

        class KP:
            def __getattr__(self, n):
                return getattr(FoldRec, n)
        fn = rebind(base.Filterbank.fold, kernels=KP(), FoldedData=RecFold, np=__import__("symx.stream", fromlist=["NPbase"]).NPbase,
                    int=__import__("symx.core", fromlist=["s_int"]).s_int, max=__import__("symx.core", fromlist=["s_max"]).s_max,
                    min=__import__("symx.core", fromlist=["s_min"]).s_min)
        gulp, start, nsv = z3.Int("gulp"), z3.Int("start"), z3.Int("nsamps")
        ctx.assume(z3.And(gulp >= 1, start >= 0, nsv >= 1, start + nsv <= N, D < nsv))
        ctx.assume(N * nchans >= 10 * nbins * nints * nbands)      # otherwise fold() legitimately refuses
        out = dict(vars=dict(ns=ns, gulp=gulp, start=start, nsamps=nsv, delays=ds), err=None)
        try:
            fd = fn(r, 1.5, 10.0, accel=0, nbins=nbins, nints=nints, nbands=nbands, gulp=SInt(gulp), start=SInt(start), nsamps=SInt(nsv), quiet=True)
        except (ValueError, IndexError, TypeError, ZeroDivisionError, AttributeError) as e:
            out["err"] = type(e).__name__
            return out
        finally:
            FArr.reshape = orig_reshape
        out.update(fd=fd, calls=list(FoldRec.calls), N=N, D=D)
        return out

    wits = [2]

    def on_path(ctx, o):
        Ctx.cur = ctx
        P.reached += 1
        v = o["vars"]
        viol = []
        if o["err"]:
            viol.append((f"in-range fold raised {o['err']}", z3.BoolVal(True)))
        else:
            start, ne, D, N = v["start"], v["nsamps"], o["D"], o["N"]
            k = z3.Int("k!sk")
            pos = start
            calls = o["calls"]
            if not calls:
                viol.append(("kernel never called", z3.BoolVal(True)))
            for i, c in enumerate(calls):
                n = term(c["nsamps"])
                q = pos * nchans + k
                want = stream_unpacked(nbits, q) if nbits < 8 else stream_elem("u1" if nbits == 8 else "f4", q)
                viol.append((f"call{i}: block is the stream slice at start + sum(len - maxdelay)", z3.And(k >= 0, k < n * nchans, Rr(c["data"](k)) != Rr(want))))
                viol.append((f"call{i}: block holds nsamps*nchans elements", c["length"] < n * nchans))
                viol.append((f"call{i}: index = absolute offset of the block (when it folds any sample)", z3.And(n - D >= 1, term(c["index"]) != pos - start)))
                viol.append((f"call{i}: maxdelay/total/nchans arguments", z3.Or(term(c["maxdelay"]) != D, term(c["total"]) != N, z3.BoolVal(c["nchans"] != nchans))))
                viol.append((f"call{i}: nsubs = min(nbands, nchans), nbins, nints", z3.BoolVal((c["nsubs"], c["nbins"], c["nints"]) != (min(nbands, nchans), nbins, nints))))
                viol.append((f"call{i}: tsamp/period/accel", z3.BoolVal((c["tsamp"], c["period"], c["accel"]) != (0.5, 1.5, 0))))
                viol.append((f"call{i}: same accumulators and delays", z3.BoolVal(c["fold"] is not calls[0]["fold"] or c["count"] is not calls[0]["count"] or c["delays"] is not calls[0]["delays"])))
                viol.append((f"call{i}: block not shorter than maxdelay", n - D < 0))
                pos = pos + n - D
            viol.append(("folded samples tile [start, start+nsamps-maxdelay)", pos != start + ne - D))
            fd = o["fd"]
            cube = fd.data
            okc = isinstance(cube, Cube) and calls and cube.arr is calls[0]["fold"] and tuple(cube.shape) == (nints, min(nbands, nchans), nbins)
            viol.append(("result = fold_ar reshaped (nints, nbands, nbins)", z3.BoolVal(not okc)))
            if calls:
                dv = getattr(calls[0]["fold"], "divisors", [])
                viol.append(("fold_ar divided once by count_ar", z3.BoolVal(not (len(dv) == 0 and getattr(calls[0]["fold"], "div_by", None) is calls[0]["count"]))))
                sz = calls[0]["fold"].length
                viol.append(("accumulator sizes", z3.Or(sz != nbins * nints * min(nbands, nchans), calls[0]["count"].length != sz)))
        if wits[0] > 0 and viol and ctx.check(z3.Or([c for _, c in viol])) == z3.unsat and ctx.check() == z3.sat:
            wits[0] -= 1
            m = ctx.solver.model()
            ev = lambda t: m.eval(t, model_completion=True).as_long()
            wp = dict(kind="stream", nbits=nbits, nchans=nchans, splits=[ev(x) for x in v["ns"]], gulp=ev(v["gulp"]), start=ev(v["start"]), nsamps=ev(v["nsamps"]),
                      delays=[ev(d) for d in v["delays"]], nbins=nbins, nints=nints, nbands=nbands)
            if sum(wp["splits"]) <= 5000:
                P.witness("c11", wp, f"fold-stream-witness-{nbits}-{nchans}-{nfiles}-{wits[0]}", label)
        for n_, c in viol:
            if ctx.check(c) == z3.unsat:
                P.obligation(f"{label}/{n_}", "holds")
                continue
            m = ctx.solver.model()
            ev = lambda t: m.eval(t, model_completion=True).as_long()
            params = dict(kind="stream", nbits=nbits, nchans=nchans, splits=[ev(x) for x in v["ns"]], gulp=ev(v["gulp"]), start=ev(v["start"]), nsamps=ev(v["nsamps"]),
                          delays=[ev(d) for d in v["delays"]], nbins=nbins, nints=nints, nbands=nbands)
            src = ("import sys, json\nfrom symx.concrete import c11\n"
                   f"sys.exit(c11.main(json.loads({json.dumps(json.dumps(params))})))\n")
            P.violation(f"fold-stream-{nbits}-{nchans}-{nfiles}-{n_[:40]}".replace(" ", "_").replace(":", "-").replace("/", "-"), f"{label}: {n_}", src, model=params)
            break
        Ctx.cur = None
        return "stop" if len(P.cands) >= 2 else None
    try:
        explore(run, bound=nblocks, on_path=on_path, stats=P.stats, deadline_s=600)
    except Inconclusive:
        if not P.cands:
            raise


def ts_work(P, item):
    from sigpyproc import timeseries
    from ..arrays import FArr
    from ..stream import NPbase
    label = "TimeSeries.fold"

    def run(ctx):
        FoldRec.calls = []
        n = z3.Int("n")
        ctx.assume(n >= 1)
        X = z3.Function("TS", z3.IntSort(), z3.RealSort())
        data = FArr(n, lambda j: X(j), "f4", "tim")

        class Hdr:
            tsamp, dm = 0.5, 12.5

            def new_header(self, u=None):
                return self

        class Self:
            pass
        s = Self()
        s.data, s.header = data, Hdr()

        class KP:
            def __getattr__(self, nm):
                return getattr(FoldRec, nm)
        orig = FArr.reshape
        FArr.reshape = lambda self, *sh: Cube(self, sh) if len(sh) == 3 else orig(self, *sh)
        try:
            fn = rebind(timeseries.TimeSeries.fold, kernels=KP(), FoldedData=RecFold, np=NPbase)
            try:
                fd = fn(s, 1.5, accel=0, nbins=3, nints=2)
            except ValueError:
                return dict(err="ValueError", n=n)
        finally:
            FArr.reshape = orig
        return dict(err=None, fd=fd, calls=list(FoldRec.calls), n=n, data=data)

    def on_path(ctx, o):
        Ctx.cur = ctx
        P.reached += 1
        from ..core import term
        n = o["n"]
        viol = []
        if o["err"]:
            viol.append(("refused only when fewer than 10 samples per cell", n / 6 >= 10))
        else:
            viol.append(("accepted with fewer than 10 samples per cell", n / 6 < 10))
            c = o["calls"][0] if len(o["calls"]) == 1 else None
            if c is None:
                viol.append(("exactly one kernel call", z3.BoolVal(True)))
            else:
                k = z3.Int("k!sk")
                viol.append(("folds its own data", z3.And(k >= 0, k < n, c["data"](k) != o["data"].fn(k))))
                ok = (c["nchans"], c["nsubs"], c["nbins"], c["nints"], c["maxdelay"], c["index"], c["tsamp"], c["period"], c["accel"]) == (1, 1, 3, 2, 0, 0, 0.5, 1.5, 0)
                viol.append(("single channel, no delay, whole series", z3.Or(z3.BoolVal(not ok), term(c["total"]) != n, term(c["nsamps"]) != n)))
                dl = c["delays"]
                viol.append(("zero delay vector", z3.BoolVal(not (len(dl) == 1 and int(dl[0]) == 0))))
                fd = o["fd"]
                okc = isinstance(fd.data, Cube) and fd.data.arr is c["fold"] and tuple(fd.data.shape) == (2, 1, 3) and getattr(c["fold"], "div_by", None) is c["count"]
                viol.append(("result = fold_ar / count_ar reshaped (nints, 1, nbins)", z3.BoolVal(not okc)))
                viol.append(("reports period, dm, accel", z3.BoolVal((fd.period, fd.dm, fd.accel) != (1.5, 12.5, 0))))
        for n_, c_ in viol:
            if ctx.check(c_) == z3.unsat:
                P.obligation(f"{label}/{n_}", "holds")
            else:
                nv = ctx.solver.model().eval(n, model_completion=True).as_long()
                params = dict(kind="timeseries", n=nv)
                src = ("import sys, json\nfrom symx.concrete import c11\n"
                       f"sys.exit(c11.main(json.loads({json.dumps(json.dumps(params))})))\n")
                P.violation(f"fold-timeseries-{n_[:30]}".replace(" ", "_"), f"{label}: {n_} (n={nv})", src, model=params)
        Ctx.cur = None
    explore(run, bound=3, on_path=on_path, stats=P.stats, deadline_s=120)


def work(P, item):
    return {"kernel": kernel_work, "stream": stream_work, "ts": ts_work}[item[0]](P, item)


def run(R):
    from sigpyproc import base, timeseries
    from sigpyproc.core import kernels as K
    R.encode(K.fold, base.Filterbank.fold, timeseries.TimeSeries.fold)
    quick = R.tier == "quick"
    base_cfg = dict(nchans=2, nsamps=3, maxdelay=1, nbins=3, nints=2, nsubs=2, total=8, tsamp=0.5, period=1.5, accel=0.0)
    # the third configuration puts nbins*t*tsamp/period exactly on half-integers (rounding convention of the phase)
    cfgs = [dict(base_cfg), dict(base_cfg, period=1.25, nchans=3, nsubs=2, nsamps=2), dict(base_cfg, nbins=2, tsamp=0.25, period=1.0, nchans=1, nsubs=1, maxdelay=0),
            dict(base_cfg, total=7), dict(base_cfg, nchans=1, nsubs=1, maxdelay=0, total=11, nints=3)]      # sub-integration length not an integer
    if not quick:
        cfgs += [dict(base_cfg, period=2.0, nints=1), dict(base_cfg, nchans=3, nsubs=2, nsamps=3, maxdelay=2, total=9, nints=2),
                 dict(base_cfg, nbins=2, tsamp=0.25, period=0.75), dict(base_cfg, nchans=1, nsubs=1, nsamps=4, maxdelay=0, total=10, nints=3)]
    R.bounds.update(dict(kernel="nsamps<=4, nchans<=3, nbins<=3, nints<=3, nsubs<=2; data, delays in [0,maxdelay] and (accel=0) the block offset index symbolic; "
                                "(tsamp, period) in {(0.5,1.5),(0.5,1.25),(0.25,1.0),(0.5,2.0),(0.25,0.75)}; accel = 299792448 m/s^2 (term of order one): index enumerated",
                         streaming="N, gulp, start, nsamps, delays unbounded; <= 3 blocks; nbins=3, nints=2, nbands=4",
                         configs=[str(c) for c in cfgs]))
    R.assume("exact arithmetic for the phase (float32 evaluation near bin edges is outside the claim)",
             "delays 0 at channel 0, non-decreasing, <= maxdelay < nsamps", "the fold kernel contract used by the streaming harness is the recorded call itself (its semantics is part A)")
    R.out_of_claim("float32 phase rounding", "accelerations with a symbolic block offset", "more blocks / larger shapes than the bounds")
    items = [("kernel", c, None) for c in cfgs]
    acc_cfg = dict(base_cfg, accel=299792448.0, total=6, nsamps=3)    # accel ~ c: the acceleration term is of order one
    for idx in ((0, 2) if quick else (0, 1, 2, 3, 4)):
        items.append(("kernel", acc_cfg, idx))
    for nbits, nchans in ([(8, 2)] if quick else [(8, 2), (8, 3), (2, 4), (32, 2)]):
        for nf in ((1,) if quick else (1, 2)):
            items.append(("stream", nbits, nchans, nf, 3))
    items.append(("ts",))
    from .. import kvalid
    kvalid.validate(R, ["fold"])
    parts = R.pmap(work, items)
    R.vacuity_witness("c11", sum(p.reached for p in parts) > 0)
    # twin: the cell assignment must depend on the period (another period gives another cell for some sample)
    idx = z3.Int("index")
    s = z3.Solver()
    s.add(idx >= 0, idx < 8, spec_cell(idx, 0, base_cfg) != spec_cell(idx, 0, dict(base_cfg, period=1.25)))
    R.stats.queries += 1
    R.vacuity_witness("c11-twin(cell depends on the period)", s.check() == z3.sat)
