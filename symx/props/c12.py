"""C12 (partial) - FFT-based operations equal their direct time-domain definitions.

Decided: the library's own padding / good-size / slicing / reversal bookkeeping around the FFT, with the
FFT itself replaced by the trusted contract of symx.fftc (convolution theorem, inversion, and the default
output length of irfft).  E1 on fftconvolve, circular_pad_goodsize, form_mspec; E2 on TimeSeries.rfft,
FourierSeries.ifft, TimeSeries.correlate.
NOT decided: that rocket-fft computes the DFT (DFT sum, Parseval) and the float32 FFT error."""
from __future__ import annotations

import json
from fractions import Fraction

import numpy as np
import z3
from numba.core import types

from ..core import Ctx, Inconclusive, SReal, Unsupported, explore, rebind
from ..fftc import Spec, hooks, irfft_hook, rfft_hook
from ..nbsym import Cx, Interp, NArr, Sym, capture

f4a = types.Array(types.float32, 1, "C")
c8a = types.Array(types.complex64, 1, "C")


def T(v):
    if isinstance(v, Sym):
        return v.t if v.t.sort() == z3.RealSort() else z3.ToReal(v.t)
    return z3.RealVal(Fraction(float(v)))


def sym_vec(name, n):
    a = NArr(types.float32, (n,), name=name)
    a.store = [Sym(z3.Real(f"{name}{i}"), types.float32) for i in range(n)]
    return a


def solve(P, name, bad, params):
    s = z3.Solver()
    s.set("timeout", 60000)
    P.stats.queries += 1
    bad = z3.simplify(bad, som=True) if not z3.is_bool(bad) else bad
    r = s.check(bad)
    P.stats.note_query([bad], r)
    if r == z3.unsat:
        P.obligation(name, "holds", symbolic=True)
        # witness: the compiled kernels / real classes at these sizes agree with the direct definition
        P.witness("c12", dict(params), "witness-" + name.replace(" ", "_").replace("[", "_").replace("]", "_").replace(",", "_").replace("=", "").replace("/", "-")[:90], name)
    elif r == z3.unknown:
        P.inconclusive_(f"{name}: solver unknown")
    else:
        src = ("import sys, json\nfrom symx.concrete import c12\n"
               f"sys.exit(c12.main(json.loads({json.dumps(json.dumps(params))})))\n")
        P.violation(name.replace(" ", "_").replace("[", "_").replace("]", "_").replace(",", "_").replace("=", "").replace("/", "-")[:100], name, src, model=params)


def conv_terms(x, y):
    n, m = len(x), len(y)
    return [z3.Sum([x[k] * y[t - k] for k in range(n) if 0 <= t - k < m]) for t in range(n + m - 1)]


def fftconvolve_sym(x, y):
    from sigpyproc.core import kernels as K
    it = Interp(capture(K.fftconvolve, (f4a, f4a)), "int", hooks=hooks())
    return it.run([x, y])


def eqs(got, want):
    """polynomial identities, term by term"""
    bad = []
    for g, w in zip(got, want):
        bad.append(z3.simplify(g - w, som=True) != 0)
    return z3.Or(bad) if bad else z3.BoolVal(False)


def work(P, item):
    from sigpyproc.core import kernels as K
    kind = item[0]
    if kind == "fftconvolve":
        _, n, m = item
        x, y = sym_vec("x", n), sym_vec("y", m)
        r = fftconvolve_sym(x, y)
        xs, ys = [e.t for e in x.store], [e.t for e in y.store]
        want = conv_terms(xs, ys)
        name = f"fftconvolve[n={n},m={m}]: full linear convolution of length n+m-1"
        if r.shape != (n + m - 1,):
            solve(P, name, z3.BoolVal(True), dict(kind="fftconvolve", n=n, m=m))
        else:
            solve(P, name, eqs([T(r.get((i,))) for i in range(n + m - 1)], want), dict(kind="fftconvolve", n=n, m=m))
    elif kind == "correlate":
        _, n, m = item
        from sigpyproc import timeseries

        class KS:
            @staticmethod
            def fftconvolve(a, b):
                xa, xb = NArr(types.float32, (len(a),), name="a"), NArr(types.float32, (len(b),), name="b")
                xa.store = [Sym(v.e, types.float32) for v in a]
                xb.store = [Sym(v.e, types.float32) for v in b]
                r = fftconvolve_sym(xa, xb)
                out = np.empty(r.shape, dtype=object)
                for i in range(r.shape[0]):
                    out[i] = SReal(T(r.get((i,))))
                return out

        class SR(SReal):
            def conjugate(self):
                return self
        x = np.array([SR(z3.Real(f"x{i}")) for i in range(n)], dtype=object)
        y = np.array([SR(z3.Real(f"y{i}")) for i in range(m)], dtype=object)

        class H:
            def new_header(self, u):
                return u

        class TS:
            def __init__(self, data, header):
                self.data, self.header = data, header
        me, other = TS(x, H()), TS(y, H())
        res = rebind(timeseries.TimeSeries.correlate, kernels=KS, TimeSeries=TS, np=np)(me, other)
        want = [z3.Sum([x[k + lag].e * y[k].e for k in range(m) if 0 <= k + lag < n]) for lag in range(-(m - 1), n)]
        name = f"TimeSeries.correlate[n={n},m={m}]: correlation at lags -(m-1)..n-1"
        bad = z3.BoolVal(len(res.data) != n + m - 1 or res.header.get("nsamples") != n + m - 1)
        if len(res.data) == n + m - 1:
            bad = z3.Or(bad, eqs([v.e for v in res.data], want))
        solve(P, name, bad, dict(kind="correlate", n=n, m=m))
    elif kind == "roundtrip":
        _, n = item
        from sigpyproc import fourierseries, timeseries
        ngood = int(K.nb_fft_good_size(n, True))
        x = sym_vec("x", n)

        class KSc:
            nb_fft_good_size = staticmethod(lambda k, real=False: int(K.nb_fft_good_size(k, real)))

            @staticmethod
            def nb_rfft(a, nn=None):
                return _rfft(a, nn)

            @staticmethod
            def nb_irfft(s, nn=None):
                return _irfft(s, nn)

            def __getattr__(self, name):
                # any other kernel the Python layer calls is executed from its own typed IR (FFT calls through the contract)
                disp = getattr(K, name)

                def call(*a):
                    tys = tuple(f4a if isinstance(v, NArr) and v.dtype == types.float32 else (c8a if isinstance(v, NArr) else types.int64) for v in a)
                    return Interp(capture(disp, tys), "int", hooks=hooks()).run(list(a))
                return call
        KS = KSc()

        class H:
            def __init__(self, ns):
                self.nsamples = ns

            def new_header(self, u=None):
                return H((u or {}).get("nsamples", self.nsamples))

        class FS:
            def __init__(self, data, header):
                self.data, self.header = data, header

        class TS:
            def __init__(self, data, header):
                self.data, self.header = data, header
                if isinstance(data, NArr) and data.shape[0] != header.nsamples:
                    raise ValueError("Input data length does not match header nsamples")

            @property
            def nsamples(self):
                return self.data.shape[0]

        class FSmod:
            FourierSeries = FS

        class TSmod:
            TimeSeries = TS
        me = TS(x, H(n))
        name = f"rfft->ifft[n={n},good size {ngood}]: input zero-padded to the transform length, header nsamples = that length"
        try:
            f = rebind(timeseries.TimeSeries.rfft, kernels=KS, fourierseries=FSmod)(me)
            back = rebind(fourierseries.FourierSeries.ifft, kernels=KS, timeseries=TSmod)(f)
        except ValueError as e:
            solve(P, name, z3.BoolVal(True), dict(kind="roundtrip", n=n))
            P.reached += 1
            return
        xs = [e.t for e in x.store] + [z3.RealVal(0)] * (ngood - n)
        bad = z3.BoolVal(f.header.nsamples != ngood or back.data.shape != (ngood,) or back.header.nsamples != ngood)
        if back.data.shape == (ngood,):
            bad = z3.Or(bad, eqs([T(back.data.get((i,))) for i in range(ngood)], xs))
        solve(P, name, bad, dict(kind="roundtrip", n=n))
    elif kind == "pad":
        _, n = item
        it = Interp(capture(K.circular_pad_goodsize, (f4a,)), "int", hooks=hooks())
        x = sym_vec("x", n)
        r = it.run([x])
        ngood = int(K.nb_fft_good_size(n, True))
        bad = z3.BoolVal(r.shape != (ngood,))
        if r.shape == (ngood,):
            bad = z3.Or(bad, z3.Or([T(r.get((i,))) != x.store[i % n].t for i in range(ngood)]))
        solve(P, f"circular_pad_goodsize[n={n}]: periodic extension to the good size {ngood}", bad, dict(kind="pad", n=n))
    elif kind == "mspec":
        _, n = item
        it = Interp(capture(K.form_mspec, (c8a,)), "int")
        a = NArr(types.complex64, (n,), name="fspec")
        a.store = [Cx(Sym(z3.Real(f"re{i}"), types.float32), Sym(z3.Real(f"im{i}"), types.float32)) for i in range(n)]

        def run(ctx):
            return it.run([a])

        def on_path(ctx, r):
            Ctx.cur = ctx
            bad = [z3.BoolVal(r.shape != (n,))]
            for i in range(min(n, r.shape[0])):
                v = T(r.get((i,)))
                bad.append(z3.Or(v < 0, v * v != a.store[i].re.t ** 2 + a.store[i].im.t ** 2))
            if ctx.check(z3.Or(bad)) == z3.unsat:
                P.obligation(f"form_mspec[n={n}]: modulus of every Fourier bin", "holds", symbolic=True)
            else:
                P.inconclusive_(f"form_mspec[n={n}]: model {ctx.solver.model()}")
            Ctx.cur = None
        explore(run, bound=2, on_path=on_path, stats=P.stats)
    P.reached += 1


def _rfft(a, n):
    vals = [T(a.get((i,))) for i in range(a.shape[0])]
    N = a.shape[0] if n is None else int(n)
    vals = vals[:N] + [z3.RealVal(0)] * max(0, N - len(vals))
    return Spec(N, [vals])


def _irfft(s, n):
    class _I:
        @staticmethod
        def concretise(v, *a):
            return int(v)
    return irfft_hook(_I, [s] + ([n] if n is not None else []), {}, None)


def batch(P, items):
    for it in items:
        work(P, it)


def run(R):
    from sigpyproc import fourierseries, timeseries
    from sigpyproc.core import kernels as K
    R.encode(K.fftconvolve, K.circular_pad_goodsize, K.form_mspec, K.nb_fft_good_size, timeseries.TimeSeries.rfft, timeseries.TimeSeries.correlate,
             fourierseries.FourierSeries.ifft)
    quick = R.tier == "quick"
    nmax = 6 if quick else 10
    items = []
    for n in range(1, nmax + 1):
        for m in range(1, n + 1):
            if quick and m not in (1, 2, n):
                continue
            items.append(("fftconvolve", n, m))
            if m <= 3 or not quick:
                items.append(("correlate", n, m))
        items.append(("pad", n))
        items.append(("mspec", min(n, 3)))
    for n in range(1, (16 if quick else 28)):
        items.append(("roundtrip", n))
    R.bounds.update(dict(lengths=f"series lengths 1..{nmax}, kernel lengths 1..n, symbolic real data; rfft->ifft for every n up to {15 if quick else 27} (covers odd good sizes 5, 9, 15, 25, 27)"))
    R.assume("FFT contract (trusted, FFI): rfft(a,N) has N//2+1 bins; irfft(s) defaults to 2*(bins-1) samples; for M=N irfft(rfft(a,N)*rfft(b,N),N) is the length-N "
             "circular convolution of the zero-padded inputs and irfft(rfft(a,N),N) is a padded; for M != N the result is unconstrained",
             "rocket_fft.good_size is evaluated concretely (its argument is concrete inside the bounds)", "exact arithmetic")
    R.out_of_claim("NOT DECIDED: that the FFT library computes the discrete Fourier sum, Parseval's identity, and the float32 FFT rounding error",
                   "lengths beyond the bounds")
    from .. import kvalid
    kvalid.validate(R, ["circular_pad_goodsize"])
    chunks = [items[i::12] for i in range(12)]
    parts = R.pmap(batch, chunks)
    R.vacuity_witness("c12", sum(p.reached for p in parts) > 0)
    # twin: a circular (unpadded) convolution must be told apart from the linear one
    x, y = [z3.Real(f"x{i}") for i in range(3)], [z3.Real(f"y{i}") for i in range(2)]
    lin = conv_terms(x, y)
    circ = [z3.Sum([x[k] * (y + [z3.RealVal(0)])[(t - k) % 3] for k in range(3)]) for t in range(3)]
    s = z3.Solver()
    s.add(z3.Or([z3.simplify(a - b, som=True) != 0 for a, b in zip(lin, circ)]))
    R.stats.queries += 1
    R.vacuity_witness("c12-twin(circular and linear convolution differ)", s.check() == z3.sat)
