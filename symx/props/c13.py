"""C13 (partial) - matched-filter response is the normalised template correlation and its argmax.

Decided (E1, numba typed IR, FFT as the trusted contract of symx.fftc):
  * normalize_template: zero mean and unit power (or unchanged when the power is zero);
  * convolve_templates: for every data length, template length and reference bin within the bounds,
    convs[i,t] = sum_k zp[(t+k-ref) mod N] * Hn[k] with zp the data periodically extended to the good
    size N and Hn the normalised zero-padded template (normalisation entered as the elementwise map
    established above).
  * MatchedFilter._compute / __init__ (E2, real bytecode, numpy's own argmax/unravel_index on an object array of
    symbolic responses): the z-scores and the bank (templates and reference bins in order) are what
    convolve_templates receives, S/N is the maximum response and (best template, peak bin) its location; the
    data are standardised with the requested location / scale estimators - hence the responses depend on the data
    only through estimate_zscore, whose invariance under offset and positive scaling is decided in C15;
  * get_box_width_spacing for a symbolic spacing factor: starts at 1, strictly increasing, bounded, maximal.
NOT decided: FFT accuracy; gaussian and lorentzian template generators (exp); end-to-end recovery of a
noiseless boxcar (Cauchy-Schwarz over the bank: nonlinear with square roots)."""
from __future__ import annotations

import json
from fractions import Fraction

import numpy as np
import z3
from numba.core import types

from ..core import NumpyFallback, Ctx, Inconclusive, explore
from ..fftc import hooks
from ..nbsym import Interp, NArr, Sym, capture

f4a = types.Array(types.float32, 1, "C")
NF = z3.Function("NORMALISED", z3.RealSort(), z3.RealSort())


def T(v):
    if isinstance(v, Sym):
        return v.t if v.t.sort() == z3.RealSort() else z3.ToReal(v.t)
    return z3.RealVal(Fraction(float(v)))


def vec(name, n):
    a = NArr(types.float32, (n,), name=name)
    a.store = [Sym(z3.Real(f"{name}{i}"), types.float32) for i in range(n)]
    return a


def violation(P, name, params):
    src = ("import sys, json\nfrom symx.concrete import c13\n"
           f"sys.exit(c13.main(json.loads({json.dumps(json.dumps(params))})))\n")
    P.violation(name.replace(" ", "_").replace("[", "_").replace("]", "_").replace(",", "_").replace("=", "")[:100], name, src, model=params)


def norm_work(P, n):
    from sigpyproc.core import kernels as K
    cap = capture(K.normalize_template, (f4a,))

    def run(ctx):
        it = Interp(cap, "int")
        x = vec("h", n)
        return x, it.run([x])

    def on_path(ctx, o):
        Ctx.cur = ctx
        x, r = o
        xs = [e.t for e in x.store]
        out = [T(r.get((i,))) for i in range(n)]
        mean = z3.Sum(xs) / n
        power = z3.Sum([(v - mean) ** 2 for v in xs])
        roots = [(r_, t_) for tag, r_, t_ in [x_ for x_ in ctx.notes if x_[0] == "sqrt"]]
        nm = f"normalize_template[n={n}]: zero mean, unit power (out_k * sqrt(power) = x_k - mean), unchanged when the power is zero"
        ok = True
        if len(roots) != 1:
            ok = False
        else:
            rt, arg = roots[0]
            # the root is taken of the power of the mean-subtracted template
            if ctx.check(z3.simplify(arg - power, som=True) != 0) != z3.unsat:
                ok = False
            zero = ctx.check(rt != 0) == z3.unsat      # this path is the norm == 0 branch
            for k in range(n):
                c = (out[k] != xs[k] - mean) if zero else (out[k] * rt != xs[k] - mean)
                if ctx.check(c) != z3.unsat:
                    ok = False
        if ok:
            P.obligation(nm, "holds", symbolic=True)
        else:
            violation(P, nm, dict(kind="normalize", n=n))
        Ctx.cur = None
    explore(run, bound=2, on_path=on_path, stats=P.stats, deadline_s=120)
    P.reached += 1


def conv_work(P, item):
    _, n, tl, ref = item
    from sigpyproc.core import kernels as K
    lty = types.ListType(f4a)
    ity = types.ListType(types.int64)
    cap = capture(K.convolve_templates, (f4a, lty, ity))
    N = int(K.nb_fft_good_size(n, True))

    def norm_hook(interp, a, kw, sig):
        arr = a[0]
        out = NArr(arr.dtype, arr.shape, name="temp_norm")
        for i in range(arr.shape[0]):
            out.store[i] = Sym(NF(T(interp.load(arr, (i,)))), types.float32)
        return out
    hk = hooks()
    hk[K.normalize_template] = norm_hook
    it = Interp(cap, "int", hooks=hk)
    z = vec("z", n)
    h = vec("h", tl)
    nm = f"convolve_templates[n={n},good size {N},template length {tl},ref_bin={ref}]: response = circular inner product with the normalised template"
    try:
        r = it.run([z, [h], [ref]])
    except Exception as e:  # noqa: BLE001
        if type(e).__name__ == "KernelRaise":
            violation(P, nm, dict(kind="convolve", n=n, tl=tl, ref=ref))
            P.reached += 1
            return
        raise
    zs = [e.t for e in z.store]
    hs = [e.t for e in h.store] + [z3.RealVal(0)] * (N - tl)
    bad = [z3.BoolVal(r.shape != (1, n))]
    if r.shape == (1, n):
        for t in range(n):
            want = z3.Sum([zs[((t + k - ref) % N) % n] * NF(hs[k]) for k in range(N)])
            bad.append(z3.simplify(T(r.get((0, t))) - want, som=True) != 0)
    s = z3.Solver()
    s.set("timeout", 60000)
    P.stats.queries += 1
    res = s.check(z3.Or(bad))
    P.stats.note_query([z3.Or(bad)], res)
    if res == z3.unsat:
        P.obligation(nm, "holds", symbolic=True)
        P.witness("c13", dict(kind="convolve", n=n, tl=tl, ref=ref), f"witness-convolve-{n}-{tl}-{ref}", nm)
    elif res == z3.unknown:
        P.inconclusive_(nm + ": solver unknown")
    else:
        violation(P, nm, dict(kind="convolve", n=n, tl=tl, ref=ref))
    P.reached += 1


# ---------------------------------------------------------------- MatchedFilter bookkeeping (E2 on the real bytecode)
def mf_work(P, item):
    """MatchedFilter.__init__/_compute: the data are standardised with the requested estimators, the bank's
    templates and reference bins go to convolve_templates in bank order together with the z-scores (so the
    responses depend on the data only through the z-scores), and (snr, best template, peak bin) are the maximum of
    the response matrix and its location."""
    _, T_, N_ = item
    from ..core import SReal, rebind, wrap
    from sigpyproc.core import filters

    class Tmp:
        def __init__(self, k):
            self.data, self.ref_bin, self.k = f"TDATA{k}", 10 + k, k

    def run(ctx):
        C = np.empty((T_, N_), dtype=object)
        for i in np.ndindex(C.shape):
            C[i] = SReal(z3.Real(f"c_{i[0]}_{i[1]}"))
        calls = []

        class KStub:
            @staticmethod
            def convolve_templates(z, temps, refs):
                calls.append((z, list(temps), list(refs)))
                return C

        class TypedStub:
            List = list

        class ZS:
            data = "ZDATA"

        class Self:
            zscores = ZS()
            temp_bank = [Tmp(k) for k in range(T_)]
        me = Self()
        rebind(filters.MatchedFilter._compute, kernels=KStub, typed=TypedStub)(me)
        return dict(me=me, C=C, calls=calls)

    def on_path(ctx, o):
        Ctx.cur = ctx
        me, C = o["me"], o["C"]
        nm = f"MatchedFilter._compute[{T_} templates x {N_} bins]"
        viol = []
        viol.append(("templates, reference bins (bank order) and the z-scores are what convolve_templates receives",
                     z3.BoolVal(o["calls"] != [("ZDATA", [f"TDATA{k}" for k in range(T_)], [10 + k for k in range(T_)])])))
        it, pk = int(me._itemp), int(me._peak_bin)
        inr = 0 <= it < T_ and 0 <= pk < N_
        viol.append(("peak location inside the response matrix", z3.BoolVal(not inr)))
        if inr:
            viol.append(("S/N is the response at the reported template and bin", wrap(me._best_snr).e != C[it, pk].e))
            viol.append(("S/N is the maximum response", z3.Or([C[i].e > C[it, pk].e for i in np.ndindex(C.shape)])))
            viol.append(("best template is the bank entry of the reported row", z3.BoolVal(me._best_temp is not me.temp_bank[it])))
        for name, c in viol:
            if ctx.check(c) == z3.unsat:
                P.obligation(f"{nm}/{name}", "holds", symbolic=True)
            else:
                m = ctx.solver.model()
                vals = [[float(Fraction(m.eval(C[i, j].e, model_completion=True).numerator_as_long(), m.eval(C[i, j].e, model_completion=True).denominator_as_long()))
                         for j in range(N_)] for i in range(T_)]
                violation(P, f"{nm}/{name}", dict(kind="compute", convs=vals))
                break
        P.reached += 1
        Ctx.cur = None
    try:
        explore(run, bound=2, on_path=on_path, stats=P.stats, deadline_s=300)
    except Inconclusive as ex:
        P.inconclusive_(f"{item}: {ex}")


def init_work(P, item):
    """MatchedFilter.__init__: 1-D data only; estimate_zscore(data, loc_method, scale_method) is what gets standardised"""
    from ..core import rebind
    from sigpyproc.core import filters
    calls = []

    def ez(data, loc_method=None, scale_method=None, **kw):
        calls.append((data.dtype == np.float32 and data.tolist(), loc_method, scale_method, kw))
        return "ZS"

    class Self:
        data = property(filters.MatchedFilter.data.fget)

        def _setup_templates(self, nb, sf):
            calls.append(("setup", nb, sf))

        def _compute(self):
            calls.append(("compute",))
    me = Self()
    rebind(filters.MatchedFilter.__init__, estimate_zscore=ez)(me, np.array([1.0, 2.0, 4.0]), "mean", "mad", "boxcar", 8, 2.0)
    ok = calls == [([1.0, 2.0, 4.0], "mean", "mad", {}), ("setup", 8, 2.0), ("compute",)] and me._zscores == "ZS" and me._temp_kind == "boxcar"
    try:
        rebind(filters.MatchedFilter.__init__, estimate_zscore=ez)(Self(), np.zeros((2, 2)))
        ok = False
    except ValueError:
        pass
    P.stats.queries += 1
    P.reached += 1
    if ok:
        P.obligation("MatchedFilter.__init__: float32 copy of the 1-D data standardised with the requested location/scale methods, then templates, then responses", "holds", symbolic=False)
    else:
        violation(P, "MatchedFilter.__init__ bookkeeping", dict(kind="init"))


def widths_work(P, item):
    """get_box_width_spacing with a symbolic spacing factor: widths start at 1, strictly increase, never exceed the
    maximum, follow w' = int(max(w+1, f*w)) and stop only when the next width would exceed the maximum"""
    _, size_max = item
    from ..core import SInt, SReal, rebind, s_int, s_max, wrap
    from sigpyproc.core import filters

    class NPw(metaclass=NumpyFallback):
        float32 = np.float32

        @staticmethod
        def array(v, dtype=None):
            return list(v)

    def run(ctx):
        f = SReal(z3.Real("f"))
        ctx.assume(z3.And(f.e >= z3.RealVal("1/2"), f.e <= 4))
        fn = filters.MatchedFilter.__dict__["get_box_width_spacing"].__func__
        return rebind(fn, np=NPw, int=s_int, max=s_max)(size_max, f), f

    def on_path(ctx, o):
        Ctx.cur = ctx
        w, f = o
        nm = f"get_box_width_spacing[size_max={size_max}]"
        ws = [wrap(x).e for x in w]
        ws = [z3.ToReal(x) if x.sort() == z3.IntSort() else x for x in ws]
        viol = [("first width is 1", ws[0] != 1),
                ("widths strictly increase", z3.Or([ws[i + 1] <= ws[i] for i in range(len(ws) - 1)] or [z3.BoolVal(False)])),
                ("no width exceeds the maximum", z3.Or([x > size_max for x in ws])),
                ("consecutive widths: w' = trunc(max(w+1, f*w))", z3.Or([z3.Not(z3.And(ws[i + 1] >= ws[i] + 1, z3.Or(ws[i + 1] == ws[i] + 1, z3.And(ws[i + 1] <= f.e * ws[i], ws[i + 1] > f.e * ws[i] - 1))))
                                                                           for i in range(len(ws) - 1)] or [z3.BoolVal(False)])),
                ("the bank is maximal: the next width would exceed the maximum", z3.And(ws[-1] + 1 <= size_max, f.e * ws[-1] < size_max + 1))]
        for name, c in viol:
            if ctx.check(c) == z3.unsat:
                P.obligation(f"{nm}/{name}", "holds", symbolic=True)
            else:
                m = ctx.solver.model()
                v = m.eval(f.e, model_completion=True)
                violation(P, f"{nm}/{name}", dict(kind="widths", size_max=size_max, factor=float(Fraction(v.numerator_as_long(), v.denominator_as_long()))))
                break
        P.reached += 1
        Ctx.cur = None
    try:
        explore(run, bound=size_max + 2, on_path=on_path, stats=P.stats, deadline_s=300)
    except Inconclusive as ex:
        P.inconclusive_(f"{item}: {ex}")


def batch(P, items):
    for it in items:
        if it[0] == "norm":
            norm_work(P, it[1])
        elif it[0] == "mf":
            mf_work(P, it)
        elif it[0] == "init":
            init_work(P, it)
        elif it[0] == "widths":
            widths_work(P, it)
        else:
            conv_work(P, it)


def run(R):
    from sigpyproc.core import kernels as K
    R.encode(K.convolve_templates, K.normalize_template, K.circular_pad_goodsize)
    quick = R.tier == "quick"
    nmax = 7 if quick else 11
    items = [("norm", n) for n in range(1, 5)]
    for n in range(1, nmax + 1):
        for tl in range(1, min(n, 3) + 1):
            for ref in range(tl):
                items.append(("conv", n, tl, ref))
    items += [("mf", 1, 3), ("mf", 2, 2), ("mf", 2, 3)] + ([] if quick else [("mf", 3, 3), ("mf", 2, 4)])
    items += [("init",)] + [("widths", m) for m in ((1, 2, 5, 8) if quick else (1, 2, 3, 5, 8, 12, 16))]
    from sigpyproc.core import filters
    R.encode(filters.MatchedFilter._compute, filters.MatchedFilter.__init__, filters.MatchedFilter.__dict__["get_box_width_spacing"].__func__)
    R.bounds.update(dict(data=f"data lengths 1..{nmax} (good sizes incl. odd ones: 3, 5, 9), template lengths 1..3, every reference bin, symbolic real data and templates",
                         normalisation="template lengths 1..4"))
    R.assume("FFT contract of symx.fftc (trusted)", "normalisation inside convolve_templates = one elementwise affine map NORMALISED(.) applied to every bin of the padded template "
             "(established for normalize_template separately)", "exact arithmetic")
    R.bounds.update(dict(bookkeeping="response matrices of 1x3, 2x2, 2x3 (thorough: 3x3, 2x4) symbolic reals; box widths for maxima 1..16 with a symbolic spacing factor in [0.5, 4]"))
    R.assume("invariance under offset / positive scaling is compositional: responses depend on the data only through estimate_zscore (decided here), whose equivariance is C15")
    R.out_of_claim("NOT DECIDED: FFT accuracy; gaussian/lorentzian generators (exp); recovery of a noiseless boxcar end to end (nonlinear with square roots)")
    from .. import kvalid
    kvalid.validate(R, ["normalize_template", "circular_pad_goodsize"])
    chunks = [items[i::12] for i in range(12)]
    parts = R.pmap(batch, chunks)
    R.vacuity_witness("c13", sum(p.reached for p in parts) > 0)
    s = z3.Solver()
    a, b = z3.Real("a"), z3.Real("b")
    s.add(NF(a) * b != NF(b) * a)
    R.stats.queries += 1
    R.vacuity_witness("c13-twin(swapping data and template is distinguishable)", s.check() == z3.sat)
