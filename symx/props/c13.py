"""C13 (partial) - matched-filter response is the normalised template correlation.

Decided (E1, numba typed IR, FFT as the trusted contract of symx.fftc):
  * normalize_template: zero mean and unit power (or unchanged when the power is zero);
  * convolve_templates: for every data length, template length and reference bin within the bounds,
    convs[i,t] = sum_k zp[(t+k-ref) mod N] * Hn[k] with zp the data periodically extended to the good
    size N and Hn the normalised zero-padded template (normalisation entered as the elementwise map
    established above).
NOT decided: FFT accuracy; the argmax bookkeeping of MatchedFilter._compute (numpy's own argmax /
unravel_index); invariance under offset/scale of the data (needs the C15 estimators); gaussian and
lorentzian template generators (exp)."""
from __future__ import annotations

import json
from fractions import Fraction

import numpy as np
import z3
from numba.core import types

from ..core import Ctx, Inconclusive, explore
from ..fftc import hooks
from ..nbsym import Interp, NArr, Sym, capture

f4a = types.Array(types.float32, 1, "C")
NF = z3.Function("NORMALISED", z3.RealSort(), z3.RealSort())


def T(v):
    if isinstance(v, Sym):
        return v.t if v.t.sort() == z3.RealSort() else z3.ToReal(v.t)
    return z3.RealVal(Fraction(float(v)))


def vec(name, n):
    a = NArr(types.float32, (n,), name=name)
    a.store = [Sym(z3.Real(f"{name}{i}"), types.float32) for i in range(n)]
    return a


def violation(P, name, params):
    src = ("import sys, json\nfrom symx.concrete import c13\n"
           f"sys.exit(c13.main(json.loads({json.dumps(json.dumps(params))})))\n")
    P.violation(name.replace(" ", "_").replace("[", "_").replace("]", "_").replace(",", "_").replace("=", "")[:100], name, src, model=params)


def norm_work(P, n):
    from sigpyproc.core import kernels as K
    cap = capture(K.normalize_template, (f4a,))

    def run(ctx):
        it = Interp(cap, "int")
        x = vec("h", n)
        return x, it.run([x])

    def on_path(ctx, o):
        Ctx.cur = ctx
        x, r = o
        xs = [e.t for e in x.store]
        out = [T(r.get((i,))) for i in range(n)]
        mean = z3.Sum(xs) / n
        power = z3.Sum([(v - mean) ** 2 for v in xs])
        roots = [(r_, t_) for tag, r_, t_ in [x_ for x_ in ctx.notes if x_[0] == "sqrt"]]
        nm = f"normalize_template[n={n}]: zero mean, unit power (out_k * sqrt(power) = x_k - mean), unchanged when the power is zero"
        ok = True
        if len(roots) != 1:
            ok = False
        else:
            rt, arg = roots[0]
            # the root is taken of the power of the mean-subtracted template
            if ctx.check(z3.simplify(arg - power, som=True) != 0) != z3.unsat:
                ok = False
            zero = ctx.check(rt != 0) == z3.unsat      # this path is the norm == 0 branch
            for k in range(n):
                c = (out[k] != xs[k] - mean) if zero else (out[k] * rt != xs[k] - mean)
                if ctx.check(c) != z3.unsat:
                    ok = False
        if ok:
            P.obligation(nm, "holds", symbolic=True)
        else:
            violation(P, nm, dict(kind="normalize", n=n))
        Ctx.cur = None
    explore(run, bound=2, on_path=on_path, stats=P.stats, deadline_s=120)
    P.reached += 1


def conv_work(P, item):
    _, n, tl, ref = item
    from sigpyproc.core import kernels as K
    lty = types.ListType(f4a)
    ity = types.ListType(types.int64)
    cap = capture(K.convolve_templates, (f4a, lty, ity))
    N = int(K.nb_fft_good_size(n, True))

    def norm_hook(interp, a, kw, sig):
        arr = a[0]
        out = NArr(arr.dtype, arr.shape, name="temp_norm")
        for i in range(arr.shape[0]):
            out.store[i] = Sym(NF(T(interp.load(arr, (i,)))), types.float32)
        return out
    hk = hooks()
    hk[K.normalize_template] = norm_hook
    it = Interp(cap, "int", hooks=hk)
    z = vec("z", n)
    h = vec("h", tl)
    nm = f"convolve_templates[n={n},good size {N},template length {tl},ref_bin={ref}]: response = circular inner product with the normalised template"
    try:
        r = it.run([z, [h], [ref]])
    except Exception as e:  # noqa: BLE001
        if type(e).__name__ == "KernelRaise":
            violation(P, nm, dict(kind="convolve", n=n, tl=tl, ref=ref))
            P.reached += 1
            return
        raise
    zs = [e.t for e in z.store]
    hs = [e.t for e in h.store] + [z3.RealVal(0)] * (N - tl)
    bad = [z3.BoolVal(r.shape != (1, n))]
    if r.shape == (1, n):
        for t in range(n):
            want = z3.Sum([zs[((t + k - ref) % N) % n] * NF(hs[k]) for k in range(N)])
            bad.append(z3.simplify(T(r.get((0, t))) - want, som=True) != 0)
    s = z3.Solver()
    s.set("timeout", 60000)
    P.stats.queries += 1
    res = s.check(z3.Or(bad))
    if res == z3.unsat:
        P.obligation(nm, "holds", symbolic=True)
    elif res == z3.unknown:
        P.inconclusive_(nm + ": solver unknown")
    else:
        violation(P, nm, dict(kind="convolve", n=n, tl=tl, ref=ref))
    P.reached += 1


def batch(P, items):
    for it in items:
        if it[0] == "norm":
            norm_work(P, it[1])
        else:
            conv_work(P, it)


def run(R):
    from sigpyproc.core import kernels as K
    R.encode(K.convolve_templates, K.normalize_template, K.circular_pad_goodsize)
    quick = R.tier == "quick"
    nmax = 7 if quick else 11
    items = [("norm", n) for n in range(1, 5)]
    for n in range(1, nmax + 1):
        for tl in range(1, min(n, 3) + 1):
            for ref in range(tl):
                items.append(("conv", n, tl, ref))
    R.bounds.update(dict(data=f"data lengths 1..{nmax} (good sizes incl. odd ones: 3, 5, 9), template lengths 1..3, every reference bin, symbolic real data and templates",
                         normalisation="template lengths 1..4"))
    R.assume("FFT contract of symx.fftc (trusted)", "normalisation inside convolve_templates = one elementwise affine map NORMALISED(.) applied to every bin of the padded template "
             "(established for normalize_template separately)", "exact arithmetic")
    R.out_of_claim("NOT DECIDED: FFT accuracy; MatchedFilter._compute's argmax/unravel_index bookkeeping; invariance under offset/scale (needs C15's estimators); "
                   "gaussian/lorentzian generators; recovery of a noiseless boxcar (follows from the response formula, not checked end to end)")
    from .. import kvalid
    kvalid.validate(R, ["normalize_template", "circular_pad_goodsize"])
    chunks = [items[i::12] for i in range(12)]
    parts = R.pmap(batch, chunks)
    R.vacuity_witness("c13", sum(p.reached for p in parts) > 0)
    s = z3.Solver()
    a, b = z3.Real("a"), z3.Real("b")
    s.add(NF(a) * b != NF(b) * a)
    R.stats.queries += 1
    R.vacuity_witness("c13-twin(swapping data and template is distinguishable)", s.check() == z3.sat)
