"""C14 - time-domain filters and decimators equal their definitions.

A. E1 (numba typed IR) on downsample_1d_mean, downsample_2d_mean_flat, detrend_1d: symbolic data at
   every small shape/factor; uint8 inputs accumulate without wrap and are truncated once;
B. E3: the real stats.running_filter / downsample_1d / downsample_2d / downsample_2d_flat and
   TimeSeries.deredden/downsample, FilterbankBlock.downsample bytecode run on *real numpy object
   arrays of symbolic reals* (np.pad, reshape, mean(axis=...) are numpy's own); only median and
   bottleneck's moving windows are term builders (trusted stubs)."""
from __future__ import annotations

import itertools
import json
from fractions import Fraction

import numpy as np
import z3
from numba.core import types

from ..core import Ctx, Inconclusive, SBool, SInt, SReal, Unsupported, explore, rebind, wrap
from ..nbsym import Interp, KernelRaise, NArr, Sym, capture, sym_array

MED = z3.Function("MED", z3.IntSort(), z3.RealSort())     # placeholder sort holder
_med_cache = {}


def median_term(vals):
    """median of a tuple of real terms as an uninterpreted function of the *multiset given in order*:
    two medians are compared through their argument lists (same window <=> same arguments)"""
    n = len(vals)
    f = _med_cache.get(n)
    if f is None:
        f = z3.Function(f"MEDIAN{n}", *([z3.RealSort()] * n), z3.RealSort())
        _med_cache[n] = f
    return f(*vals)


def T(v):
    if isinstance(v, Sym):
        return v.t
    if isinstance(v, SReal):
        return v.e
    if isinstance(v, (int, np.integer)):
        return z3.RealVal(int(v))
    return z3.RealVal(Fraction(float(v)))


def Rr(t):
    return z3.ToReal(t) if t.sort() == z3.IntSort() else t


def trunc(t):
    fl = z3.ToInt(t)
    return z3.ToReal(z3.If(z3.Or(t >= 0, z3.ToReal(fl) == t), fl, fl + 1))


def solve(P, name, cons, bad, replay=None):
    s = z3.Solver()
    s.set("timeout", 60000)
    s.add(*cons)
    P.stats.queries += 1
    r = s.check(bad)
    P.stats.note_query(list(cons) + [bad], r)
    if r == z3.unsat:
        P.obligation(name, "holds", symbolic=True)
        if replay is not None:
            # witness: any model of the preconditions, run through the real function by the concrete driver
            s3 = z3.Solver()
            s3.add(*cons)
            if s3.check() == z3.sat:
                try:
                    wp = replay(s3.model())
                except Exception:  # noqa: BLE001
                    wp = None
                if wp is not None:
                    P.witness("c14", wp, "witness-" + name.replace(" ", "_").replace("/", "-").replace("[", "_").replace("]", "_").replace(",", "_").replace("(", "_").replace(")", "_")[:110], name)
        return None
    if r == z3.unknown:
        P.inconclusive_(f"{name}: solver unknown")
        return None
    m = s.model()
    if replay is not None:
        params = replay(m)
        src = ("import sys, json\nfrom symx.concrete import c14\n"
               f"sys.exit(c14.main(json.loads({json.dumps(json.dumps(params))})))\n")
        P.violation(name.replace(" ", "_").replace("/", "-").replace("[", "_").replace("]", "_").replace(",", "_").replace("(", "_").replace(")", "_")[:120], name, src, model=params)
    else:
        P.inconclusive_(f"{name}: model {m} (no replay)")
    return m


def mval(m, t):
    v = m.eval(t, model_completion=True)
    if z3.is_int_value(v):
        return v.as_long()
    return float(Fraction(v.numerator_as_long(), v.denominator_as_long()))


# ---------------------------------------------------------------- A: kernels
def kernel_work(P, item):
    from sigpyproc.core import kernels as K
    kind = item[1]
    if kind == "ds1d":
        _, _, dt, n, factor, par = item
        disp = K.downsample_1d_mean_parallel if par else K.downsample_1d_mean
        aty = types.Array(types.uint8 if dt == "u1" else types.float32, 1, "C")
        it = Interp(capture(disp, (aty, types.int64)), "int")
        x = sym_array(it, "x", aty, (n,))
        cons = [z3.And(e.t >= 0, e.t <= 255) for e in x.store] if dt == "u1" else []
        r = it.run([x, factor])
        bad = [z3.BoolVal(r.shape != (n // factor,))]
        for i in range(min(r.shape[0], n // factor)):
            mean = z3.Sum([Rr(x.store[i * factor + k].t) for k in range(factor)]) / factor
            want = trunc(mean) if dt == "u1" else mean
            bad.append(Rr(T(r.get((i,)))) != want)
        xs = [e.t for e in x.store]
        solve(P, f"downsample_1d_mean{'_parallel' if par else ''}[{dt},n={n},factor={factor}]: group means, remainder dropped", cons, z3.Or(bad),
              lambda m: dict(kind="ds1d", dtype=dt, factor=factor, data=[mval(m, t) for t in xs]))
    elif kind == "ds2d":
        _, _, dt, d1, d2, f1, f2 = item
        aty = types.Array(types.uint8 if dt == "u1" else types.float32, 1, "C")
        it = Interp(capture(K.downsample_2d_mean_flat, (aty, types.int64, types.int64, types.int64, types.int64)), "int")
        x = sym_array(it, "x", aty, (d1 * d2,))
        cons = [z3.And(e.t >= 0, e.t <= 255) for e in x.store] if dt == "u1" else []
        r = it.run([x, f1, f2, d1, d2])
        n1, n2 = d1 // f1, d2 // f2
        bad = [z3.BoolVal(r.shape != (n1 * n2,))]
        for i in range(n1):
            for j in range(n2):
                if n2 * i + j >= r.shape[0]:
                    continue
                mean = z3.Sum([Rr(x.store[(i * f1 + a) * d2 + j * f2 + b].t) for a in range(f1) for b in range(f2)]) / (f1 * f2)
                want = trunc(mean) if dt == "u1" else mean
                bad.append(Rr(T(r.get((n2 * i + j,)))) != want)
        xs = [e.t for e in x.store]
        solve(P, f"downsample_2d_mean_flat[{dt},{d1}x{d2},factors=({f1},{f2})]: block means of full groups (dim2 fastest)", cons, z3.Or(bad),
              lambda m: dict(kind="ds2d", dtype=dt, dims=[d1, d2], factors=[f1, f2], data=[mval(m, t) for t in xs]))
    elif kind == "detrend":
        _, _, n = item
        aty = types.Array(types.float64, 1, "C")
        it = Interp(capture(K.detrend_1d, (aty,)), "int")
        x = NArr(types.float64, (n,), name="x")
        x.store = [Sym(z3.Real(f"x{i}"), types.float64) for i in range(n)]
        xs = [e.t for e in x.store]
        try:
            r = it.run([x])
        except KernelRaise as e:
            P.stats.queries += 1
            if n == 0 and e.exc_class is ValueError:
                P.obligation("detrend_1d[n=0] raises ValueError", "holds", symbolic=False)
            else:
                P.inconclusive_(f"detrend_1d[n={n}] raised {e}")
            P.reached += 1
            return
        if r.shape != (n,):
            solve(P, f"detrend_1d[n={n}]: residual of the least-squares line (normal equations)", [], z3.BoolVal(True),
                  lambda m: dict(kind="detrend", data=[float(i * i) for i in range(n)]))
            P.reached += 1
            return
        res = [Rr(T(r.get((i,)))) for i in range(n)]
        a, b = z3.Real("slope"), z3.Real("icpt")
        bad = [z3.BoolVal(r.shape != (n,))]
        if n >= 2:
            # least-squares residual: both normal equations, and it is the input minus a straight line
            bad.append(z3.Sum(res) != 0)
            bad.append(z3.Sum([i * res[i] for i in range(n)]) != 0)
            line = z3.And([res[i] == xs[i] - (a * i + b) for i in range(n)])
            s2 = z3.Solver()
            s2.set("timeout", 60000)
            s2.add(z3.ForAll([a, b], z3.Not(line)))
            P.stats.queries += 1
            # existence of the line is implied by residual linearity: check second differences instead (quantifier free)
            for i in range(n - 2):
                bad.append((res[i + 2] - xs[i + 2]) - 2 * (res[i + 1] - xs[i + 1]) + (res[i] - xs[i]) != 0)
        else:
            bad.append(res[0] != 0)
        solve(P, f"detrend_1d[n={n}]: residual of the least-squares line (normal equations)", [], z3.Or(bad),
              lambda m: dict(kind="detrend", data=[mval(m, t) for t in xs]))
    P.reached += 1


# ---------------------------------------------------------------- B: numpy glue on object arrays
class OArr(np.ndarray):
    def astype(self, dt, *a, **k):
        return self


class TArr(OArr):
    """object array of symbolic integers with a *declared* numpy dtype: code that consults array.dtype (accumulator /
    result types) sees the declared one"""
    decl = np.dtype(np.uint8)

    @property
    def dtype(self):
        return self.decl


def int_array(name, shape):
    from ..core import SInt
    a = np.empty(shape, dtype=object)
    for i in np.ndindex(a.shape):
        a[i] = SInt(z3.Int(f"{name}_" + "_".join(map(str, i))))
    return a


def obj_array(name, shape):
    a = np.empty(shape, dtype=object)
    for i in np.ndindex(a.shape):
        a[i] = SReal(z3.Real(f"{name}_" + "_".join(map(str, i))))
    return a


class BN:
    """bottleneck stub: trailing window of width w; the first w-1 outputs are undefined"""

    @staticmethod
    def move_mean(a, w):
        out = np.empty(a.shape, dtype=object)
        for i in range(len(a)):
            out[i] = (sum(a[i - w + 1:i + 1][1:], a[i - w + 1:i + 1][0]) / w) if i >= w - 1 else "undefined"
        return out

    @staticmethod
    def move_median(a, w):
        out = np.empty(a.shape, dtype=object)
        for i in range(len(a)):
            out[i] = SReal(median_term([wrap(v).e for v in a[i - w + 1:i + 1]])) if i >= w - 1 else "undefined"
        return out


class NPx:
    """numpy proxy: everything is numpy's own except median"""

    def __getattr__(self, n):
        return getattr(np, n)

    def median(self, a, axis=None):
        a = np.asarray(a, dtype=object)
        if axis is None:
            return SReal(median_term([wrap(v).e for v in a.ravel()]))
        axes = (axis,) if isinstance(axis, int) else tuple(axis)
        axes = tuple(ax % a.ndim for ax in axes)
        keep = [k for k in range(a.ndim) if k not in axes]
        out = np.empty([a.shape[k] for k in keep], dtype=object)
        for idx in np.ndindex(out.shape):
            sl = [slice(None)] * a.ndim
            for k, v in zip(keep, idx):
                sl[k] = v
            out[idx] = SReal(median_term([wrap(v).e for v in a[tuple(sl)].ravel()]))
        return out

    def asarray(self, a, *x, **k):
        return a if isinstance(a, np.ndarray) else np.asarray(a, *x, **k)

    def mean(self, a, axis=None, dtype=None, **k):
        """numpy's mean: exact (float64 accumulator) unless an integer accumulator/result dtype is requested, in which
        case the sum wraps modulo 2^bits and the quotient is truncated (numpy semantics for integer dtype=)"""
        a = np.asarray(a, dtype=object)

        def red(vals):
            tot = vals[0]
            for v in vals[1:]:
                tot = tot + v
            if dtype is not None and np.issubdtype(np.dtype(dtype), np.integer):
                bits = np.dtype(dtype).itemsize * 8
                return (tot % (1 << bits)) // len(vals)
            return tot / len(vals)
        if axis is None:
            return red(list(a.ravel()))
        axes = (axis,) if isinstance(axis, int) else tuple(axis)
        axes = tuple(ax % a.ndim for ax in axes)
        keep = [k_ for k_ in range(a.ndim) if k_ not in axes]
        out = np.empty([a.shape[k_] for k_ in keep], dtype=object)
        for idx in np.ndindex(out.shape):
            sl = [slice(None)] * a.ndim
            for k_, v in zip(keep, idx):
                sl[k_] = v
            out[idx] = red(list(a[tuple(sl)].ravel()))
        return out


class KInterp:
    """kernels.* -> symbolic interpretation of the typed IR on the object array's terms"""

    def __getattr__(self, name):
        from sigpyproc.core import kernels as K
        disp = getattr(K, name)

        def call(array, *scalars):
            aty = types.Array(types.float32, 1, "C")
            it = Interp(capture(disp, (aty,) + (types.int64,) * len(scalars)), "int")
            x = NArr(types.float32, (len(array),), name="x")
            x.store = [Sym(wrap(v).e, types.float32) for v in array]
            r = it.run([x] + list(scalars))
            out = np.empty(r.shape, dtype=object)
            for i in r.indices():
                v = r.get(i)
                out[i] = SReal(Rr(T(v)))
            return out
        return call


def reflect_index(i, n):
    m = i % (2 * n)
    return m if m < n else 2 * n - 1 - m


def glue_work(P, item):
    from sigpyproc.core import stats
    kind = item[1]
    npx = NPx()
    if kind == "running":
        _, _, n, w, method = item
        fn = rebind(stats.running_filter, np=npx, bn=BN)
        x = obj_array("x", (n,))
        out = fn(x.view(OArr), w, method)
        xs = [v.e for v in x]
        bad = [z3.BoolVal(len(out) != n)]
        for i in range(min(n, len(out))):
            win = [xs[reflect_index(i - w // 2 + k, n)] for k in range(w)]
            if isinstance(out[i], str):
                bad.append(z3.BoolVal(True))
                continue
            want = z3.Sum(win) / w if method == "mean" else median_term(win)
            bad.append(wrap(out[i]).e != want)
        solve(P, f"running_filter[{method},n={n},window={w}]: centred window over the symmetrically reflected series, same length", [], z3.Or(bad),
              lambda m: dict(kind="running", n=n, window=w, method=method))
    elif kind == "ds1d":
        _, _, n, factor, method = item
        fn = rebind(stats.downsample_1d, np=npx, kernels=KInterp())
        x = obj_array("x", (n,))
        xs = [v.e for v in x]
        try:
            out = fn(x.view(OArr), factor, method)
        except ValueError:
            P.stats.queries += 1
            if factor > n:
                P.obligation(f"downsample_1d[{method},n={n},factor={factor}] refused (factor > size)", "holds", symbolic=False)
            else:
                # a factor that fits the array is a valid request: refusing it violates the definition
                params = dict(kind="ds1d_glue", n=n, factor=factor, method=method)
                src = ("import sys, json\nfrom symx.concrete import c14\n"
                       f"sys.exit(c14.main(json.loads({json.dumps(json.dumps(params))})))\n")
                P.violation(f"downsample_1d_{method}_n{n}_factor{factor}_refused", f"downsample_1d[{method},n={n},factor={factor}] raised ValueError although factor <= size", src, model=params)
            P.reached += 1
            return
        bad = [z3.BoolVal(len(out) != n // factor or factor > n)]
        for i in range(min(len(out), n // factor)):
            g = xs[i * factor:(i + 1) * factor]
            want = z3.Sum(g) / factor if method == "mean" else median_term(g)
            bad.append(wrap(out[i]).e != want)
        solve(P, f"downsample_1d[{method},n={n},factor={factor}]: group {method}s, remainder dropped", [], z3.Or(bad),
              lambda m: dict(kind="ds1d_glue", n=n, factor=factor, method=method))
    elif kind in ("ds2d", "ds2dflat", "block", "ds2d_u8", "block_u8"):
        _, _, d1, d2, f1, f2, method = item
        typed = kind.endswith("_u8")
        kind = kind.replace("_u8", "")
        cons = []
        if typed:
            # 8-bit samples: symbolic integers in [0, 255] in an array whose declared dtype is uint8
            x = int_array("x", (d1, d2))
            cons = [z3.And(x[i].e >= 0, x[i].e <= 255) for i in np.ndindex(x.shape)]
            xs = [[z3.ToReal(x[i, j].e) for j in range(d2)] for i in range(d1)]
            VIEW = TArr
        else:
            x = obj_array("x", (d1, d2))
            xs = [[x[i, j].e for j in range(d2)] for i in range(d1)]
            VIEW = OArr
        if kind == "ds2d":
            fn = rebind(stats.downsample_2d, np=npx)
            out = fn(x.view(VIEW), (f1, f2), method)
        elif kind == "ds2dflat":
            fn = rebind(stats.downsample_2d_flat, np=npx, kernels=KInterp())
            out = np.asarray(fn(x.ravel().view(OArr), f1, f2, d1, d2, method), dtype=object).reshape(d1 // f1, d2 // f2)
        else:
            from sigpyproc import block
            sfn = rebind(stats.downsample_2d, np=npx)

            class _StM(type):
                def __getattr__(cls, name):
                    # any other function of sigpyproc.core.stats the (modified) method reaches for: its real bytecode
                    return rebind(getattr(stats, name), np=npx, kernels=KInterp())

            class St(metaclass=_StM):
                downsample_2d = staticmethod(sfn)

            class H:
                tsamp, foff, nsamples, nchans = 1.0, -1.0, d2, d1

                def new_header(self, ch):
                    return ch

            class B:
                def __init__(self, data, hdr):
                    self.data, self.header = data, hdr

                def __getattr__(self, name):
                    # other attributes of a block (nchans, nsamples, ...): the real class's own property / method
                    if name.startswith("__"):
                        raise AttributeError(name)
                    for klass in block.FilterbankBlock.__mro__:
                        a = klass.__dict__.get(name)
                        if isinstance(a, property):
                            return a.fget(self)
                        if callable(a):
                            import types as _t
                            return _t.MethodType(a, self)
                    raise AttributeError(name)
            me = B(x.view(VIEW), H())
            try:
                res = rebind(block.FilterbankBlock.downsample, stats=St, FilterbankBlock=B)(me, ffactor=f1, tfactor=f2, filter_method=method)
            except (ValueError, IndexError, TypeError, ZeroDivisionError) as ex:
                # valid factors on a valid block: the method must not refuse
                params = dict(kind="ds2d_glue", which="block", dims=[d1, d2], factors=[f1, f2], method=method, dtype="uint8" if typed else "float64", data=None)
                src = ("import sys, json\nfrom symx.concrete import c14\n"
                       f"sys.exit(c14.main(json.loads({json.dumps(json.dumps(params))})))\n")
                P.violation(f"block_downsample_{d1}x{d2}_{f1}_{f2}_raised", f"FilterbankBlock.downsample[{d1}x{d2},({f1},{f2})] raised {type(ex).__name__}: {ex}", src, model=params)
                P.reached += 1
                return
            out = res.data
            ch = res.header
            P.stats.queries += 1
            okh = ch == {"tsamp": 1.0 * f2, "foff": -1.0 * f1, "nsamples": d2 // f2, "nchans": d1 // f1}
            if okh:
                P.obligation(f"FilterbankBlock.downsample[{d1}x{d2},({f1},{f2})] header follows the factors", "holds", symbolic=False)
            else:
                P.inconclusive_(f"FilterbankBlock.downsample header changes {ch}")
        n1, n2 = d1 // f1, d2 // f2
        bad = [z3.BoolVal(tuple(out.shape) != (n1, n2))]
        if tuple(out.shape) == (n1, n2):
            for i in range(n1):
                for j in range(n2):
                    g = [xs[i * f1 + a][j * f2 + b] for a in range(f1) for b in range(f2)]
                    want = z3.Sum(g) / (f1 * f2) if method == "mean" else median_term(g)
                    got = wrap(out[i, j]).e
                    bad.append((z3.ToReal(got) if got.sort() == z3.IntSort() else got) != want)
        solve(P, f"{kind}[{method},{d1}x{d2},factors=({f1},{f2}){',uint8 samples' if typed else ''}]: means/medians of full groups on both axes", cons, z3.Or(bad),
              lambda m: dict(kind="ds2d_glue", which=kind, dims=[d1, d2], factors=[f1, f2], method=method, dtype="uint8" if typed else "float64",
                             data=[[m.eval(x[i, j].e, model_completion=True).as_long() for j in range(d2)] for i in range(d1)] if typed else None))
    elif kind == "deredden":
        _, _, n, w, method = item
        from sigpyproc import timeseries
        sfn = rebind(stats.running_filter, np=npx, bn=BN)

        class _StM2(type):
            def __getattr__(cls, name):
                return rebind(getattr(stats, name), np=npx, bn=BN, kernels=KInterp())

        class St(metaclass=_StM2):
            running_filter = staticmethod(sfn)

        class H:
            tsamp = 0.5

        class TS:
            def __init__(self, data, hdr):
                self.data, self.header = data, hdr
        x = obj_array("x", (n,))
        xs = [v.e for v in x]
        me = TS(x.view(OArr), H())
        res = rebind(timeseries.TimeSeries.deredden, stats=St, TimeSeries=TS, round=round)(me, method=method, window=w * 0.5)
        out = res.data
        bad = [z3.BoolVal(len(out) != n)]
        for i in range(min(n, len(out))):
            win = [xs[reflect_index(i - w // 2 + k, n)] for k in range(w)]
            filt = z3.Sum(win) / w if method == "mean" else median_term(win)
            bad.append(wrap(out[i]).e != xs[i] - filt)
        solve(P, f"TimeSeries.deredden[{method},n={n},window={w} bins]: input minus its running filter", [], z3.Or(bad),
              lambda m: dict(kind="deredden", n=n, window=w, method=method))
    P.reached += 1


def work(P, item):
    return (kernel_work if item[0] == "kernel" else glue_work)(P, item)


def run(R):
    from sigpyproc import block, timeseries
    from sigpyproc.core import kernels as K, stats
    R.encode(K.downsample_1d_mean, K.downsample_2d_mean_flat, K.detrend_1d, stats.running_filter, stats.downsample_1d, stats.downsample_2d,
             stats.downsample_2d_flat, timeseries.TimeSeries.deredden, block.FilterbankBlock.downsample)
    quick = R.tier == "quick"
    nmax, wmax = (5, 8) if quick else (8, 14)
    R.bounds.update(dict(running_filter=f"every (n <= {nmax}, window <= {wmax}), both methods, symbolic real data",
                         decimation=f"1-D: n <= {nmax}, every factor 1..n+1; 2-D: shapes up to 4x6 (non-square), factors 1..3 on each axis; float32 and uint8 kernels",
                         detrend="n = 0..6"))
    R.assume("bottleneck.move_mean/move_median: trailing window of width w, first w-1 outputs undefined (trusted stub)",
             "median is an uninterpreted function of its window given in order (two medians agree iff their windows agree); numpy's own median is trusted",
             "exact arithmetic; the final store of a float mean into a uint8 array truncates toward zero")
    R.out_of_claim("running_filter_fast (interpolation)", "bottleneck's numerics", "sizes beyond the bounds")
    items = []
    for n in range(1, nmax + 1):
        for f in range(1, n + 1):
            items.append(("kernel", "ds1d", "f4", n, f, False))
            if n <= 4:
                items.append(("kernel", "ds1d", "u1", n, f, False))
        items.append(("kernel", "ds1d", "f4", n, max(1, n // 2), True))
    shapes2 = [(2, 3), (3, 2), (4, 3)] if quick else [(2, 3), (3, 2), (4, 3), (3, 5), (4, 6), (5, 4)]
    for d1, d2 in shapes2:
        for f1, f2 in itertools.product((1, 2, 3), repeat=2):
            if f1 > d1 or f2 > d2:
                continue
            items.append(("kernel", "ds2d", "u1" if (d1 * d2) <= 12 else "f4", d1, d2, f1, f2))
            for m in ("mean", "median"):
                items.append(("glue", "ds2d", d1, d2, f1, f2, m))
                if d1 * d2 <= 12:
                    items.append(("glue", "ds2dflat", d1, d2, f1, f2, m))
            if (f1, f2) in ((2, 1), (1, 2), (2, 3)):
                items.append(("glue", "block", d1, d2, f1, f2, "mean"))
                items.append(("glue", "ds2d_u8", d1, d2, f1, f2, "mean"))
                items.append(("glue", "block_u8", d1, d2, f1, f2, "mean"))
    for n in range(0, 7):
        items.append(("kernel", "detrend", n))
    for n in range(1, nmax + 1):
        for w in range(1, wmax + 1):
            for m in ("mean", "median"):
                items.append(("glue", "running", n, w, m))
        for f in range(1, n + 2):
            for m in ("mean", "median"):
                items.append(("glue", "ds1d", n, f, m))
    for n, w in ((4, 3), (5, 4), (3, 7)):
        for m in ("mean", "median"):
            items.append(("glue", "deredden", n, w, m))
    # batch the many small items
    from .. import kvalid
    kvalid.validate(R, ["downsample_1d_mean", "downsample_2d_mean_flat", "detrend_1d"])
    batches = [items[i::14] for i in range(14)]
    parts = R.pmap(batch_work, batches)
    R.vacuity_witness("c14", sum(p.reached for p in parts) > 0)
    # twin: a trailing (uncentred) window must be refuted
    x = [z3.Real(f"x{i}") for i in range(4)]
    s = z3.Solver()
    s.add(z3.Sum([x[reflect_index(2 - 1 + k, 4)] for k in range(3)]) != z3.Sum([x[reflect_index(2 - 2 + k, 4)] for k in range(3)]))
    R.stats.queries += 1
    R.vacuity_witness("c14-twin(centred and trailing windows differ)", s.check() == z3.sat)


def batch_work(P, batch):
    for item in batch:
        work(P, item)
