"""C15 (partial) - robust normalisation is finite and axis-consistent.

Decided (E3: the real functions run on numpy object arrays of symbolic reals; order statistics are
uninterpreted functions of the ordered lane they are applied to, so "same lane" <=> "same term"):
  * utils.apply_along_axes hands every lane (resp. the flattened data) to the 1-D estimator and returns
    results in lane order with the right shape, for axis in {None, int, negative int, tuple};
  * estimate_loc (mean, median) and estimate_scale (std, iqr, mad, sn; and through apply_along_axes: qn,
    gapper, diffcov) computed along an axis equal the 1-D estimator on each lane, and over the whole array
    equal the estimator on the flattened data; keepdims results broadcast against the input;
  * estimate_zscore never divides by zero: a (near-)zero scale is replaced by one.
NOT decided: affine equivariance of the estimators (measured: z3 does not decide MAD/Sn/Qn through sorting
networks at the minimum lane length of 8 within 120 s), the biweight (astropy internals) and doublemad's
NaN masking, finiteness under float overflow."""
from __future__ import annotations

import itertools
import json

import numpy as np
import z3

from ..core import Ctx, Inconclusive, SBool, SReal, Unsupported, explore, rebind, wrap

_uf = {}


def UF(name, vals):
    vals = [wrap(v).e if not isinstance(v, z3.ExprRef) else v for v in vals]
    vals = [z3.ToReal(v) if v.sort() == z3.IntSort() else v for v in vals]
    key = (name, len(vals))
    if key not in _uf:
        _uf[key] = z3.Function(f"{name}_{len(vals)}", *([z3.RealSort()] * len(vals)), z3.RealSort())
    return SReal(_uf[key](*vals))


def obj(shape, name="x"):
    a = np.empty(shape, dtype=object)
    for i in np.ndindex(a.shape):
        a[i] = SReal(z3.Real(f"{name}_" + "_".join(map(str, i))))
    return a


def reduce_axis(a, axis, keepdims, f):
    a = np.asarray(a, dtype=object)
    if axis is None:
        r = f(list(a.ravel()))
        if keepdims:
            out = np.empty((1,) * a.ndim, dtype=object)
            out[(0,) * a.ndim] = r
            return out
        return r
    axes = (axis,) if isinstance(axis, (int, np.integer)) else tuple(axis)
    axes = tuple(ax % a.ndim for ax in axes)
    keep = [k for k in range(a.ndim) if k not in axes]
    out = np.empty([a.shape[k] for k in keep], dtype=object)
    for idx in np.ndindex(out.shape):
        sl = [slice(None)] * a.ndim
        for k, v in zip(keep, idx):
            sl[k] = v
        out[idx] = f(list(a[tuple(sl)].ravel()))
    if keepdims:
        out = np.expand_dims(out, axes)
    if out.ndim == 0:
        return out[()]
    return out


class NPr:
    """numpy proxy: elementwise arithmetic is numpy's own on object arrays; reductions / order statistics are
    uninterpreted functions of the ordered lane (trusted stubs)"""
    float64, float32, pi, nan = np.float64, np.float32, np.pi, np.nan
    newaxis = np.newaxis

    def __getattr__(self, n):
        return getattr(np, n)

    def asanyarray(self, a, dtype=None):
        return np.asarray(a, dtype=object) if not isinstance(a, np.ndarray) else a

    asarray = asanyarray

    def median(self, a, axis=None, keepdims=False):
        return reduce_axis(a, axis, keepdims, lambda v: UF("MEDIAN", v))

    def mean(self, a, axis=None, keepdims=False, dtype=None):
        return reduce_axis(a, axis, keepdims, lambda v: UF("MEAN", v))

    def std(self, a, axis=None, keepdims=False, dtype=None):
        return reduce_axis(a, axis, keepdims, lambda v: UF("STD", v))

    def percentile(self, a, q, axis=None, keepdims=False):
        parts = [reduce_axis(a, axis, keepdims, lambda v, qq=qq: UF(f"PCTL{int(qq)}", v)) for qq in q]
        parts = [np.asarray(p, dtype=object) for p in parts]
        return np.stack(parts, axis=0)

    def diff(self, a, axis=-1):
        a = np.asarray(a, dtype=object)
        return np.diff(a, axis=axis)

    def squeeze(self, a):
        return np.squeeze(np.asarray(a, dtype=object))

    def isclose(self, a, b):
        a = np.asarray(a, dtype=object)
        out = np.empty(a.shape, dtype=object)
        for i in np.ndindex(a.shape):
            t = wrap(a[i]).e - wrap(b).e
            out[i] = SBool(z3.And(t <= z3.RealVal("1e-8"), t >= -z3.RealVal("1e-8")))
        return out if out.ndim else out[()]

    def any(self, a):
        a = np.asarray(a, dtype=object)
        return SBool(z3.Or([x.e for x in a.ravel()]))

    def where(self, c, x, y):
        c = np.asarray(c, dtype=object)
        xb, yb = np.broadcast_to(np.asarray(x, dtype=object), c.shape), np.broadcast_to(np.asarray(y, dtype=object), c.shape)
        out = np.empty(c.shape, dtype=object)
        for i in np.ndindex(c.shape):
            xe, ye = wrap(xb[i]), wrap(yb[i])
            out[i] = SReal(z3.If(c[i].e, xe.e if isinstance(xe, SReal) else z3.ToReal(xe.e), ye.e if isinstance(ye, SReal) else z3.ToReal(ye.e)))
        return out if out.ndim else out[()]

    def zeros(self, n, dtype=None):
        a = np.empty(n, dtype=object)
        a[...] = SReal(z3.RealVal(0))
        return a

    def ones(self, n, dtype=None):
        a = np.empty(n, dtype=object)
        a[...] = SReal(z3.RealVal(1))
        return a

    divisions = []

    def subtract(self, a, b, dtype=None):
        return np.asarray(a, dtype=object) - np.asarray(b, dtype=object)

    def divide(self, a, b, out=None):
        b = np.asarray(b, dtype=object)
        NPr.divisions.append(b)
        r = np.asarray(a, dtype=object) / b
        if out is not None:
            out[...] = r
            return out
        return r


def differs(a, b):
    a, b = np.asarray(a, dtype=object), np.asarray(b, dtype=object)
    if a.shape != b.shape:
        return z3.BoolVal(True)
    return z3.Or([wrap(x).e != wrap(y).e for x, y in zip(a.ravel(), b.ravel())] or [z3.BoolVal(False)])


def violation(P, name, params):
    src = ("import sys, json\nfrom symx.concrete import c15\n"
           f"sys.exit(c15.main(json.loads({json.dumps(json.dumps(params))})))\n")
    P.violation(name.replace(" ", "_").replace("[", "_").replace("]", "_").replace(",", "_").replace("=", "").replace("(", "").replace(")", "")[:100], name, src, model=params)


def check(P, ctx, name, cond, params):
    r = ctx.check(cond)
    if r == z3.unsat:
        P.obligation(name, "holds", symbolic=True)
    else:
        violation(P, name, params)


def work(P, item):
    from sigpyproc import utils
    from sigpyproc.core import stats
    kind = item[0]
    npr = NPr()
    aaa = rebind(utils.apply_along_axes, np=npr)
    sub = dict(np=npr, apply_along_axes=aaa)
    one_d = {m: rebind(getattr(stats, f"_scale_{m}_1d"), np=npr) for m in ("qn", "gapper", "diffcov")}
    scale_fns = {}
    for m in ("iqr", "mad", "sn"):
        scale_fns[f"_scale_{m}"] = rebind(getattr(stats, f"_scale_{m}"), **sub)
    for m in ("qn", "gapper", "diffcov"):
        # the 1-D estimators themselves (partition/sort/cov) are order statistics: uninterpreted over the lane
        scale_fns[f"_scale_{m}"] = rebind(getattr(stats, f"_scale_{m}"), **dict(sub, **{f"_scale_{m}_1d": (lambda lane, m=m: UF(m.upper(), list(lane)))}))
    est_scale = rebind(stats.estimate_scale, np=npr, **scale_fns, _scale_doublemad=None, _scale_biweight=None)
    est_loc = rebind(stats.estimate_loc, np=npr)

    def run(ctx):
        if kind == "apply":
            _, shape, axis = item
            x = obj(shape)
            got = aaa(lambda lane: UF("EST", list(lane)), x, axis)
            want = reduce_axis(x, axis, False, lambda v: UF("EST", v))
            return [(f"apply_along_axes[shape={shape},axis={axis}]: each lane in order", differs(got, want), dict(kind="apply", shape=list(shape), axis=axis))]
        if kind in ("scale", "loc"):
            _, method, shape, axis, keepdims = item
            x = obj(shape)
            f = est_scale if kind == "scale" else est_loc
            got = f(x, method, axis, keepdims=keepdims)
            want = reduce_axis(x, axis, keepdims, lambda v: f(np.array(v, dtype=object), method, None))
            nm = f"estimate_{kind}[{method},shape={shape},axis={axis},keepdims={keepdims}]: equals the 1-D estimator on each lane / on the flattened data"
            obl = [(nm, differs(got, want), dict(kind=kind, method=method, shape=list(shape), axis=axis, keepdims=keepdims))]
            if keepdims:
                try:
                    np.broadcast_shapes(np.asarray(got, dtype=object).shape, shape)
                    ok = True
                except ValueError:
                    ok = False
                obl.append((nm + " (result broadcasts against the input)", z3.BoolVal(not ok), dict(kind=kind, method=method, shape=list(shape), axis=axis, keepdims=True)))
            return obl
        _, lm, sm, shape, axis = item
        x = obj(shape)
        NPr.divisions = []

        class ZR:
            def __init__(self, data, loc, scale):
                self.data, self.loc, self.scale = data, loc, scale
        zs = rebind(stats.estimate_zscore, np=npr, estimate_loc=est_loc, estimate_scale=est_scale, ZScoreResult=ZR)(x, lm, sm, axis)
        nm = f"estimate_zscore[{lm},{sm},shape={shape},axis={axis}]"
        obl = []
        if len(NPr.divisions) != 1:
            obl.append((nm + ": exactly one division", z3.BoolVal(True), dict(kind="zscore", loc=lm, scale=sm, shape=list(shape), axis=axis)))
        else:
            d = NPr.divisions[0]
            obl.append((nm + ": the divisor is never zero", z3.Or([wrap(v).e == 0 for v in d.ravel()]), dict(kind="zscore", loc=lm, scale=sm, shape=list(shape), axis=axis)))
        obl.append((nm + ": z-scores have the input's shape", z3.BoolVal(np.asarray(zs.data, dtype=object).shape != shape), dict(kind="zscore", loc=lm, scale=sm, shape=list(shape), axis=axis)))
        return obl

    def on_path(ctx, obl):
        Ctx.cur = ctx
        P.reached += 1
        for nm, c, params in obl:
            check(P, ctx, nm, c, params)
        Ctx.cur = None
    try:
        explore(run, bound=4, on_path=on_path, stats=P.stats, deadline_s=300)
    except (Inconclusive, Unsupported) as e:
        P.inconclusive_(f"{item}: {e}")


def batch(P, items):
    for it in items:
        work(P, it)


def run(R):
    from sigpyproc import utils
    from sigpyproc.core import stats
    R.encode(utils.apply_along_axes, stats.estimate_loc, stats.estimate_scale, stats.estimate_zscore, stats._scale_iqr, stats._scale_mad, stats._scale_sn,
             stats._scale_qn, stats._scale_gapper, stats._scale_diffcov)
    quick = R.tier == "quick"
    items = []
    for shape, axes in (((3, 2), (None, 0, 1, -1, (0, 1))), ((2, 3), (None, 0, 1)), ((2, 2, 2), (None, 0, 2, (0, 2), (1, 2)))):
        for ax in axes:
            items.append(("apply", shape, ax))
    shapes = [(4, 2), (2, 4)] if quick else [(8, 2), (2, 8), (4, 3)]
    for m in ("std", "iqr", "mad", "sn", "qn", "gapper", "diffcov"):
        for shape in shapes:
            for ax in (None, 0, 1):
                for kd in (False, True):
                    items.append(("scale", m, shape, ax, kd))
    for m in ("mean", "median"):
        for shape in shapes:
            for ax in (None, 0, 1):
                items.append(("loc", m, shape, ax, True))
    for lm in ("mean", "median", "norm"):
        for sm in ("std", "mad", "iqr", "sn", "norm"):
            for ax in (0, 1, None):
                items.append(("zscore", lm, sm, shapes[0], ax))
    R.bounds.update(dict(shapes=[list(s) for s in shapes], methods="scale: std, iqr, mad, sn, qn, gapper, diffcov; loc: mean, median; z-score: loc x scale incl. 'norm'",
                         axes="None, 0, 1 (and negative / tuple axes for apply_along_axes)"))
    R.assume("np.median/percentile/mean/std/partition/sort/cov are trusted: each is an uninterpreted function of the ordered lane it is applied to",
             "np.isclose(s, 0) <=> |s| <= 1e-8", "exact arithmetic for the elementwise part")
    R.out_of_claim("NOT DECIDED: affine equivariance of the estimators (sorting-network encodings of MAD/Sn/Qn at lane length 8: z3 unknown after 120 s)",
                   "biweight (astropy internals) and doublemad (NaN masking)", "finiteness under float32 overflow", "lane lengths are those of the listed shapes")
    chunks = [items[i::14] for i in range(14)]
    parts = R.pmap(batch, chunks)
    R.vacuity_witness("c15", sum(p.reached for p in parts) > 0)
    a, b = z3.Real("a"), z3.Real("b")
    s = z3.Solver()
    s.add(UF("MEDIAN", [a, b]).e != UF("MEDIAN", [b, a]).e)
    R.stats.queries += 1
    R.vacuity_witness("c15-twin(lanes in another order are another term)", s.check() == z3.sat)
