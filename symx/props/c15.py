"""C15 - robust normalisation is affine-equivariant, axis-consistent and never divides by zero.

E3: the real functions run on numpy object arrays of symbolic reals; order statistics (median, percentile, k-th
order statistic of sort/partition, std, cov, sqrt) are uninterpreted functions of the ordered lane they are
applied to, constrained by a trusted contract (contract_instances) - so "same lane" <=> "same term".
Decided:
  * utils.apply_along_axes hands every lane (resp. the flattened data) to the 1-D estimator and returns
    results in lane order with the right shape, for axis in {None, int, negative int, tuple};
  * estimate_loc (mean, median) and estimate_scale (std, iqr, mad, sn; and through apply_along_axes: qn,
    gapper, diffcov) computed along an axis equal the 1-D estimator on each lane, and over the whole array
    equal the estimator on the flattened data; keepdims results broadcast against the input;
  * estimate_zscore never divides by zero: a (near-)zero scale is replaced by one;
  * affine equivariance for concrete a (both signs), symbolic b and symbolic data: loc(a*x+b) = a*loc(x)+b,
    scale(a*x+b) = |a|*scale(x) for std, iqr, mad (incl. its mean-absolute-deviation fallback), doublemad
    (NaN masking decided per path), sn, qn, gapper, diffcov - the real 1-D estimators run, only np.sort /
    np.partition / np.cov / np.sqrt / np.median / np.percentile are contract stubs - and
    zscore(a*x+b) = sign(a)*zscore(x) whenever the scale estimate is not degenerate.
NOT decided: the biweight (astropy internals), finiteness under float32 overflow, and data whose scale estimate
lies strictly between 0 and 1e-5 (np.isclose's threshold makes the fallback scale-dependent there)."""
from __future__ import annotations

import itertools
import json

import numpy as np
import z3

from ..core import Ctx, Inconclusive, SBool, SReal, Unsupported, explore, rebind, wrap

_uf = {}
APPS = []          # every order-statistic application of the current path: (name, [arg terms], result term)


def UFraw(name, vals):
    key = (name, len(vals))
    if key not in _uf:
        _uf[key] = z3.Function(f"{name}_{len(vals)}", *([z3.RealSort()] * len(vals)), z3.RealSort())
    return _uf[key](*vals)


def UF(name, vals):
    vals = [wrap(v).e if not isinstance(v, z3.ExprRef) else v for v in vals]
    vals = [z3.ToReal(v) if v.sort() == z3.IntSort() else v for v in vals]
    r = UFraw(name, vals)
    APPS.append((name, vals, r))
    if name in ("MEDIAN", "MEAN") and Ctx.cur is not None and vals:
        # contract: a median / mean lies between the smallest and the largest element
        Ctx.cur.assume(z3.And(z3.Or([x <= r for x in vals]), z3.Or([x >= r for x in vals])))
    return SReal(r)


NAN = float("nan")


def isnan(v):
    return isinstance(v, float) and v != v


def fam(name):
    i = len(name)
    while i and name[i - 1].isdigit():
        i -= 1
    return name[:i], (int(name[i:]) if i < len(name) else None)


def contract_instances(apps, cs, ds):
    """Instances of the trusted order-statistic contract (exact arithmetic):
         MEDIAN/MEAN(c*v+d) = c*MEDIAN/MEAN(v)+d (any c);  STD(c*v+d) = |c|*STD(v);
         PCTLq(c*v+d) = c*PCTLq(v)+d (c>0), = c*PCTL(100-q)(v)+d (c<0);
         KTHk(c*v+d) = c*KTHk(v)+d (c>0), = c*KTH(n-1-k)(v)+d (c<0)   [k-th order statistic: np.sort, np.partition];
         COV(c*w) = c^2*COV(w);  SQRT(c^2*t) = |c|*SQRT(t);  min(v) <= MEDIAN/MEAN(v) <= max(v)."""
    out = []
    seen = set()
    Q = lambda c: z3.RealVal(f"{c.numerator}/{c.denominator}")
    for (n1, a1, r1) in apps:
        f1, k1 = fam(n1)
        key1 = (n1, tuple(x.get_id() for x in a1))
        if f1 in ("MEDIAN", "MEAN") and key1 not in seen:
            out.append(z3.And(z3.Or([x <= r1 for x in a1]), z3.Or([x >= r1 for x in a1])))
        if key1 in seen:
            continue
        seen.add(key1)
        seen2 = set()
        for (n2, a2, r2) in apps:
            f2, k2 = fam(n2)
            key2 = (n2, tuple(x.get_id() for x in a2))
            if f1 != f2 or len(a1) != len(a2) or key2 in seen2:
                continue
            seen2.add(key2)
            for cf in cs:
                c = Q(cf)
                for d in ds:
                    if f1 in ("COV", "SQRT") and d is not ds[0]:
                        continue
                    if f1 == "SQRT":
                        pre = [a2[0] == Q(cf * cf) * a1[0]]
                    elif f1 == "COV":
                        pre = [y == c * x for x, y in zip(a1, a2)]
                    else:
                        pre = [y == c * x + d for x, y in zip(a1, a2)]
                    pre = z3.simplify(z3.And(pre))
                    if z3.is_false(pre):
                        continue
                    if f1 in ("MEDIAN", "MEAN"):
                        post = r2 == c * r1 + d
                    elif f1 == "STD":
                        post = r2 == Q(abs(cf)) * r1
                    elif f1 == "PCTL":
                        if cf > 0:
                            if k1 != k2:
                                continue
                            post = r2 == c * r1 + d
                        else:
                            post = r2 == c * UFraw(f"PCTL{100 - k2}", a1) + d
                            if k1 != k2:
                                continue
                    elif f1 == "KTH":
                        if cf > 0:
                            if k1 != k2:
                                continue
                            post = r2 == c * r1 + d
                        else:
                            if k1 != k2:
                                continue
                            post = r2 == c * UFraw(f"KTH{len(a1) - 1 - k2}", a1) + d
                    elif f1 == "COV":
                        post = r2 == Q(cf * cf) * r1
                    elif f1 == "SQRT":
                        post = r2 == Q(abs(cf)) * r1
                    else:
                        continue
                    out.append(z3.Implies(pre, post))
    return out


def obj(shape, name="x"):
    a = np.empty(shape, dtype=object)
    for i in np.ndindex(a.shape):
        a[i] = SReal(z3.Real(f"{name}_" + "_".join(map(str, i))))
    return a


def reduce_axis(a, axis, keepdims, f):
    a = np.asarray(a, dtype=object)
    if axis is None:
        r = f(list(a.ravel()))
        if keepdims:
            out = np.empty((1,) * a.ndim, dtype=object)
            out[(0,) * a.ndim] = r
            return out
        return r
    axes = (axis,) if isinstance(axis, (int, np.integer)) else tuple(axis)
    axes = tuple(ax % a.ndim for ax in axes)
    keep = [k for k in range(a.ndim) if k not in axes]
    out = np.empty([a.shape[k] for k in keep], dtype=object)
    for idx in np.ndindex(out.shape):
        sl = [slice(None)] * a.ndim
        for k, v in zip(keep, idx):
            sl[k] = v
        out[idx] = f(list(a[tuple(sl)].ravel()))
    if keepdims:
        out = np.expand_dims(out, axes)
    if out.ndim == 0:
        return out[()]
    return out


class NPr:
    """numpy proxy: elementwise arithmetic is numpy's own on object arrays; reductions / order statistics are
    uninterpreted functions of the ordered lane (trusted stubs)"""
    float64, float32, pi, nan = np.float64, np.float32, np.pi, np.nan
    newaxis = np.newaxis

    def __getattr__(self, n):
        return getattr(np, n)

    def asanyarray(self, a, dtype=None):
        return np.asarray(a, dtype=object) if not isinstance(a, np.ndarray) else a

    asarray = asanyarray

    def median(self, a, axis=None, keepdims=False):
        return reduce_axis(a, axis, keepdims, lambda v: UF("MEDIAN", v))

    def mean(self, a, axis=None, keepdims=False, dtype=None):
        return reduce_axis(a, axis, keepdims, lambda v: UF("MEAN", v))

    def std(self, a, axis=None, keepdims=False, dtype=None):
        return reduce_axis(a, axis, keepdims, lambda v: UF("STD", v))

    def percentile(self, a, q, axis=None, keepdims=False):
        parts = [reduce_axis(a, axis, keepdims, lambda v, qq=qq: UF(f"PCTL{int(qq)}", v)) for qq in q]
        parts = [np.asarray(p, dtype=object) for p in parts]
        return np.stack(parts, axis=0)

    def diff(self, a, axis=-1):
        a = np.asarray(a, dtype=object)
        return np.diff(a, axis=axis)

    def squeeze(self, a):
        return np.squeeze(np.asarray(a, dtype=object))

    exclude_band = False

    def isclose(self, a, b):
        a = np.asarray(a, dtype=object)
        out = np.empty(a.shape, dtype=object)
        for i in np.ndindex(a.shape):
            if isnan(a[i]):
                out[i] = SBool(z3.BoolVal(False))
                continue
            t = wrap(a[i]).e - wrap(b).e
            if NPr.exclude_band:
                # equivariance harness: the scale estimate is exactly zero or clear of the isclose threshold
                Ctx.cur.assume(z3.Or(t == 0, t >= z3.RealVal("1e-5"), t <= -z3.RealVal("1e-5")))
            out[i] = SBool(z3.And(t <= z3.RealVal("1e-8"), t >= -z3.RealVal("1e-8")))
        NPr.isclose_log.append(out)
        return out if out.ndim else out[()]

    isclose_log = []

    sqrt_args = []

    def sqrt(self, a):
        if isinstance(a, SReal):
            r = UF("SQRT", [a])
            Ctx.cur.assume(r.e >= 0)
            NPr.sqrt_args.append(a.e)      # domain obligation: a negative argument is a NaN scale
            return r
        if isinstance(a, np.ndarray) and a.dtype == object:
            out = np.empty(a.shape, dtype=object)
            for i in np.ndindex(a.shape):
                out[i] = self.sqrt(a[i])
            return out
        return np.sqrt(a)

    def sort(self, a, axis=-1):
        v = list(np.asarray(a, dtype=object).ravel())
        assert np.asarray(a).ndim == 1
        return np.array([UF(f"KTH{k}", v) for k in range(len(v))], dtype=object)

    def partition(self, a, kth):
        v = list(np.asarray(a, dtype=object).ravel())
        assert np.asarray(a).ndim == 1
        kth = int(kth)
        return np.array([UF(f"KTH{kth}", v) if k == kth else UF(f"PARTOTHER{kth}x{k}x", v) for k in range(len(v))], dtype=object)

    def cov(self, u, v):
        u, v = list(np.asarray(u, dtype=object).ravel()), list(np.asarray(v, dtype=object).ravel())
        out = np.empty((2, 2), dtype=object)
        out[0, 0], out[0, 1], out[1, 0], out[1, 1] = UF("COV", u + u), UF("COV", u + v), UF("COV", v + u), UF("COV", v + v)
        return out

    def nanmedian(self, a, axis=None, keepdims=False):
        return reduce_axis(a, axis, keepdims, lambda v: UF("MEDIAN", [x for x in v if not isnan(x)]) if any(not isnan(x) for x in v) else NAN)

    def nanmean(self, a, axis=None, keepdims=False):
        return reduce_axis(a, axis, keepdims, lambda v: UF("MEAN", [x for x in v if not isnan(x)]) if any(not isnan(x) for x in v) else NAN)

    def any(self, a):
        a = np.asarray(a, dtype=object)
        return SBool(z3.Or([x.e for x in a.ravel()]))

    def where(self, c, x, y):
        c = np.asarray(c, dtype=object)
        xb, yb = np.broadcast_to(np.asarray(x, dtype=object), c.shape), np.broadcast_to(np.asarray(y, dtype=object), c.shape)
        out = np.empty(c.shape, dtype=object)
        for i in np.ndindex(c.shape):
            if isnan(xb[i]) or isnan(yb[i]):
                # NaN masking (doublemad): which elements are masked is decided per path
                out[i] = xb[i] if bool(c[i]) else yb[i]
                continue
            xe, ye = wrap(xb[i]), wrap(yb[i])
            out[i] = SReal(z3.If(wrap(c[i]).e, xe.e if isinstance(xe, SReal) else z3.ToReal(xe.e), ye.e if isinstance(ye, SReal) else z3.ToReal(ye.e)))
        return out if out.ndim else out[()]

    def zeros(self, n, dtype=None):
        a = np.empty(n, dtype=object)
        a[...] = SReal(z3.RealVal(0))
        return a

    def ones(self, n, dtype=None):
        a = np.empty(n, dtype=object)
        a[...] = SReal(z3.RealVal(1))
        return a

    divisions = []
    numerators = []

    def subtract(self, a, b, dtype=None):
        return np.asarray(a, dtype=object) - np.asarray(b, dtype=object)

    def divide(self, a, b, out=None):
        b = np.asarray(b, dtype=object)
        NPr.divisions.append(b)
        NPr.numerators.append(np.array(np.asarray(a, dtype=object), copy=True))
        r = np.asarray(a, dtype=object) / b
        if out is not None:
            out[...] = r
            return out
        return r


def differs(a, b):
    a, b = np.asarray(a, dtype=object), np.asarray(b, dtype=object)
    if a.shape != b.shape:
        return z3.BoolVal(True)
    cs = []
    for x, y in zip(a.ravel(), b.ravel()):
        if isnan(x) or isnan(y):
            cs.append(z3.BoolVal(not (isnan(x) and isnan(y))))
        else:
            cs.append(wrap(x).e != wrap(y).e)
    return z3.Or(cs or [z3.BoolVal(False)])


def violation(P, name, params):
    src = ("import sys, json\nfrom symx.concrete import c15\n"
           f"sys.exit(c15.main(json.loads({json.dumps(json.dumps(params))})))\n")
    P.violation(name.replace(" ", "_").replace("[", "_").replace("]", "_").replace(",", "_").replace("=", "").replace("(", "").replace(")", "")[:100], name, src, model=params)


def check(P, ctx, name, cond, params, axioms=()):
    extra = [z3.And(list(axioms) + [cond])] if axioms else [cond]
    r = ctx.check(*extra)
    if r == z3.unsat:
        P.obligation(name, "holds", symbolic=True, **({"contract_instances": len(axioms)} if axioms else {}))
    else:
        if params.get("kind") in ("scale", "loc", "zscore", "apply"):
            m = ctx.solver.model()
            shp = tuple(params["shape"])
            try:
                xs = np.zeros(shp)
                for i in np.ndindex(shp):
                    v = m.eval(z3.Real("x_" + "_".join(map(str, i))), model_completion=True)
                    xs[i] = float(v.numerator_as_long()) / float(v.denominator_as_long()) if z3.is_rational_value(v) else float(v.approx(12).as_fraction())
                if np.all(np.abs(xs) < 1e6):
                    params = dict(params, x=xs.tolist())
            except Exception:  # noqa: BLE001
                pass
        if params.get("kind") in ("equiv", "zequiv"):
            m = ctx.solver.model()
            n = params["n"]
            def val(nm):
                v = m.eval(z3.Real(nm), model_completion=True)
                return float(v.numerator_as_long()) / float(v.denominator_as_long()) if z3.is_rational_value(v) else float(v.approx(12).as_fraction())
            params = dict(params, x=[val(f"x_{i}") for i in range(n)], b=val("b"))
        violation(P, name, params)


def work(P, item):
    from sigpyproc import utils
    from sigpyproc.core import stats
    kind = item[0]
    npr = NPr()
    aaa = rebind(utils.apply_along_axes, np=npr)
    sub = dict(np=npr, apply_along_axes=aaa)
    one_d = {m: rebind(getattr(stats, f"_scale_{m}_1d"), np=npr) for m in ("qn", "gapper", "diffcov")}
    scale_fns = {}
    for m in ("iqr", "mad", "sn"):
        scale_fns[f"_scale_{m}"] = rebind(getattr(stats, f"_scale_{m}"), **sub)
    for m in ("qn", "gapper", "diffcov"):
        # the 1-D estimators themselves (partition/sort/cov) are order statistics: uninterpreted over the lane
        scale_fns[f"_scale_{m}"] = rebind(getattr(stats, f"_scale_{m}"), **dict(sub, **{f"_scale_{m}_1d": (lambda lane, m=m: UF(m.upper(), list(lane)))}))
    est_scale = rebind(stats.estimate_scale, np=npr, **scale_fns, _scale_doublemad=None, _scale_biweight=None)
    est_loc = rebind(stats.estimate_loc, np=npr)
    # equivariance harness: the real 1-D estimators run too (sort/partition/cov/sqrt are the order statistics)
    one_d_real = {m: rebind(getattr(stats, f"_scale_{m}_1d"), np=npr) for m in ("qn", "gapper", "diffcov")}
    full = dict(scale_fns)
    for m in ("qn", "gapper", "diffcov"):
        full[f"_scale_{m}"] = rebind(getattr(stats, f"_scale_{m}"), **dict(sub, **{f"_scale_{m}_1d": one_d_real[m]}))
    full["_scale_doublemad"] = rebind(stats._scale_doublemad, **sub)
    est_scale_full = rebind(stats.estimate_scale, np=npr, **full, _scale_biweight=None)

    def equiv_setup(n, a):
        from fractions import Fraction
        af = Fraction(*a)
        A, b = SReal(z3.RealVal(f"{af.numerator}/{af.denominator}")), SReal(z3.Real("b"))
        x = obj((n,))
        y = np.array([A * v + b for v in x], dtype=object)
        del APPS[:]
        NPr.sqrt_args = []
        NPr.exclude_band = True
        return af, A, b, x, y

    def run(ctx):
        NPr.exclude_band = False
        if kind == "equiv":
            _, what, method, n, a = item
            af, A, b, x, y = equiv_setup(n, a)
            if what == "scale":
                f = lambda v, m=method: est_scale_full(v, m, None)
                sx, sy = f(x), f(y)
                want = np.asarray(sx, dtype=object) * SReal(z3.RealVal(f"{abs(af).numerator}/{abs(af).denominator}"))
            else:
                sx, sy = est_loc(x, method, None), est_loc(y, method, None)
                want = A * sx + b
            ax = contract_instances(list(APPS), sorted({af, abs(af)}), [b.e, z3.RealVal(0)])
            nm = f"equivariance[{what} {method}, n={n}, a={af}]: {what}(a*x+b) = " + ("|a|*scale(x)" if what == "scale" else "a*loc(x)+b")
            obl_ = [(nm, differs(sy, want), dict(kind="equiv", what=what, method=method, n=n, a=[af.numerator, af.denominator]), ax)]
            if NPr.sqrt_args:
                # finiteness: every square root is taken of a non-negative quantity (covariances may have either sign)
                obl_.append((f"finite[{what} {method}, n={n}]: no square root of a negative value", z3.Or([t < 0 for t in NPr.sqrt_args]),
                             dict(kind="finite", method=method, n=n), ()))
            return obl_
        if kind == "zequiv":
            _, lm, sm, n, a = item
            af, A, b, x, y = equiv_setup(n, a)
            NPr.divisions, NPr.numerators = [], []

            class ZR:
                def __init__(self, data, loc, scale):
                    self.data, self.loc, self.scale = data, loc, scale
            zf = rebind(stats.estimate_zscore, np=npr, estimate_loc=est_loc, estimate_scale=est_scale_full, ZScoreResult=ZR)
            NPr.isclose_log = []
            zx = zf(x, lm, sm, 0)
            zlog_x = len(NPr.isclose_log) - 1
            zy = zf(y, lm, sm, 0)
            ax = contract_instances(list(APPS), sorted({af, abs(af)}), [b.e, z3.RealVal(0)])
            params = dict(kind="zequiv", loc=lm, scale=sm, n=n, a=[af.numerator, af.denominator])
            nm = f"equivariance[zscore {lm}/{sm}, n={n}, a={af}]"
            if len(NPr.divisions) != 2:
                return [(nm + ": exactly one division per call", z3.BoolVal(True), params, ())]
            (nx, ny), (dx, dy) = NPr.numerators, NPr.divisions
            dxb, dyb = np.broadcast_to(dx, (n,)), np.broadcast_to(dy, (n,))
            absa = z3.RealVal(f"{abs(af).numerator}/{abs(af).denominator}")
            # the unit-scale fallback (a zero scale estimate) is the degenerate case the property itself carves out
            nofallback = z3.Not(z3.Or([wrap(v).e for v in np.asarray(NPr.isclose_log[zlog_x], dtype=object).ravel()]))
            div_bad = z3.Or([z3.And(wrap(dyb[i]).e != absa * wrap(dxb[i]).e, wrap(nx[i]).e != 0) for i in range(n)])
            return [(nm + ": numerator of a*x+b = a * numerator of x", differs(ny, nx * A), params, ax),
                    (nm + ": divisor of a*x+b = |a| * divisor of x wherever the numerator is not zero (non-degenerate scale)", z3.And(nofallback, div_bad), params, ax),
                    (nm + ": the z-scores returned are numerator/divisor", z3.Or(differs(zy.data, ny / dyb), differs(zx.data, nx / dxb)), params, ())]
        if kind == "apply":
            _, shape, axis = item
            x = obj(shape)
            got = aaa(lambda lane: UF("EST", list(lane)), x, axis)
            want = reduce_axis(x, axis, False, lambda v: UF("EST", v))
            return [(f"apply_along_axes[shape={shape},axis={axis}]: each lane in order", differs(got, want), dict(kind="apply", shape=list(shape), axis=axis), ())]
        if kind in ("scale", "loc"):
            _, method, shape, axis, keepdims = item
            x = obj(shape)
            f = est_scale if kind == "scale" else est_loc
            got = f(x, method, axis, keepdims=keepdims)
            want = reduce_axis(x, axis, keepdims, lambda v: f(np.array(v, dtype=object), method, None))
            nm = f"estimate_{kind}[{method},shape={shape},axis={axis},keepdims={keepdims}]: equals the 1-D estimator on each lane / on the flattened data"
            obl = [(nm, differs(got, want), dict(kind=kind, method=method, shape=list(shape), axis=axis, keepdims=keepdims), ())]
            if keepdims:
                try:
                    np.broadcast_shapes(np.asarray(got, dtype=object).shape, shape)
                    ok = True
                except ValueError:
                    ok = False
                obl.append((nm + " (result broadcasts against the input)", z3.BoolVal(not ok), dict(kind=kind, method=method, shape=list(shape), axis=axis, keepdims=True), ()))
            return obl
        _, lm, sm, shape, axis = item
        x = obj(shape)
        NPr.divisions = []

        class ZR:
            def __init__(self, data, loc, scale):
                self.data, self.loc, self.scale = data, loc, scale
        zs = rebind(stats.estimate_zscore, np=npr, estimate_loc=est_loc, estimate_scale=est_scale, ZScoreResult=ZR)(x, lm, sm, axis)
        nm = f"estimate_zscore[{lm},{sm},shape={shape},axis={axis}]"
        obl = []
        if len(NPr.divisions) != 1:
            obl.append((nm + ": exactly one division", z3.BoolVal(True), dict(kind="zscore", loc=lm, scale=sm, shape=list(shape), axis=axis), ()))
        else:
            d = NPr.divisions[0]
            obl.append((nm + ": the divisor is never zero", z3.Or([wrap(v).e == 0 for v in d.ravel()]), dict(kind="zscore", loc=lm, scale=sm, shape=list(shape), axis=axis), ()))
        obl.append((nm + ": z-scores have the input's shape", z3.BoolVal(np.asarray(zs.data, dtype=object).shape != shape), dict(kind="zscore", loc=lm, scale=sm, shape=list(shape), axis=axis), ()))
        return obl

    wit = [1]

    def on_path(ctx, obl):
        Ctx.cur = ctx
        P.reached += 1
        before = len(P.cands)
        for nm, c, params, ax in obl:
            check(P, ctx, nm, c, params, ax)
        if wit[0] > 0 and obl and len(P.cands) == before:
            wit[0] -= 1
            P.witness("c15", dict(obl[0][2]), ("witness-" + obl[0][0]).replace(" ", "_").replace("[", "_").replace("]", "_").replace(",", "_").replace("=", "").replace("(", "").replace(")", "").replace("*", "x").replace("|", "").replace("/", "-").replace(":", "")[:100], obl[0][0])
        Ctx.cur = None
    try:
        explore(run, bound=4, on_path=on_path, stats=P.stats, deadline_s=300)
    except (Inconclusive, Unsupported) as e:
        P.inconclusive_(f"{item}: {e}")


def batch(P, items):
    for it in items:
        work(P, it)


def run(R):
    from sigpyproc import utils
    from sigpyproc.core import stats
    R.encode(utils.apply_along_axes, stats.estimate_loc, stats.estimate_scale, stats.estimate_zscore, stats._scale_iqr, stats._scale_mad, stats._scale_sn,
             stats._scale_qn, stats._scale_gapper, stats._scale_diffcov)
    quick = R.tier == "quick"
    items = []
    for shape, axes in (((3, 2), (None, 0, 1, -1, (0, 1))), ((2, 3), (None, 0, 1)), ((2, 2, 2), (None, 0, 2, (0, 2), (1, 2)))):
        for ax in axes:
            items.append(("apply", shape, ax))
    shapes = [(4, 2), (2, 4)] if quick else [(8, 2), (2, 8), (4, 3)]
    for m in ("std", "iqr", "mad", "sn", "qn", "gapper", "diffcov"):
        for shape in shapes:
            for ax in (None, 0, 1):
                for kd in (False, True):
                    items.append(("scale", m, shape, ax, kd))
    for m in ("mean", "median"):
        for shape in shapes:
            for ax in (None, 0, 1):
                items.append(("loc", m, shape, ax, True))
    for lm in ("mean", "median", "norm"):
        for sm in ("std", "mad", "iqr", "sn", "norm"):
            for ax in (0, 1, None):
                items.append(("zscore", lm, sm, shapes[0], ax))
    avals = [(2, 1), (-3, 1)] if quick else [(2, 1), (-3, 1), (1, 100), (-100, 1), (-7, 5)]
    nq = 5 if quick else 8
    for a in avals:
        for m in ("mean", "median"):
            items.append(("equiv", "loc", m, nq, a))
        for m in ("std", "iqr", "mad", "sn", "qn", "gapper", "diffcov"):
            items.append(("equiv", "scale", m, nq, a))
        items.append(("equiv", "scale", "doublemad", 3 if quick else 4, a))
        for lm in ("mean", "median"):
            for sm in ("std", "mad", "iqr", "sn", "qn", "gapper", "diffcov"):
                # Sn's n inner medians make the z-score queries at lane length 8 run close to the per-query limit
                # (measured 50 s each): its z-score equivariance is decided at lane length <= 6, its scale at 8
                items.append(("zequiv", lm, sm, min(nq, 6) if sm == "sn" else nq, a))
        items.append(("zequiv", "median", "doublemad", 3 if quick else 4, a))
    R.bounds.update(dict(shapes=[list(s) for s in shapes], methods="scale: std, iqr, mad, sn, qn, gapper, diffcov; loc: mean, median; z-score: loc x scale incl. 'norm'",
                         axes="None, 0, 1 (and negative / tuple axes for apply_along_axes)"))
    R.bounds.update(dict(equivariance=dict(a=[f"{n}/{d}" for n, d in avals], lane_length=nq, lane_length_sn_zscore=min(nq, 6), lane_length_doublemad=3 if quick else 4, b="symbolic real", data="symbolic reals")))
    R.assume("np.median/percentile/mean/std/partition/sort/cov/sqrt are trusted: each is an uninterpreted function of the ordered lane it is applied to",
             "order-statistic contract (instantiated for every pair of applications, see contract_instances): median/mean(c*v+d) = c*median/mean(v)+d; "
             "std(c*v+d) = |c| std(v); percentile_q and the k-th order statistic commute with c*v+d for c>0 and map to percentile_(100-q) / the (n-1-k)-th for c<0; "
             "cov(c*u, c*v) = c^2 cov(u,v); sqrt(c^2 t) = |c| sqrt(t); min <= median, mean <= max",
             "np.isclose(s, 0) <=> |s| <= 1e-8", "exact arithmetic for the elementwise part",
             "equivariance: every scale estimate tested with np.isclose(.,0) is exactly 0 or at least 1e-5 in magnitude (for x and for a*x+b)",
             "z-score equivariance: the scale estimate of x is not degenerate (no unit-scale fallback); 'norm' (estimator switched off) is not equivariant by construction and not claimed")
    R.out_of_claim("biweight (astropy internals)", "finiteness under float32 overflow", "the multiplier a ranges over the listed rationals, not over all reals in [1e-2, 1e2]",
                   "lane lengths are those of the listed shapes")
    chunks = [items[i::14] for i in range(14)]
    parts = R.pmap(batch, chunks)
    R.vacuity_witness("c15", sum(p.reached for p in parts) > 0)
    a, b = z3.Real("a"), z3.Real("b")
    s = z3.Solver()
    s.add(UF("MEDIAN", [a, b]).e != UF("MEDIAN", [b, a]).e)
    R.stats.queries += 1
    R.vacuity_witness("c15-twin(lanes in another order are another term)", s.check() == z3.sat)
