"""C16 - RFI cleaning masks exactly the flagged channels and nothing else.

Decided:
  A. RFIMask.apply_mask / apply_method / apply_funcn (real bytecode, numpy's own broadcasting over object
     arrays of symbolic booleans/reals): the user mask is closed-interval membership of the channel centre
     frequency, the statistics mask is the union of the three per-statistic masks, the final mask is the
     union of all of them and of the previous mask, and every step only adds channels;
  B. Filterbank.clean_rfi orchestration (real bytecode with recorders): which masks are applied, in which
     order, and that the channel mask handed to apply_channel_mask is the RFIMask's final mask with the
     requested mask value and the same (gulp, start, nsamps);
  C. the per-block masking itself (masked channels = mask value, all other samples bit-identical, every
     block) is the apply_channel_mask harness of C07, re-run here.
  D. the outlier definitions: double_mad_mask = |doublemad z-score| > threshold on the statistic itself; iqrm_mask
     = for every lag in -radius..-1,1..radius the lagged differences x[i]-x[clip(i+lag)] (numpy's real pad /
     as_strided / fancy indexing on object arrays) z-scored with the IQR scale, flagged when any lag exceeds
     the threshold; non-positive thresholds rejected; apply_method dispatches by name.  The z-scores themselves
     are the estimate_zscore of C15 (fresh symbols here).
  E. the mask-file round trip over a trusted HDF5 store contract (FakeH5: what is stored is read back, name
     order): every array, the threshold and every Header field except stream_info come back.
NOT decided: h5py itself (FFI; the store contract stands in for it), Header.stream_info (describes the reader's
file set, not the observation; not stored), the default mask value."""
from __future__ import annotations

import json

import numpy as np
import z3

from ..core import Ctx, Inconclusive, SBool, SInt, SReal, Unsupported, explore, rebind, wrap
from . import c07


class LogicalOp:
    def __init__(self, f):
        self.f = f

    def __call__(self, a, b, out=None, **kw):
        a, b = np.asarray(a, dtype=object), np.asarray(b, dtype=object)
        res = np.empty(np.broadcast(a, b).shape, dtype=object)
        for i in np.ndindex(res.shape):
            x, y = np.broadcast_to(a, res.shape)[i], np.broadcast_to(b, res.shape)[i]
            res[i] = self.f(wrap(bool(x)) if isinstance(x, (bool, np.bool_)) else x, wrap(bool(y)) if isinstance(y, (bool, np.bool_)) else y)
        if out is not None:          # numpy semantics: a third positional argument is the output array
            out[...] = res
            return out
        return res

    def reduce(self, seq):
        seq = list(seq)
        r = seq[0]
        for s in seq[1:]:
            r = self(r, s)
        return r


class NPm:
    logical_and = LogicalOp(lambda x, y: x & y)
    logical_or = LogicalOp(lambda x, y: x | y)

    def __getattr__(self, n):
        return getattr(np, n)


def bvec(name, n):
    a = np.empty(n, dtype=object)
    for i in range(n):
        a[i] = SBool(z3.Bool(f"{name}{i}"))
    return a


def e(x):
    return x.e if isinstance(x, SBool) else z3.BoolVal(bool(x))


def mask_work(P, item):
    _, nchans, nranges = item
    from sigpyproc.core import rfi
    calls = []

    def run(ctx):
        calls.clear()
        freqs = np.array([SReal(z3.Real(f"f{c}")) for c in range(nchans)], dtype=object)
        prev = bvec("prev", nchans)
        mv, ms, mk = bvec("var", nchans), bvec("skew", nchans), bvec("kurt", nchans)
        cust = bvec("custom", nchans)
        # the specification refers to the masks as they were handed over (numpy calls may write into them)
        prev0, mv0, ms0, mk0, cust0 = prev.copy(), mv.copy(), ms.copy(), mk.copy(), cust.copy()

        class H:
            chan_freqs = freqs
        H.nchans = nchans

        class M:
            pass
        m = M()
        m.header, m.chan_mask, m.threshold = H(), prev, "thr"
        m.chan_var, m.chan_skew, m.chan_kurt = "VAR", "SKEW", "KURT"
        # attrs defaults of the real class: all-false masks
        m.user_mask, m.stats_mask, m.custom_mask = (np.zeros(nchans, dtype=bool) for _ in range(3))

        def method(arr, thr):
            calls.append((arr, thr))
            return {"VAR": mv, "SKEW": ms, "KURT": mk}[arr]
        ranges = [(SReal(z3.Real(f"lo{r}")), SReal(z3.Real(f"hi{r}"))) for r in range(nranges)]
        npm = NPm()
        steps = [np.array(prev)]
        rebind(rfi.RFIMask.apply_mask, np=npm)(m, ranges)
        steps.append(np.array(m.chan_mask))
        rebind(rfi.RFIMask.apply_method, np=npm, double_mad_mask=method, iqrm_mask=method)(m, "mad")
        steps.append(np.array(m.chan_mask))
        rebind(rfi.RFIMask.apply_funcn, np=npm)(m, lambda cm: cust)
        steps.append(np.array(m.chan_mask))
        return dict(m=m, freqs=freqs, ranges=ranges, prev=prev0, mv=mv0, ms=ms0, mk=mk0, cust=cust0, steps=steps, calls=list(calls))

    def on_path(ctx, o):
        Ctx.cur = ctx
        P.reached += 1
        m = o["m"]
        viol = []
        for c in range(nchans):
            member = z3.Or([z3.And(o["freqs"][c].e >= lo.e, o["freqs"][c].e <= hi.e) for lo, hi in o["ranges"]]) if o["ranges"] else z3.BoolVal(False)
            viol.append((f"user_mask[{c}] = centre frequency inside one of the closed ranges", e(m.user_mask[c]) != member))
            st = z3.Or(o["mv"][c].e, o["ms"][c].e, o["mk"][c].e)
            viol.append((f"stats_mask[{c}] = variance or skewness or kurtosis mask", e(m.stats_mask[c]) != st))
            viol.append((f"custom_mask[{c}] = what the custom function returned", e(m.custom_mask[c]) != o["cust"][c].e))
            viol.append((f"chan_mask[{c}] = previous or user or stats or custom", e(m.chan_mask[c]) != z3.Or(o["prev"][c].e, member, st, o["cust"][c].e)))
            for s in range(len(o["steps"]) - 1):
                viol.append((f"step {s}: channel {c} is never unmasked", z3.And(e(o["steps"][s][c]), z3.Not(e(o["steps"][s + 1][c])))))
        viol.append(("statistics masks computed from (var, skew, kurt) with the mask's threshold", z3.BoolVal(o["calls"] != [("VAR", "thr"), ("SKEW", "thr"), ("KURT", "thr")])))
        conds = [c for _, c in viol]
        if ctx.check(z3.Or(conds)) == z3.unsat:
            for n_, _ in viol:
                P.obligation(f"RFIMask[nchans={nchans},ranges={nranges}]/{n_}", "holds")
        else:
            for n_, c in viol:
                if ctx.check(c) == z3.unsat:
                    P.obligation(f"RFIMask[nchans={nchans},ranges={nranges}]/{n_}", "holds")
                    continue
                mod = ctx.solver.model()

                def fv(t):
                    v = mod.eval(t, model_completion=True)
                    from fractions import Fraction
                    return float(Fraction(v.numerator_as_long(), v.denominator_as_long()))
                bv = lambda t: bool(z3.is_true(mod.eval(t, model_completion=True)))
                params = dict(kind="mask", freqs=[fv(f.e) for f in o["freqs"]], ranges=[[fv(lo.e), fv(hi.e)] for lo, hi in o["ranges"]],
                              prev=[bv(x.e) for x in o["prev"]], var=[bv(x.e) for x in o["mv"]], skew=[bv(x.e) for x in o["ms"]],
                              kurt=[bv(x.e) for x in o["mk"]], custom=[bv(x.e) for x in o["cust"]])
                src = ("import sys, json\nfrom symx.concrete import c16\n"
                       f"sys.exit(c16.main(json.loads({json.dumps(json.dumps(params))})))\n")
                P.violation(f"rfimask-{nchans}-{nranges}-{n_[:30]}".replace(" ", "_").replace("[", "").replace("]", "").replace("=", ""), f"RFIMask: {n_}", src, model=params)
                break
        Ctx.cur = None
    explore(run, bound=3, on_path=on_path, stats=P.stats, deadline_s=300)


def orchestration_work(P, item):
    from sigpyproc import base
    log = []

    class RMask:
        def __init__(self, threshold, header, mean, var, skew, kurt, maxima, minima):
            log.append(("init", threshold, header, mean, var, skew, kurt, maxima, minima))
            self.chan_mask = "MASK@0"      # every apply_* produces a new mask object: a stale one is detectable

        def _bump(self):
            self.chan_mask = f"MASK@{int(self.chan_mask.split('@')[1]) + 1}"

        def apply_mask(self, fm):
            log.append(("apply_mask", fm))
            self._bump()

        def apply_method(self, m):
            log.append(("apply_method", m))
            self._bump()

        def apply_funcn(self, f):
            log.append(("apply_funcn", f))
            self._bump()

    class CS:
        mean, var, skew, kurtosis, maxima, minima = "MEAN", "VAR", "SKEW", "KURT", "MAX", "MIN"
    ok = True
    notes = []
    for method in ("mad", "iqrm", "bogus"):
        for fm in (None, [(1.0, 2.0)]):
            for cf in (None, len):
                for have_stats in (False, True):
                    log.clear()

                    class Self:
                        header = "HDR"

                        def __init__(self):
                            self._cs = CS() if have_stats else None

                        @property
                        def chan_stats(self):
                            return self._cs

                        def compute_stats(self, **kw):
                            log.append(("compute_stats", kw))
                            self._cs = CS()

                        def apply_channel_mask(self, mask, value, **kw):
                            log.append(("apply_channel_mask", mask, value, kw))
                            return "OUT"
                    fn = rebind(base.Filterbank.clean_rfi, RFIMask=RMask, ChannelStats=CS)
                    try:
                        r = fn(Self(), method=method, threshold=4, freq_mask=fm, custom_funcn=cf, mask_value=7, outfile_name="o", gulp=11, start=3, nsamps=20)
                    except ValueError:
                        ok = ok and method == "bogus" and not log
                        continue
                    exp = []
                    if not have_stats:
                        exp.append(("compute_stats", dict(gulp=11, start=3, nsamps=20)))
                    exp.append(("init", 4, "HDR", "MEAN", "VAR", "SKEW", "KURT", "MAX", "MIN"))
                    if fm is not None:
                        exp.append(("apply_mask", fm))
                    exp.append(("apply_method", method))
                    if cf is not None:
                        exp.append(("apply_funcn", cf))
                    nsteps = 1 + (fm is not None) + (cf is not None)
                    exp.append(("apply_channel_mask", f"MASK@{nsteps}", 7, dict(outfile_name="o", gulp=11, start=3, nsamps=20)))
                    good = method != "bogus" and log == exp and r[0] == "OUT" and isinstance(r[1], RMask)
                    if not good:
                        notes.append((method, fm, cf, have_stats, list(log)))
                    ok = ok and good
    P.stats.queries += 1
    P.reached += 1
    if ok:
        P.obligation("clean_rfi: statistics pass (if needed), user/statistics/custom masks in order, final mask + mask value + plan handed to apply_channel_mask", "holds", symbolic=False)
    else:
        params = dict(kind="orchestration")
        src = ("import sys, json\nfrom symx.concrete import c16\n"
               f"sys.exit(c16.main(json.loads({json.dumps(json.dumps(params))})))\n")
        P.violation("clean_rfi-orchestration", f"clean_rfi orchestration differs: {notes[:1]}", src, model=params)


# ---------------------------------------------------------------- D: the outlier definitions (mad / iqrm)
class ZArr(np.ndarray):
    """object array of symbolic reals whose comparisons stay symbolic (numpy would force them to bool)"""

    def __gt__(self, o):
        out = np.empty(self.shape, dtype=object)
        for i in np.ndindex(self.shape):
            out[i] = wrap(self[i]) > o
        return out


def zarr(vals):
    a = np.empty(len(vals), dtype=object)
    for i, v in enumerate(vals):
        a[i] = v
    return a.view(ZArr)


def outlier_work(P, item):
    """double_mad_mask: |z| > threshold on the doublemad z-scores of the statistic; iqrm_mask: for every lag in
    -radius..-1, 1..radius the lagged differences x[i] - x[clip(i+lag)] are z-scored with the IQR scale and a channel is
    flagged when any lag exceeds the threshold; non-positive thresholds are rejected; apply_method dispatches by name."""
    _, which, n, radius = item
    from sigpyproc.core import rfi
    calls = []

    class ZR:
        def __init__(self, data):
            self.data = data

    class StatsStub:
        @staticmethod
        def estimate_zscore(arr, loc_method="median", scale_method="mad", axis=0):
            k = len(calls)
            lane = list(np.asarray(arr, dtype=object).ravel())
            z = [SReal(z3.Real(f"z{k}_{i}")) for i in range(len(lane))]
            calls.append((lane, loc_method, scale_method, axis, z))
            return ZR(zarr(z))

    def run(ctx):
        calls.clear()
        x = zarr([SReal(z3.Real(f"x{i}")) for i in range(n)])
        thr = SReal(z3.Real("thr"))
        npm = NPm()
        try:
            if which == "mad":
                m = rebind(rfi.double_mad_mask, np=npm, stats=StatsStub)(x, thr)
            else:
                m = rebind(rfi.iqrm_mask, np=npm, stats=StatsStub)(x, thr, radius)
            return dict(mask=m, err=None, calls=list(calls), x=x, thr=thr)
        except ValueError:
            return dict(mask=None, err="ValueError", calls=list(calls), x=x, thr=thr)

    def on_path(ctx, o):
        Ctx.cur = ctx
        P.reached += 1
        label = f"{which}_mask[n={n}" + (f",radius={radius}]" if which == "iqrm" else "]")
        thr = o["thr"].e
        viol = []
        if o["err"]:
            viol.append(("a positive threshold is accepted", thr > 0))
        else:
            viol.append(("a non-positive threshold is rejected", thr <= 0))
            lags = [0] if which == "mad" else [l for l in range(-radius, radius + 1) if l != 0]
            if len(o["calls"]) != len(lags):
                viol.append((f"one z-score pass per lag ({len(lags)})", z3.BoolVal(True)))
            else:
                flagged = [[] for _ in range(n)]
                for lag, (lane, lm, sm, ax, z) in zip(lags, o["calls"]):
                    if which == "mad":
                        want = [o["x"][i] for i in range(n)]
                        okm = (lm, sm, ax) == ("median", "doublemad", 0)
                    else:
                        want = [o["x"][i] - o["x"][min(max(i + lag, 0), n - 1)] for i in range(n)]
                        okm = (lm, sm, ax) == ("median", "iqr", 0)
                    viol.append((f"lag {lag}: location/scale method", z3.BoolVal(not okm)))
                    if len(lane) != n:
                        viol.append((f"lag {lag}: lane length", z3.BoolVal(True)))
                        continue
                    viol.append((f"lag {lag}: the z-scored lane is x[i] - x[clip(i+lag)]" if which == "iqrm" else "the z-scored vector is the statistic itself",
                                 z3.Or([wrap(a).e != wrap(b).e for a, b in zip(lane, want)])))
                    for i in range(n):
                        flagged[i].append(z3.Or(z[i].e > thr, -z[i].e > thr))
                mk = np.asarray(o["mask"], dtype=object)
                if mk.shape != (n,):
                    viol.append(("mask has one entry per channel", z3.BoolVal(True)))
                else:
                    for i in range(n):
                        viol.append((f"mask[{i}] = some lag has |z| > threshold", e(mk[i]) != z3.Or(flagged[i])))
        for nm, c in viol:
            if ctx.check(c) == z3.unsat:
                P.obligation(f"{label}/{nm}", "holds")
                continue
            mod = ctx.solver.model()
            from fractions import Fraction

            def fv(t):
                v = mod.eval(t, model_completion=True)
                return float(Fraction(v.numerator_as_long(), v.denominator_as_long()))
            params = dict(kind="outlier", which=which, n=n, radius=radius, x=[fv(v.e) for v in o["x"]], thr=fv(thr),
                          z=[[fv(zz.e) for zz in c_[4]] for c_ in o["calls"]])
            src = ("import sys, json\nfrom symx.concrete import c16\n"
                   f"sys.exit(c16.main(json.loads({json.dumps(json.dumps(params))})))\n")
            P.violation(f"{which}_mask-{n}-{radius}-{nm[:40]}".replace(" ", "_").replace("[", "").replace("]", "").replace("=", "").replace("|", "").replace("/", "-").replace(":", ""), f"{label}: {nm}", src, model=params)
            break
        Ctx.cur = None
    try:
        explore(run, bound=3, on_path=on_path, stats=P.stats, deadline_s=300)
    except Inconclusive as ex:
        P.inconclusive_(f"{item}: {ex}")


def dispatch_work(P, item):
    """apply_method: 'mad' -> double_mad_mask, 'iqrm' -> iqrm_mask, anything else is rejected"""
    from sigpyproc.core import rfi
    ok = True
    for method, want in (("mad", "DM"), ("iqrm", "IQ"), ("bogus", None), ("", None)):
        seen = []

        class M:
            threshold, chan_var, chan_skew, chan_kurt = 3, "V", "S", "K"
            chan_mask = np.zeros(2, dtype=bool)
        fn = rebind(rfi.RFIMask.apply_method, double_mad_mask=lambda a, t: (seen.append("DM"), np.zeros(2, dtype=bool))[1],
                    iqrm_mask=lambda a, t: (seen.append("IQ"), np.zeros(2, dtype=bool))[1])
        try:
            fn(M(), method)
            ok = ok and want is not None and seen == [want] * 3
        except ValueError:
            ok = ok and want is None and not seen
    P.stats.queries += 1
    P.reached += 1
    if ok:
        P.obligation("apply_method: 'mad' uses double_mad_mask, 'iqrm' uses iqrm_mask, other names are rejected", "holds", symbolic=False)
    else:
        params = dict(kind="dispatch")
        src = ("import sys, json\nfrom symx.concrete import c16\n"
               f"sys.exit(c16.main(json.loads({json.dumps(json.dumps(params))})))\n")
        P.violation("apply_method-dispatch", "apply_method dispatches to the wrong outlier definition", src, model=params)


# ---------------------------------------------------------------- E: mask file round trip over an HDF5 store contract
class FakeH5:
    """h5py stand-in (trusted contract): attributes and datasets read back what was stored - python ints/floats/bools
    come back as numpy scalars, strings as str, arrays element for element; iteration is in name order."""
    stores = {}

    class _Attrs:
        def __init__(self, d):
            self.d = d

        def __setitem__(self, k, v):
            if isinstance(v, bool):
                v = np.bool_(v)
            elif isinstance(v, int):
                v = np.int64(v)
            elif isinstance(v, float):
                v = np.float64(v)
            self.d[k] = v

        def __getitem__(self, k):
            return self.d[k]

        def __contains__(self, k):
            return k in self.d

        def get(self, k, default=None):
            return self.d.get(k, default)

        def keys(self):
            return sorted(self.d)

        def items(self):
            return [(k, self.d[k]) for k in sorted(self.d)]

        def __iter__(self):
            return iter(sorted(self.d))

    class File:
        def __init__(self, filename, mode="r"):
            self.filename, self.mode = filename, mode
            if "w" in mode:
                FakeH5.stores[filename] = (dict(), dict())
            if filename not in FakeH5.stores:
                raise FileNotFoundError(filename)
            self._a, self._d = FakeH5.stores[filename]
            self.attrs = FakeH5._Attrs(self._a)

        def __enter__(self):
            return self

        def __exit__(self, *a):
            return False

        def create_dataset(self, key, data=None, **kw):
            if "w" not in self.mode and "a" not in self.mode:
                raise OSError("read-only")
            self._d[key] = np.array(data, copy=True)

        def items(self):
            return [(k, self._d[k]) for k in sorted(self._d)]

        def keys(self):
            return sorted(self._d)

        def __getitem__(self, k):
            return self._d[k]

        def __contains__(self, k):
            return k in self._d

        def __iter__(self):
            return iter(sorted(self._d))


def h5_work(P, item):
    _, nchans, typed = item
    import attrs
    from astropy.coordinates import Angle, SkyCoord
    from sigpyproc.core import rfi
    from sigpyproc.header import Header
    hdr = Header(filename="/data/obs_0001.fil", data_type="filterbank", nchans=nchans, foff=-0.390625, fch1=1510.0, nbits=8, tsamp=6.4e-5,
                 tstart=58000.25, nsamples=4096, nifs=1, coord=SkyCoord(83.63, 22.01, unit="deg"), azimuth=Angle("12.5d"), zenith=Angle("33.25d"),
                 telescope="Parkes", backend="BPSR", source="J0534+2200", frame="barycentric", ibeam=3, nbeams=13, dm=56.77, period=0.0334, accel=1.5,
                 signed=True, rawdatafile="raw_0001.dat")
    FLOATS = ("chan_mean", "chan_var", "chan_skew", "chan_kurt", "chan_maxima", "chan_minima")
    MASKS = ("chan_mask", "user_mask", "stats_mask", "custom_mask")

    def run(ctx):
        FakeH5.stores = {}
        if typed:
            # numpy-typed payload (float32 statistics, bool masks, float threshold): dtype-dependent code paths
            thr = 3.25
            arrs = {f: (np.arange(nchans, dtype=np.float32) * (k + 1) - 1.5) for k, f in enumerate(FLOATS)}
            arrs.update({f: (np.arange(nchans) % (k + 2) == 0) for k, f in enumerate(MASKS)})
        else:
            thr = SReal(z3.Real("thr"))
            arrs = {f: np.array([SReal(z3.Real(f"{f}{c}")) for c in range(nchans)], dtype=object) for f in FLOATS}
            arrs.update({f: bvec(f, nchans) for f in MASKS})
        m = rfi.RFIMask(thr, hdr, *(arrs[f] for f in FLOATS), **{f: arrs[f] for f in MASKS})
        orig = {f: a.copy() for f, a in arrs.items()}
        name1 = rebind(rfi.RFIMask.to_file, h5py=FakeH5)(m, "/out/m.h5")
        name2 = rebind(rfi.RFIMask.to_file, h5py=FakeH5)(m)
        back = rebind(rfi.RFIMask.from_file.__func__, h5py=FakeH5)(rfi.RFIMask, "/out/m.h5")
        return dict(thr=thr, orig=orig, back=back, names=(name1, name2), stored=sorted(FakeH5.stores))

    def on_path(ctx, o):
        Ctx.cur = ctx
        P.reached += 1
        back = o["back"]
        viol = []
        viol.append(("to_file returns the name it wrote (default <basename>_mask.h5)", z3.BoolVal(not (o["names"] == ("/out/m.h5", "obs_0001_mask.h5") and o["stored"] == ["/out/m.h5", "obs_0001_mask.h5"]))))
        viol.append(("threshold", wrap(back.threshold).e != wrap(o["thr"]).e))
        for f in FLOATS + MASKS:
            got = np.asarray(getattr(back, f), dtype=object)
            if got.shape != (nchans,):
                viol.append((f"{f} shape", z3.BoolVal(True)))
            else:
                viol.append((f, z3.Or([wrap(a).e != wrap(b).e for a, b in zip(got, o["orig"][f])] + [z3.BoolVal(typed and getattr(back, f).dtype != o["orig"][f].dtype)])))
        hdiff = []
        for fld in attrs.fields(Header):
            if fld.name == "stream_info":
                continue
            a, b = getattr(hdr, fld.name), getattr(back.header, fld.name)
            if isinstance(a, SkyCoord):
                same = isinstance(b, SkyCoord) and abs(a.ra.deg - b.ra.deg) < 1e-9 and abs(a.dec.deg - b.dec.deg) < 1e-9
            elif isinstance(a, Angle):
                same = isinstance(b, Angle) and abs(a.deg - b.deg) < 1e-9
            else:
                same = bool(a == b)
            if not same:
                hdiff.append(fld.name)
        viol.append(("header fields", z3.BoolVal(bool(hdiff))))
        for nm, c in viol:
            if ctx.check(c) == z3.unsat:
                P.obligation(f"mask-file round trip[nchans={nchans},{'numpy-typed' if typed else 'symbolic'} payload]/{nm}", "holds", symbolic=not typed)
                continue
            params = dict(kind="h5", nchans=nchans, what=nm, header_fields=hdiff)
            src = ("import sys, json\nfrom symx.concrete import c16\n"
                   f"sys.exit(c16.main(json.loads({json.dumps(json.dumps(params))})))\n")
            P.violation(f"maskfile-{nm}".replace(" ", "_").replace("(", "").replace(")", "").replace("<", "").replace(">", "").replace(".", ""), f"mask-file round trip: {nm} {hdiff}", src, model=params)
        Ctx.cur = None
    try:
        explore(run, bound=3, on_path=on_path, stats=P.stats, deadline_s=300)
    except Inconclusive as ex:
        P.inconclusive_(f"{item}: {ex}")


def work(P, item):
    if item[0] == "mask":
        return mask_work(P, item)
    if item[0] == "orch":
        return orchestration_work(P, item)
    if item[0] == "outlier":
        return outlier_work(P, item)
    if item[0] == "dispatch":
        return dispatch_work(P, item)
    if item[0] == "h5":
        return h5_work(P, item)
    return c07.work(P, item)


def run(R):
    from sigpyproc import base
    from sigpyproc.core import rfi
    quick = c07.common_setup(R)
    R.encode(rfi.RFIMask.apply_mask, rfi.RFIMask.apply_method, rfi.RFIMask.apply_funcn, base.Filterbank.clean_rfi, base.Filterbank.apply_channel_mask)
    R.bounds.update(dict(masks="3 channels (quick) / 4 (thorough); 0..2 frequency ranges; channel frequencies, range edges symbolic reals; previous, per-statistic and custom masks arbitrary symbolic booleans",
                         file="apply_channel_mask harness of C07 (unbounded N, gulp, start, nsamps, arbitrary mask and mask value, depths 2/8/32 bits)"))
    R.encode(rfi.double_mad_mask, rfi.iqrm_mask, rfi.RFIMask.to_file, rfi.RFIMask.from_file.__func__)
    R.bounds.update(dict(outliers="double_mad_mask: 3 (quick) / 5 channels; iqrm_mask: (channels, radius) in (3,1), (4,2), (2,3) and, thorough, (6,2), (7,5), (5,3); symbolic statistic values and threshold",
                         mask_file="2 (quick) / 4 channels; symbolic threshold, statistics and masks; one concrete fully populated Header"))
    R.assume("in the combination harness the per-statistic masks are arbitrary boolean vectors; in the outlier harness the z-scores returned by estimate_zscore are arbitrary reals (their definition is C15)",
             "the custom function returns some boolean vector",
             "HDF5 store contract (h5py is FFI): attributes and datasets read back what was stored, python scalars as numpy scalars, iteration in name order")
    R.out_of_claim("h5py itself (replaced by the store contract; the replay drivers use the real h5py)", "Header.stream_info is not stored in a mask file and not claimed",
                   "the default mask value (median of the unmasked channel means)")
    items = [("mask", 3 if quick else 4, r) for r in (0, 1, 2)] + [("orch",), ("dispatch",), ("h5", 2 if quick else 4, False), ("h5", 3 if quick else 5, True)]
    items += [("outlier", "mad", 3 if quick else 5, 0)]
    items += [("outlier", "iqrm", n, r) for n, r in (((3, 1), (4, 2), (2, 3)) if quick else ((3, 1), (4, 2), (2, 3), (6, 2), (7, 5), (5, 3)))]
    items += [it for it in c07.items_for(R.tier, "viol") if it[0] == "apply_channel_mask"]
    parts = R.pmap(work, items)
    R.vacuity_witness("c16", sum(p.reached for p in parts) > 0)
    s = z3.Solver()
    a, b = z3.Bool("a"), z3.Bool("b")
    s.add(z3.Or(a, b) != z3.And(a, b))
    R.stats.queries += 1
    R.vacuity_witness("c16-twin(union is not intersection)", s.check() == z3.sat)
