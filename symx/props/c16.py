"""C16 (partial) - RFI cleaning masks exactly the flagged channels and nothing else.

Decided:
  A. RFIMask.apply_mask / apply_method / apply_funcn (real bytecode, numpy's own broadcasting over object
     arrays of symbolic booleans/reals): the user mask is closed-interval membership of the channel centre
     frequency, the statistics mask is the union of the three per-statistic masks, the final mask is the
     union of all of them and of the previous mask, and every step only adds channels;
  B. Filterbank.clean_rfi orchestration (real bytecode with recorders): which masks are applied, in which
     order, and that the channel mask handed to apply_channel_mask is the RFIMask's final mask with the
     requested mask value and the same (gulp, start, nsamps);
  C. the per-block masking itself (masked channels = mask value, all other samples bit-identical, every
     block) is the apply_channel_mask harness of C07, re-run here.
NOT decided: the outlier definitions inside double_mad_mask / iqrm_mask (robust estimators, see C15) and
the HDF5 round trip of RFIMask.to_file/from_file (h5py is FFI)."""
from __future__ import annotations

import json

import numpy as np
import z3

from ..core import Ctx, Inconclusive, SBool, SInt, SReal, Unsupported, explore, rebind, wrap
from . import c07


class LogicalOp:
    def __init__(self, f):
        self.f = f

    def __call__(self, a, b, out=None, **kw):
        a, b = np.asarray(a, dtype=object), np.asarray(b, dtype=object)
        res = np.empty(np.broadcast(a, b).shape, dtype=object)
        for i in np.ndindex(res.shape):
            x, y = np.broadcast_to(a, res.shape)[i], np.broadcast_to(b, res.shape)[i]
            res[i] = self.f(wrap(bool(x)) if isinstance(x, (bool, np.bool_)) else x, wrap(bool(y)) if isinstance(y, (bool, np.bool_)) else y)
        if out is not None:          # numpy semantics: a third positional argument is the output array
            out[...] = res
            return out
        return res

    def reduce(self, seq):
        seq = list(seq)
        r = seq[0]
        for s in seq[1:]:
            r = self(r, s)
        return r


class NPm:
    logical_and = LogicalOp(lambda x, y: x & y)
    logical_or = LogicalOp(lambda x, y: x | y)

    def __getattr__(self, n):
        return getattr(np, n)


def bvec(name, n):
    a = np.empty(n, dtype=object)
    for i in range(n):
        a[i] = SBool(z3.Bool(f"{name}{i}"))
    return a


def e(x):
    return x.e if isinstance(x, SBool) else z3.BoolVal(bool(x))


def mask_work(P, item):
    _, nchans, nranges = item
    from sigpyproc.core import rfi
    calls = []

    def run(ctx):
        calls.clear()
        freqs = np.array([SReal(z3.Real(f"f{c}")) for c in range(nchans)], dtype=object)
        prev = bvec("prev", nchans)
        mv, ms, mk = bvec("var", nchans), bvec("skew", nchans), bvec("kurt", nchans)
        cust = bvec("custom", nchans)
        # the specification refers to the masks as they were handed over (numpy calls may write into them)
        prev0, mv0, ms0, mk0, cust0 = prev.copy(), mv.copy(), ms.copy(), mk.copy(), cust.copy()

        class H:
            chan_freqs = freqs
        H.nchans = nchans

        class M:
            pass
        m = M()
        m.header, m.chan_mask, m.threshold = H(), prev, "thr"
        m.chan_var, m.chan_skew, m.chan_kurt = "VAR", "SKEW", "KURT"
        m.user_mask = m.stats_mask = m.custom_mask = None

        def method(arr, thr):
            calls.append((arr, thr))
            return {"VAR": mv, "SKEW": ms, "KURT": mk}[arr]
        ranges = [(SReal(z3.Real(f"lo{r}")), SReal(z3.Real(f"hi{r}"))) for r in range(nranges)]
        npm = NPm()
        steps = [np.array(prev)]
        rebind(rfi.RFIMask.apply_mask, np=npm)(m, ranges)
        steps.append(np.array(m.chan_mask))
        rebind(rfi.RFIMask.apply_method, np=npm, double_mad_mask=method, iqrm_mask=method)(m, "mad")
        steps.append(np.array(m.chan_mask))
        rebind(rfi.RFIMask.apply_funcn, np=npm)(m, lambda cm: cust)
        steps.append(np.array(m.chan_mask))
        return dict(m=m, freqs=freqs, ranges=ranges, prev=prev0, mv=mv0, ms=ms0, mk=mk0, cust=cust0, steps=steps, calls=list(calls))

    def on_path(ctx, o):
        Ctx.cur = ctx
        P.reached += 1
        m = o["m"]
        viol = []
        for c in range(nchans):
            member = z3.Or([z3.And(o["freqs"][c].e >= lo.e, o["freqs"][c].e <= hi.e) for lo, hi in o["ranges"]]) if o["ranges"] else z3.BoolVal(False)
            viol.append((f"user_mask[{c}] = centre frequency inside one of the closed ranges", e(m.user_mask[c]) != member))
            st = z3.Or(o["mv"][c].e, o["ms"][c].e, o["mk"][c].e)
            viol.append((f"stats_mask[{c}] = variance or skewness or kurtosis mask", e(m.stats_mask[c]) != st))
            viol.append((f"custom_mask[{c}] = what the custom function returned", e(m.custom_mask[c]) != o["cust"][c].e))
            viol.append((f"chan_mask[{c}] = previous or user or stats or custom", e(m.chan_mask[c]) != z3.Or(o["prev"][c].e, member, st, o["cust"][c].e)))
            for s in range(len(o["steps"]) - 1):
                viol.append((f"step {s}: channel {c} is never unmasked", z3.And(e(o["steps"][s][c]), z3.Not(e(o["steps"][s + 1][c])))))
        viol.append(("statistics masks computed from (var, skew, kurt) with the mask's threshold", z3.BoolVal(o["calls"] != [("VAR", "thr"), ("SKEW", "thr"), ("KURT", "thr")])))
        conds = [c for _, c in viol]
        if ctx.check(z3.Or(conds)) == z3.unsat:
            for n_, _ in viol:
                P.obligation(f"RFIMask[nchans={nchans},ranges={nranges}]/{n_}", "holds")
        else:
            for n_, c in viol:
                if ctx.check(c) == z3.unsat:
                    P.obligation(f"RFIMask[nchans={nchans},ranges={nranges}]/{n_}", "holds")
                    continue
                mod = ctx.solver.model()

                def fv(t):
                    v = mod.eval(t, model_completion=True)
                    from fractions import Fraction
                    return float(Fraction(v.numerator_as_long(), v.denominator_as_long()))
                bv = lambda t: bool(z3.is_true(mod.eval(t, model_completion=True)))
                params = dict(kind="mask", freqs=[fv(f.e) for f in o["freqs"]], ranges=[[fv(lo.e), fv(hi.e)] for lo, hi in o["ranges"]],
                              prev=[bv(x.e) for x in o["prev"]], var=[bv(x.e) for x in o["mv"]], skew=[bv(x.e) for x in o["ms"]],
                              kurt=[bv(x.e) for x in o["mk"]], custom=[bv(x.e) for x in o["cust"]])
                src = ("import sys, json\nfrom symx.concrete import c16\n"
                       f"sys.exit(c16.main(json.loads({json.dumps(json.dumps(params))})))\n")
                P.violation(f"rfimask-{nchans}-{nranges}-{n_[:30]}".replace(" ", "_").replace("[", "").replace("]", "").replace("=", ""), f"RFIMask: {n_}", src, model=params)
                break
        Ctx.cur = None
    explore(run, bound=3, on_path=on_path, stats=P.stats, deadline_s=300)


def orchestration_work(P, item):
    from sigpyproc import base
    log = []

    class RMask:
        def __init__(self, threshold, header, mean, var, skew, kurt, maxima, minima):
            log.append(("init", threshold, header, mean, var, skew, kurt, maxima, minima))
            self.chan_mask = "MASK@0"      # every apply_* produces a new mask object: a stale one is detectable

        def _bump(self):
            self.chan_mask = f"MASK@{int(self.chan_mask.split('@')[1]) + 1}"

        def apply_mask(self, fm):
            log.append(("apply_mask", fm))
            self._bump()

        def apply_method(self, m):
            log.append(("apply_method", m))
            self._bump()

        def apply_funcn(self, f):
            log.append(("apply_funcn", f))
            self._bump()

    class CS:
        mean, var, skew, kurtosis, maxima, minima = "MEAN", "VAR", "SKEW", "KURT", "MAX", "MIN"
    ok = True
    notes = []
    for method in ("mad", "iqrm", "bogus"):
        for fm in (None, [(1.0, 2.0)]):
            for cf in (None, len):
                for have_stats in (False, True):
                    log.clear()

                    class Self:
                        header = "HDR"

                        def __init__(self):
                            self._cs = CS() if have_stats else None

                        @property
                        def chan_stats(self):
                            return self._cs

                        def compute_stats(self, **kw):
                            log.append(("compute_stats", kw))
                            self._cs = CS()

                        def apply_channel_mask(self, mask, value, **kw):
                            log.append(("apply_channel_mask", mask, value, kw))
                            return "OUT"
                    fn = rebind(base.Filterbank.clean_rfi, RFIMask=RMask, ChannelStats=CS)
                    try:
                        r = fn(Self(), method=method, threshold=4, freq_mask=fm, custom_funcn=cf, mask_value=7, outfile_name="o", gulp=11, start=3, nsamps=20)
                    except ValueError:
                        ok = ok and method == "bogus" and not log
                        continue
                    exp = []
                    if not have_stats:
                        exp.append(("compute_stats", dict(gulp=11, start=3, nsamps=20)))
                    exp.append(("init", 4, "HDR", "MEAN", "VAR", "SKEW", "KURT", "MAX", "MIN"))
                    if fm is not None:
                        exp.append(("apply_mask", fm))
                    exp.append(("apply_method", method))
                    if cf is not None:
                        exp.append(("apply_funcn", cf))
                    nsteps = 1 + (fm is not None) + (cf is not None)
                    exp.append(("apply_channel_mask", f"MASK@{nsteps}", 7, dict(outfile_name="o", gulp=11, start=3, nsamps=20)))
                    good = method != "bogus" and log == exp and r[0] == "OUT" and isinstance(r[1], RMask)
                    if not good:
                        notes.append((method, fm, cf, have_stats, list(log)))
                    ok = ok and good
    P.stats.queries += 1
    P.reached += 1
    if ok:
        P.obligation("clean_rfi: statistics pass (if needed), user/statistics/custom masks in order, final mask + mask value + plan handed to apply_channel_mask", "holds", symbolic=False)
    else:
        params = dict(kind="orchestration")
        src = ("import sys, json\nfrom symx.concrete import c16\n"
               f"sys.exit(c16.main(json.loads({json.dumps(json.dumps(params))})))\n")
        P.violation("clean_rfi-orchestration", f"clean_rfi orchestration differs: {notes[:1]}", src, model=params)


def work(P, item):
    if item[0] == "mask":
        return mask_work(P, item)
    if item[0] == "orch":
        return orchestration_work(P, item)
    return c07.work(P, item)


def run(R):
    from sigpyproc import base
    from sigpyproc.core import rfi
    quick = c07.common_setup(R)
    R.encode(rfi.RFIMask.apply_mask, rfi.RFIMask.apply_method, rfi.RFIMask.apply_funcn, base.Filterbank.clean_rfi, base.Filterbank.apply_channel_mask)
    R.bounds.update(dict(masks="3 channels (quick) / 4 (thorough); 0..2 frequency ranges; channel frequencies, range edges symbolic reals; previous, per-statistic and custom masks arbitrary symbolic booleans",
                         file="apply_channel_mask harness of C07 (unbounded N, gulp, start, nsamps, arbitrary mask and mask value, depths 2/8/32 bits)"))
    R.assume("double_mad_mask / iqrm_mask return some boolean vector per statistic (their outlier definitions are NOT decided here)",
             "the custom function returns some boolean vector")
    R.out_of_claim("NOT DECIDED: the outlier definitions of double_mad_mask/iqrm_mask (robust estimators, see C15); RFIMask.to_file/from_file (HDF5, h5py is FFI); "
                   "the default mask value (median of the unmasked channel means)")
    items = [("mask", 3 if quick else 4, r) for r in (0, 1, 2)] + [("orch",)]
    items += [it for it in c07.items_for(R.tier, "viol") if it[0] == "apply_channel_mask"]
    parts = R.pmap(work, items)
    R.vacuity_witness("c16", sum(p.reached for p in parts) > 0)
    s = z3.Solver()
    a, b = z3.Bool("a"), z3.Bool("b")
    s.add(z3.Or(a, b) != z3.And(a, b))
    R.stats.queries += 1
    R.vacuity_witness("c16-twin(union is not intersection)", s.check() == z3.sat)
