"""C17 - re-tuning a folded cube depends only on the target DM/period, not on the history.

E2/E3 on the real FoldedData.update_dm / update_period / _get_dmdelays / _get_pdelays bytecode with
the real compute_dmdelays in exact arithmetic (half-even rounding as ite), profiles modelled as
(identity, rotation) so that np.roll adds offsets.  DM targets are free reals; period targets come
from a small concrete alphabet (keeps the drift linear)."""
from __future__ import annotations

import itertools
import json
from fractions import Fraction

import numpy as np
import z3

from ..core import NumpyFallback, Ctx, Inconclusive, SBool, SInt, SReal, Unsupported, explore, rebind, rebind_class, term, wrap
from .c09 import NPdelay, OArr

P0 = 0.5            # folding period
PERIODS = [0.5, 0.501, 0.502, 0.4995]
FCH1, FOFF, NCH, TOBS = 1500.0, -1.0, 64, 100.0


class Prof:
    """one profile: only its rotation matters (np.roll adds offsets)"""

    def __init__(self, rot):
        self.rot = rot


class CubeData:
    def __init__(self, nints, nbands, nbins):
        self.shape = (nints, nbands, nbins)
        self.rows = [[Prof(z3.IntVal(0)) for _ in range(nbands)] for _ in range(nints)]

    def __getitem__(self, i):
        return self.rows[i]


def as_int_term(k):
    if isinstance(k, SInt):
        return k.e
    if isinstance(k, SReal):
        raise Unsupported("non-integer roll")
    return z3.IntVal(int(k))


class NPfold(metaclass=NumpyFallback):
    float64, float32, int32 = np.float64, np.float32, np.int32

    @staticmethod
    def any(a):
        # truthiness of symbolic entries forks through the path explorer
        return SBool(z3.Or([wrap(v).e != 0 for v in np.asarray(a, dtype=object).ravel()] or [z3.BoolVal(False)]))

    @staticmethod
    def all(a):
        return SBool(z3.And([wrap(v).e != 0 for v in np.asarray(a, dtype=object).ravel()] or [z3.BoolVal(True)]))

    @staticmethod
    def abs(a):
        return np.abs(a)

    @staticmethod
    def roll(p, k, axis=0):
        return Prof(z3.simplify(p.rot + as_int_term(k)))

    @staticmethod
    def arange(n, dtype=None):
        a = np.empty(n, dtype=object)
        for i in range(n):
            a[i] = SReal(z3.RealVal(i))
        return a.view(OArr)

    @staticmethod
    def round(x):
        out = np.empty(x.shape, dtype=object)
        for i in np.ndindex(x.shape):
            out[i] = wrap(x[i]).round_half_even() if isinstance(wrap(x[i]), SReal) else x[i]
        return out.view(OArr)

    @staticmethod
    def zeros(n, dtype=None):
        a = np.empty(n, dtype=object)
        for i in range(n):
            a[i] = SInt(z3.IntVal(0))
        return a.view(OArr)


class Hdr:
    foff, nchans, fch1, tobs = FOFF, NCH, FCH1, TOBS


def make_cube(RFD, nints, nbands, nbins, dm0):
    c = object.__new__(RFD)
    c._data = CubeData(nints, nbands, nbins)
    c._hdr = Hdr()
    c._period = P0
    c._dm = SReal(dm0)
    c._accel = 0
    # attributes the constructor sets (recreated here because __init__ validates a real ndarray)
    for k, v in RFD._init_extra(c, nints, nbands).items():
        setattr(c, k, v)
    return c


def build_class():
    from sigpyproc import foldedcube, params

    class ParamsExact:
        compute_dmdelays = staticmethod(rebind(params.compute_dmdelays, np=NPdelay))
    RFD = rebind_class(foldedcube.FoldedData, dict(np=NPfold, params=ParamsExact), name="RFoldedData")
    # discover which bookkeeping attributes the real __init__ creates (names may change with the code)
    import inspect
    src = inspect.getsource(foldedcube.FoldedData.__init__)

    def init_extra(c, nints, nbands):
        d = {}
        if "_tph_shifts" in src:
            d["_tph_shifts"] = NPfold.zeros(nints)
        if "_fph_shifts" in src:
            d["_fph_shifts"] = NPfold.zeros(nbands)
        for name in ("_dm_fold", "_fold_dm", "_dm0", "_ref_dm"):
            if name in src:
                d[name] = c._dm
        for name in ("_period_fold", "_fold_period", "_period0", "_ref_period"):
            if name in src:
                d[name] = c._period
        return d
    RFD._init_extra = staticmethod(init_extra)
    return RFD


MARGINS = []


def half_even(t):
    fl = z3.ToInt(t)
    fr = t - z3.ToReal(fl)
    return z3.If(fr < Fraction(1, 2), fl, z3.If(fr > Fraction(1, 2), fl + 1, z3.If(fl % 2 == 0, fl, fl + 1)))


def spec_rotation(isub, iband, dm_final, dm0, p_final, nints, nbands, nbins, dm_touched, p_touched):
    """independent specification: rotation of profile (isub, iband) of a cube folded at (dm0, P0) and
    re-tuned once to (dm_final, p_final)"""
    from sigpyproc import params
    rot = z3.IntVal(0)
    if dm_touched:
        chan_width = Fraction(FOFF) * NCH / nbands
        f = Fraction(FCH1) + iband * chan_width
        tsamp = Fraction(P0) / nbins
        K = Fraction(4.148808e3)      # the documented dispersion constant (property text), not whatever the library currently uses
        delay = z3.RealVal(K * (1 / (f * f) - 1 / (Fraction(FCH1) ** 2)) / tsamp) * (dm_final - dm0)
        rot = rot - half_even(delay)
        # the library evaluates constants such as fref**-2 in floating point: keep a margin around rounding boundaries
        fr = delay - z3.ToReal(z3.ToInt(delay))
        MARGINS.append(z3.Or(fr < Fraction(1, 2) - Fraction(1, 10**6), fr > Fraction(1, 2) + Fraction(1, 10**6)))
    if p_touched:
        dbins = (Fraction(p_final) / Fraction(P0) - 1) * Fraction(TOBS) * nbins / Fraction(P0)
        if dbins != 0:
            x = Fraction(isub) / (Fraction(nints) / dbins)
            fl = x.numerator // x.denominator
            fr = x - fl
            r = fl if fr < Fraction(1, 2) else (fl + 1 if fr > Fraction(1, 2) else (fl if fl % 2 == 0 else fl + 1))
            rot = rot - r
    return rot


def work(P, item):
    hist, shape = item
    nints, nbands, nbins = shape
    RFD = build_class()
    label = "history[" + ",".join(f"{k}:{'sym' if k == 'dm' else v}" for k, v in hist) + f"]@{nints}x{nbands}x{nbins}"

    def run(ctx):
        dm0 = z3.Real("dm_fold")
        ctx.assume(z3.And(dm0 >= 0, dm0 <= 1000))
        dms = []
        a = make_cube(RFD, nints, nbands, nbins, dm0)
        last_dm, last_p = None, None
        rounding = []
        for i, (kind, v) in enumerate(hist):
            if kind == "dm":
                t = dm0 if v == "fold" else (dms[v[1]] if isinstance(v, tuple) else z3.Real(f"dm{i}"))
                if not isinstance(v, tuple) and v != "fold":
                    ctx.assume(z3.And(t >= 0, t <= 1000))
                dms.append(t)
                a.update_dm(SReal(t))
                last_dm = t
            else:
                dms.append(None)
                a.update_period(v)
                last_p = v
        b = make_cube(RFD, nints, nbands, nbins, dm0)
        if last_dm is not None:
            b.update_dm(SReal(last_dm))
        if last_p is not None:
            b.update_period(last_p)
        return dict(a=a, b=b, dm0=dm0, dms=dms, last_dm=last_dm, last_p=last_p)

    def on_path(ctx, o):
        Ctx.cur = ctx
        P.reached += 1
        a, b = o["a"], o["b"]
        viol = []
        for i in range(nints):
            for j in range(nbands):
                ra, rb = a._data[i][j].rot, b._data[i][j].rot
                viol.append((f"profile({i},{j}): history == fresh cube re-tuned once", (ra - rb) % nbins != 0))
                MARGINS.clear()
                sp = spec_rotation(i, j, o["last_dm"], o["dm0"], o["last_p"], nints, nbands, nbins, o["last_dm"] is not None, o["last_p"] is not None)
                viol.append((f"profile({i},{j}): rotation == shift of the final DM/period relative to the folding values",
                             z3.And(*MARGINS, (ra - sp) % nbins != 0)))
        rd, rp = a._dm, a._period
        if o["last_dm"] is not None:
            viol.append(("reported dm == last target", term(rd) != o["last_dm"]))
        if o["last_p"] is not None:
            viol.append(("reported period == last target", z3.BoolVal(rp != o["last_p"])))
        if not hasattr(P, "_wit17"):
            P._wit17 = 0
        if P._wit17 < 6 and ctx.check(z3.Or([c for _, c in viol])) == z3.unsat and ctx.check() == z3.sat:
            P._wit17 += 1
            m0 = ctx.solver.model()

            def fv0(t):
                v = m0.eval(t, model_completion=True)
                return float(Fraction(v.numerator_as_long(), v.denominator_as_long()))
            wp = dict(shape=list(shape), dm_fold=fv0(o["dm0"]), history=[[k, (fv0(o["dms"][i]) if k == "dm" else v)] for i, (k, v) in enumerate(hist)])
            P.witness("c17", wp, f"c17-witness-{abs(hash(label)) % 100000}", label)
        for n_, c in viol:
            if ctx.check(c) == z3.unsat:
                P.obligation(f"{label}/{n_}", "holds")
                continue
            m = ctx.solver.model()

            def fv(t):
                v = m.eval(t, model_completion=True)
                return float(Fraction(v.numerator_as_long(), v.denominator_as_long()))
            params = dict(shape=list(shape), dm_fold=fv(o["dm0"]), history=[[k, (fv(o["dms"][i]) if k == "dm" else v)] for i, (k, v) in enumerate(hist)])
            src = ("import sys, json\nfrom symx.concrete import c17\n"
                   f"sys.exit(c17.main(json.loads({json.dumps(json.dumps(params))})))\n")
            P.violation(f"c17-{abs(hash(label)) % 100000}-{n_[:40]}".replace(" ", "_").replace("(", "_").replace(")", "_").replace(",", "_").replace(":", "_").replace("=", "_").replace("/", "_"),
                        f"{label}: {n_}", src, model=params)
            break
        Ctx.cur = None
        return "stop" if len(P.cands) >= 1 else None
    try:
        explore(run, bound=4, on_path=on_path, stats=P.stats, deadline_s=600)
    except Inconclusive:
        if not P.cands:
            raise


def histories(depth, quick):
    ops_dm = [("dm", "sym"), ("dm", "fold")]
    ops_p = [("p", p) for p in (PERIODS[:3] if quick else PERIODS)]
    out = []
    for d in range(1, depth + 1):
        for h in itertools.product(ops_dm + ops_p, repeat=d):
            out.append(list(h))
            # a repeated DM target (same symbol twice in a row)
            if d >= 2 and h[-1] == ("dm", "sym") and h[-2] == ("dm", "sym"):
                hh = list(h)
                hh[-1] = ("dm", ("same", d - 2))
                out.append(hh)
    return out


def run(R):
    from sigpyproc import foldedcube, params
    R.encode(foldedcube.FoldedData.update_dm, foldedcube.FoldedData.update_period, foldedcube.FoldedData._get_dmdelays,
             foldedcube.FoldedData._get_pdelays, params.compute_dmdelays)
    quick = R.tier == "quick"
    depth = 3 if quick else 4
    shape = (2, 2, 8) if quick else (2, 3, 8)
    hs = histories(depth, quick)
    if not quick:
        hs = [h for h in hs if len(h) < 4 or sum(1 for k, _ in h if k == "p") <= 2]
    R.bounds.update(dict(histories=f"all sequences of length <= {depth} over {{update_dm(free real), update_dm(folding DM), update_dm(previous target), update_period(p) for p in {PERIODS[:3] if quick else PERIODS}}}: {len(hs)} histories",
                         cube=f"{shape} (nints, nbands, nbins); folding DM and DM targets free reals in [0,1000]; folding period {P0}; band fch1={FCH1}, foff={FOFF}, nchans={NCH}; tobs={TOBS}"))
    R.assume("exact arithmetic for the delay/drift formulas with half-even rounding; the absolute-shift obligation excludes DM shifts within 1e-6 of a rounding boundary (the library evaluates fref**-2 in floating point)",
             "profiles are only rotated by np.roll (their values never enter): a profile is modelled as its rotation offset",
             "the bookkeeping attributes the real __init__ creates are re-created by the harness (names discovered from the source)")
    R.out_of_claim("period targets outside the alphabet", "histories longer than the bound", "cube contents (multiset preservation follows from rotation-only updates)")
    items = [(h, shape) for h in hs]
    # nearby non-folding periods on a cube with four sub-integrations: total drifts of 0.96 and 1.04 bins round to the same
    # shift in the last sub-integration but to different shifts in a middle one (increments [0,0,1,0])
    pa, pb = (P0 * (1 + d * P0 / (TOBS * 8)) for d in (0.96, 1.04))
    for h in ([("p", pa), ("p", pb)], [("p", pb), ("p", pa)], [("p", pa), ("p", pb), ("p", P0)], [("p", pa), ("dm", "sym"), ("p", pb)]):
        items.append((h, (4, 1, 8)))
    R.bounds["near_periods"] = f"histories over the two nearby periods {pa!r}, {pb!r} on a (4,1,8) cube"
    parts = R.pmap(work, items)
    R.vacuity_witness("c17", sum(p.reached for p in parts) > 0)
    # twin: a cube re-tuned to another DM must differ from the untouched cube for some DM
    RFD = build_class()
    tw = [0]

    def trun(ctx):
        a = make_cube(RFD, 1, 2, 8, z3.Real("dm_fold"))
        a.update_dm(SReal(z3.Real("dm1")))
        return a

    def ton(ctx, a):
        Ctx.cur = ctx
        if ctx.check(a._data[0][1].rot % 8 != 0) == z3.sat:
            tw[0] += 1
        Ctx.cur = None
    explore(trun, bound=4, on_path=ton, stats=R.stats)
    R.vacuity_witness("c17-twin(some DM update rotates a sub-band)", tw[0] > 0)
