"""C18 - PSRFITS reads are position independent and agree with the SIGPROC path.

A. E2 on the real PFITSReader.read_block / read_plan and PFITSFile.read_subints bytecode: NSBLK,
   the number of rows, start, nsamps, gulp, skipback are unbounded integers; read_subint_pol is
   replaced by its contract "row isub = samples [isub*NSBLK, (isub+1)*NSBLK), 0 <= isub < nrows";
B. E3 on the real PFITSFile.read_subint / read_subint_pol value pipeline (zero offset, scale, offset,
   weight, polarisation selection) over object arrays of symbolic reals at small shapes."""
from __future__ import annotations

import json
import os

import numpy as np
import z3

from ..core import NumpyFallback, Ctx, Inconclusive, SBool, SInt, SReal, Unsupported, explore, rebind, s_int, s_min, term, wrap

import os
TESTFILE = os.path.join(os.environ.get("SYMX_REPO", "/repo"), "tests/data/parkes_4bit.sf")


class Rows:
    """samples [lo, hi) of the file (2-D: time x channel, possibly transposed / channel-flipped / channel-sliced)"""

    def __init__(self, lo, hi, flipped=False, consecutive=True, transposed=False, chans=None):
        self.lo, self.hi, self.flipped, self.consecutive, self.transposed, self.chans = lo, hi, flipped, consecutive, transposed, chans

    def _clone(self, **kw):
        d = dict(lo=self.lo, hi=self.hi, flipped=self.flipped, consecutive=self.consecutive, transposed=self.transposed, chans=self.chans)
        d.update(kw)
        return Rows(**d)

    def __getitem__(self, sl):
        if not isinstance(sl, slice) or sl.step not in (None, 1):
            raise Unsupported("Rows index")
        if self.transposed:        # first axis = channels
            a = z3.IntVal(0) if sl.start is None else term(sl.start)
            b = z3.IntVal(4) if sl.stop is None else term(sl.stop)
            return self._clone(chans=(a, b))
        n = self.hi - self.lo
        a = z3.IntVal(0) if sl.start is None else term(sl.start)
        b = n if sl.stop is None else term(sl.stop)
        clip = lambda v: z3.If(v < 0, z3.If(v + n < 0, 0, v + n), z3.If(v > n, n, v))
        a2, b2 = clip(a), clip(b)
        b2 = z3.If(b2 < a2, a2, b2)
        return self._clone(lo=z3.simplify(self.lo + a2), hi=z3.simplify(self.lo + b2))

    def reshape(self, n, c):
        if SBool((self.hi - self.lo) != term(n)):
            raise ValueError("cannot reshape array (symbolic)")
        return self

    def transpose(self):
        return self._clone(transposed=not self.transposed)

    def ravel(self):
        return self


class Row(Rows):
    """one table row: the samples [i*NSBLK, (i+1)*NSBLK) as returned by read_subint_pol (channel order of the file)"""

    def __init__(self, i, nsblk=None):
        self.i = i
        if nsblk is not None:
            Rows.__init__(self, z3.simplify(i * nsblk), z3.simplify((i + 1) * nsblk), False, True)


def make_np(nsblk):
    class NPs(metaclass=NumpyFallback):
        @staticmethod
        def concatenate(lst):
            if not lst:
                raise ValueError("need at least one array to concatenate")
            cons = all(z3.is_true(z3.simplify(lst[k + 1].i == lst[k].i + 1)) for k in range(len(lst) - 1))
            return Rows(z3.simplify(lst[0].i * nsblk), z3.simplify((lst[-1].i + 1) * nsblk), False, cons)

        @staticmethod
        def fliplr(x):
            return x._clone(flipped=not x.flipped)
    return NPs


class Blk:
    def __init__(self, data, hdr):
        self.data, self.hdr = data, hdr


def build(ctx, foff):
    from sigpyproc import readers
    from sigpyproc.io import pfits
    nsblk, nrows = z3.Int("NSBLK"), z3.Int("nrows")
    ctx.assume(z3.And(nsblk >= 1, nrows >= 1))
    NPs = make_np(nsblk)

    class SubHdr:
        subint_samples = SInt(nsblk)
        nchans = 4

        class freqs:
            pass
    SubHdr.freqs.foff = foff

    class Fits:
        sub_hdr = SubHdr
        reads = []

        def read_subint_pol(self, isub, **k):
            i = term(isub)
            if not SBool(z3.And(i >= 0, i < nrows)):
                raise IndexError("row index out of bounds (symbolic)")
            Fits.reads.append(i)
            return Row(i, nsblk)
        read_subints = rebind(pfits.PFITSFile.read_subints, np=NPs)

    class Hdr:
        nchans, fch1, foff_ = 4, 1400.0, -1.0
        foff = -1.0
        nsamples = SInt(nsblk * nrows)

        def mjd_after_nsamps(self, n):
            return ("mjd_after_nsamps", n)

        def new_header(self, u):
            return ("hdr", u)

    class Self:
        pass
    s = Self()
    s.sub_hdr, s._fitsfile, s.header = SubHdr, Fits(), Hdr()
    Fits.reads = []
    from ..stack import passthrough_track
    rb = rebind(readers.PFITSReader.read_block, FilterbankBlock=Blk, int=s_int, round=lambda x: x)
    rp = rebind(readers.PFITSReader.read_plan, track=passthrough_track, min=s_min)
    return s, rb, rp, nsblk, nrows


def block_harness(foff):
    def run(ctx):
        s, rb, rp, nsblk, nrows = build(ctx, foff)
        start, nsamps = z3.Int("start"), z3.Int("nsamps")
        ctx.assume(nsamps >= 1)
        inr = z3.And(start >= 0, start + nsamps <= nsblk * nrows)
        out = dict(vars=dict(NSBLK=nsblk, nrows=nrows, start=start, nsamps=nsamps), viol=[], kind="read_block")
        try:
            blk = rb(s, SInt(start), SInt(nsamps))
        except ValueError:
            out["outcome"] = "ValueError"
            out["viol"].append(("rejected although in range", inr))
            return out
        except IndexError:
            out["outcome"] = "IndexError"
            out["viol"].append(("requested a row that does not exist", z3.BoolVal(True)))
            return out
        out["outcome"] = "ok"
        d = blk.data
        out["viol"].append(("accepted although out of range", z3.Not(inr)))
        out["viol"].append(("slice = [start, start+nsamps)", z3.Or(d.lo != start, d.hi != start + nsamps)))
        out["viol"].append(("rows concatenated in order", z3.BoolVal(not d.consecutive)))
        out["viol"].append(("all channels of the default request, channel-major", z3.BoolVal(not d.transposed) if d.chans is None else z3.Or(z3.BoolVal(not d.transposed), d.chans[0] != 0, d.chans[1] != 4)))
        out["viol"].append(("channels descending after the flip", z3.BoolVal(d.flipped != (foff > 0))))
        u = blk.hdr[1]
        out["viol"].append(("header nsamples = nsamps", term(u.get("nsamples")) != nsamps))
        t = u.get("tstart")
        out["viol"].append(("tstart advanced by start*tsamp", z3.BoolVal(not (isinstance(t, tuple) and t[0] == "mjd_after_nsamps")) if not isinstance(t, tuple) else term(t[1]) != start))
        return out
    return run


def plan_harness(foff, none):
    def run(ctx):
        s, rb, rp, nsblk, nrows = build(ctx, foff)
        gulp, start, skip = z3.Int("gulp"), z3.Int("start"), z3.Int("skipback")
        N = nsblk * nrows
        ctx.assume(z3.And(gulp >= 1, start >= 0, skip >= 0))
        if none:
            ctx.assume(start < N)
            nsamps, arg = N - start, None
        else:
            nsamps = z3.Int("nsamps")
            ctx.assume(z3.And(nsamps >= 1, start + nsamps <= N))
            arg = SInt(nsamps)
        out = dict(vars=dict(NSBLK=nsblk, nrows=nrows, start=start, nsamps=None if none else nsamps, gulp=gulp, skipback=skip), viol=[], kind="read_plan", blocks=[])
        geff = z3.If(nsamps < gulp, nsamps, gulp)
        pos, end, k = start, None, 0
        try:
            for ns, ii, data in rp(s, gulp=SInt(gulp), start=SInt(start), nsamps=arg, skipback=SInt(skip), quiet=True, description="x"):
                nse = term(ns)
                out["viol"].append((f"blk{k}: index", term(ii) != k))
                out["viol"].append((f"blk{k}: array holds exactly the reported samples", (data.hi - data.lo) != nse))
                out["viol"].append((f"blk{k}: is the slice at start + sum(len - skipback)", data.lo != pos))
                out["viol"].append((f"blk{k}: 1 <= len <= gulp", z3.Or(nse < 1, nse > gulp)))
                out["viol"].append((f"blk{k}: inside the request", z3.Or(pos < start, pos + nse > start + nsamps)))
                out["viol"].append((f"blk{k}: rows in order / flip", z3.BoolVal((not data.consecutive) or data.flipped != (foff > 0))))
                if k > 0:
                    out["viol"].append((f"blk{k}: len >= skipback", nse < skip))
                out["blocks"].append(nse)
                end = pos + nse
                pos = end - skip
                k += 1
        except ValueError:
            out["outcome"] = "ValueError"
            if out["blocks"]:
                out["viol"].append(("raised after yielding", z3.BoolVal(True)))
            out["viol"].append(("rejected although 2*skipback <= gulp", 2 * skip <= geff))
            return out
        except IndexError:
            out["outcome"] = "IndexError"
            out["viol"].append(("requested a row that does not exist", z3.BoolVal(True)))
            return out
        out["outcome"] = "ok"
        out["viol"].append(("accepted although skipback >= gulp", skip >= geff))
        out["viol"].append(("last block ends at the request end", z3.BoolVal(True) if end is None else end != start + nsamps))
        return out
    return run


def real_file_params():
    """(NSBLK, nrows) of the PSRFITS file shipped with the repository's tests (for replays)"""
    try:
        from sigpyproc.readers import PFITSReader
        f = PFITSReader(TESTFILE)
        nsblk = int(f.sub_hdr.subint_samples)
        return nsblk, int(f.header.nsamples) // nsblk
    except Exception:  # noqa: BLE001
        return None


def labels_work(P, item):
    """Header.from_pfits (real bytecode over stand-in FITS headers with symbolic channel frequencies): the labels describe
    the data *as delivered* - read_subints returns the channels in descending order whatever the file's order, so the
    first label is the highest frequency and the spacing is negative"""
    from ..core import rebind, wrap
    from sigpyproc import header
    import attrs
    nch = 4

    def run(ctx):
        f0, df = z3.Real("f_first"), z3.Real("f_step")
        ctx.assume(z3.And(df != 0, f0 > 0, f0 + (nch - 1) * df > 0))
        arr = [SReal(f0 + k * df) for k in range(nch)]

        class Freqs:
            array = arr
            fch1 = arr[0]
            foff = arr[1] - arr[0]

        class Sub:
            def __init__(self, fn):
                pass
            nchans, nbits, tsamp, nsamples, freqs = nch, 8, 0.001, 4096, Freqs

        class Back:
            name = "BK"

        class Prim:
            def __init__(self, fn):
                pass
            tstart = type("T", (), {"mjd": 58000.0})
            coord, telescope, backend, source = "COORD", "Parkes", Back, "SRC"

        class PF:
            PrimaryHdr, SubintHdr = Prim, Sub

        class AttrsStub:
            @staticmethod
            def fields_dict(cls):
                return attrs.fields_dict(header.Header)
        got = rebind(header.Header.__dict__["from_pfits"].__func__, pfits=PF, attrs=AttrsStub)(lambda **kw: kw, "x.sf")
        return got, f0, df

    def on_path(ctx, o):
        Ctx.cur = ctx
        P.reached += 1
        got, f0, df = o
        hi = z3.If(df > 0, f0 + (nch - 1) * df, f0)
        viol = [("fch1 labels the first delivered channel (the highest frequency)", wrap(got["fch1"]).e != hi),
                ("foff is the spacing of the delivered channels (negative)", wrap(got["foff"]).e != z3.If(df > 0, -df, df)),
                ("nchans / nbits / tsamp / nsamples / source pass through", z3.BoolVal((got.get("nchans"), got.get("nbits"), got.get("tsamp"), got.get("nsamples"), got.get("source"), got.get("telescope"), got.get("backend")) != (nch, 8, 0.001, 4096, "SRC", "Parkes", "BK")))]
        for n_, c in viol:
            if ctx.check(c) == z3.unsat:
                P.obligation(f"Header.from_pfits/{n_}", "holds", symbolic=True)
            else:
                m = ctx.solver.model()
                asc = z3.is_true(m.eval(df > 0, model_completion=True))
                params = dict(kind="labels", ascending=bool(asc))
                src = ("import sys, json\nfrom symx.concrete import c18\n"
                       f"sys.exit(c18.main(json.loads({json.dumps(json.dumps(params))})))\n")
                P.violation(f"from_pfits-{n_[:30]}".replace(" ", "_").replace("(", "").replace(")", "").replace("/", "-"), f"Header.from_pfits: {n_}", src, model=params)
                break
        Ctx.cur = None
    try:
        explore(run, bound=2, on_path=on_path, stats=P.stats, deadline_s=120)
    except Inconclusive as e:
        P.inconclusive_(f"from_pfits labels: {e}")


def work(P, item):
    kind, foff, none, bound = item
    if kind == "labels":
        return labels_work(P, item)
    if kind == "values":
        return values_work(P, item)
    h = block_harness(foff) if kind == "block" else plan_harness(foff, none)
    label = f"PFITSReader.{'read_block' if kind == 'block' else 'read_plan'}[foff={foff:+g}{',nsamps=None' if none else ''}]"
    rf = real_file_params()

    wit = [3]

    def on_path(ctx, o):
        Ctx.cur = ctx
        P.reached += 1
        if wit[0] > 0 and rf is not None and foff < 0 and o["viol"] and ctx.check(z3.Or([c for _, c in o["viol"]])) == z3.unsat:
            v = o["vars"]
            if ctx.check(v["NSBLK"] == rf[0], v["nrows"] == rf[1]) == z3.sat:
                wit[0] -= 1
                m = ctx.solver.model()
                wp = dict(kind=o["kind"])
                for k_, t in v.items():
                    wp[k_] = None if t is None else m.eval(t, model_completion=True).as_long()
                P.witness("c18", wp, f"{o['kind']}-witness-{wit[0]}", label)
        for n_, c in o["viol"]:
            if ctx.check(c) == z3.unsat:
                P.obligation(f"{label}/{n_}", "holds", outcome=o["outcome"])
                continue
            v = o["vars"]
            extra = [c]
            if rf is not None:
                # replay at the shape of the shipped file (for foff > 0: a copy whose DAT_FREQ columns are reversed)
                extra += [v["NSBLK"] == rf[0], v["nrows"] == rf[1]]
            if ctx.check(*extra) != z3.sat:
                m = ctx.solver.model() if ctx.check(c) == z3.sat else None
                P.inconclusive_(f"{label}/{n_}: violated for {m}, but not at the shape of the only PSRFITS file available for replay")
                break
            m = ctx.solver.model()
            params = dict(kind=o["kind"], ascending=bool(foff > 0))
            for k_, t in v.items():
                params[k_] = None if t is None else m.eval(t, model_completion=True).as_long()
            src = ("import sys, json\nfrom symx.concrete import c18\n"
                   f"sys.exit(c18.main(json.loads({json.dumps(json.dumps(params))})))\n")
            P.violation(f"{o['kind']}-{n_[:40]}".replace(" ", "_").replace(":", "-").replace("/", "-").replace("[", "_").replace("]", "_").replace(",", "_"), f"{label}: {n_}", src, model=params)
            break
        Ctx.cur = None
        return "stop" if len(P.cands) >= 2 else None
    try:
        explore(h, bound=bound, on_path=on_path, stats=P.stats, deadline_s=600)
    except Inconclusive:
        if not P.cands:
            raise


# ---------------------------------------------------------------- B: value pipeline
class OArr(np.ndarray):
    def astype(self, dt, *a, **k):
        return self


def values_work(P, item):
    from sigpyproc.io import pfits
    nsblk, npol, nchan = 2, item[1], 3
    state = item[2]
    raw = np.empty((nsblk, npol, nchan), dtype=object)
    for i in np.ndindex(raw.shape):
        raw[i] = SReal(z3.Real("raw_" + "_".join(map(str, i))))
    scl = np.array([[SReal(z3.Real(f"scl_{p}_{c}")) for c in range(nchan)] for p in range(npol)], dtype=object)
    off = np.array([[SReal(z3.Real(f"off_{p}_{c}")) for c in range(nchan)] for p in range(npol)], dtype=object)
    wts = np.array([SReal(z3.Real(f"wts_{c}")) for c in range(nchan)], dtype=object)
    zero = SReal(z3.Real("zero_off"))

    class BI:
        unpack, nbits, bitfact = False, 8, 1

    class SH:
        subint_shape = (nsblk, npol, nchan)
        zero_off = zero
        subint_samples, nchans, poln_state = nsblk, nchan, state
        npol_ = npol

    class NPo(metaclass=NumpyFallback):
        float32 = np.float32

        @staticmethod
        def array(x):
            return np.array(x, dtype=object).view(OArr)

        @staticmethod
        def zeros(shape, dtype=None):
            a = np.empty(shape, dtype=object)
            for i in np.ndindex(a.shape):
                a[i] = SReal(z3.RealVal(0))
            return a

        @staticmethod
        def sqrt(x):
            return np.sqrt(x)

    class F:
        bitsinfo = BI
        sub_hdr = SH
        _fits = {"SUBINT": type("T", (), {"data": {0: {"DATA": raw.view(OArr)}}})}

        def read_scales(self, i):
            return scl

        def read_offsets(self, i):
            return off

        def read_weights(self, i):
            return wts
        read_subint = rebind(pfits.PFITSFile.read_subint, np=NPo)
        read_subint_pol = rebind(pfits.PFITSFile.read_subint_pol, np=NPo)
    f = F()
    label = f"PFITSFile.read_subint_pol[{state},npol={npol}]"
    for scloffs, weights in ((True, True), (True, False), (False, True)):
        out = f.read_subint_pol(0, poln_select=1, scloffs=scloffs, weights=weights)
        s = z3.Solver()
        s.set("timeout", 60000)
        bad = []
        for t in range(nsblk):
            for c in range(nchan):
                def val(p):
                    v = raw[t, p, c].e
                    if scloffs:
                        v = (v - zero.e) * scl[p, c].e + off[p, c].e
                    if weights:
                        v = v * wts[c].e
                    return v
                if state == "Coherence":
                    r = z3.Real("isqrt2")
                    s.add(r > 0, r * r * 2 == 1)
                    want = (val(0) + val(1)) * r
                else:
                    want = val(0)
                got = out[t, c]
                ge = got.e if isinstance(got, SReal) else wrap(got).e
                if state == "Coherence":
                    # the library multiplies by the float 1/sqrt(2); compare up to that constant
                    from fractions import Fraction
                    cst = z3.RealVal(Fraction(1.0 / np.sqrt(2.0)))
                    want = (val(0) + val(1)) * cst
                bad.append(ge != want)
        P.stats.queries += 1
        r = s.check(z3.Or(bad))
        nm = f"{label}/scloffs={scloffs},weights={weights}: value = ((raw-zero)*scale+offset)*weight of polarisation sum"
        if r == z3.unsat:
            P.obligation(nm, "holds", symbolic=True)
        elif r == z3.unknown:
            P.inconclusive_(nm + ": solver unknown")
        else:
            # replay at the level of read_subint on a copy of the shipped file with rewritten weight/scale/offset columns
            m = s.model()
            from fractions import Fraction

            def fv(t):
                v = m.eval(t, model_completion=True)
                return float(Fraction(v.numerator_as_long(), v.denominator_as_long()))
            params = dict(kind="values", state=state, npol=npol, wts=[fv(x.e) for x in wts], scl=[fv(x.e) for x in scl.ravel()], off=[fv(x.e) for x in off.ravel()])
            params = {k_: ([min(max(v, -1e3), 1e3) for v in val] if isinstance(val, list) else val) for k_, val in params.items()}
            src = ("import sys, json\nfrom symx.concrete import c18\n"
                   f"sys.exit(c18.main(json.loads({json.dumps(json.dumps(params))})))\n")
            P.violation(f"values-{state}-{npol}-{int(scloffs)}{int(weights)}", nm, src, model=params)
    P.reached += 1


def run(R):
    from sigpyproc import readers
    from sigpyproc.io import pfits
    R.encode(readers.PFITSReader.read_block, readers.PFITSReader.read_plan, pfits.PFITSFile.read_subints, pfits.PFITSFile.read_subint, pfits.PFITSFile.read_subint_pol)
    quick = R.tier == "quick"
    nb = 3 if quick else 4
    R.bounds.update(dict(index="NSBLK, nrows, start, nsamps, gulp, skipback unbounded integers; <= %d rows per call and <= %d blocks per plan (more: cut and counted)" % (nb, nb),
                         values="sub-integration of 2 samples x {1,2} polarisations x 3 channels, symbolic raw values / scales / offsets / weights / zero offset; 8-bit (sub-byte unpacking is C03)"))
    R.assume("read_subint_pol(isub) returns row isub = samples [isub*NSBLK,(isub+1)*NSBLK) and raises IndexError outside [0,nrows) (astropy.io.fits is FFI)",
             "np.concatenate/np.fliplr/slicing of 2-D arrays behave as documented (modelled on sample ranges)",
             "streaming reductions over this reader follow from the read_plan contract exactly as for FilReader (C06)")
    R.out_of_claim("astropy.io.fits itself; header value types (Quantity vs float) of Header.from_pfits", "plans/rows beyond the structural bound",
                   "replay is only possible at the shape of tests/data/parkes_4bit.sf (NSBLK=2048, 2 rows)",
                   "single-polarisation (NPOL=1) layouts: read_subint squeezes the polarisation axis away and then rejects the shape "
                   "(seen symbolically; no single-polarisation PSRFITS file exists offline to replay it, so it is neither claimed nor reported)")
    items = [("block", -1.0, False, nb), ("block", 1.0, False, nb), ("plan", -1.0, False, nb), ("plan", -1.0, True, nb)]
    if not quick:
        items.append(("plan", 1.0, False, nb))
    items += [("values", 2, "Coherence", 0), ("values", 2, "Stokes", 0), ("labels", 0, False, 0)]
    from sigpyproc import header as _header
    R.encode(_header.Header.__dict__["from_pfits"].__func__)
    parts = R.pmap(work, items)
    R.vacuity_witness("c18", sum(p.reached for p in parts) > 0)
    tw = [0]

    def twin(ctx, o):
        if o["outcome"] == "ok" and ctx.check() == z3.sat:
            tw[0] += 1
    explore(block_harness(-1.0), bound=2, on_path=twin, stats=R.stats)
    R.vacuity_witness("c18-twin(read_block returns on some path)", tw[0] > 0)
