"""C19 - parallel kernels give the same answer for every thread count and schedule.

E1 two-iteration check on numba's typed IR: the prange body is executed for two
arbitrary distinct iteration indices (sizes symbolic and unbounded, inner sequential
loops summarised by one arbitrary iteration); every array access is logged and z3 is
asked for a write of one iteration aliasing a read/write of the other.
"""
from __future__ import annotations

import json

import z3
from numba.core import ir, types

from ..core import Ctx, Inconclusive, Unsupported, explore
from ..kernel_specs import specs
from ..nbsym import RaceInterp, Sym, capture, conflict_conditions, irange


def shared_scalars(cap):
    """names assigned both inside a prange body and outside it (the induction variable apart):
    such a scalar would be shared state; numba only supports that as a reduction."""
    from numba.core.analysis import compute_cfg_from_blocks
    blocks = cap.blocks
    defs = {}
    for lbl, blk in blocks.items():
        for st in blk.body:
            if isinstance(st, ir.Assign):
                defs.setdefault(st.target.name, []).append((lbl, st))
    # iterators that come from a prange call
    par_iters = set()
    for name, ds in defs.items():
        for lbl, st in ds:
            v = st.value
            if isinstance(v, ir.Expr) and v.op == "call":
                fd = defs.get(v.func.name, [])
                if fd and isinstance(fd[0][1].value, (ir.Global, ir.FreeVar)) and getattr(fd[0][1].value.value, "__name__", "") == "prange":
                    par_iters.add(name)
    changed = True
    while changed:
        changed = False
        for name, ds in defs.items():
            for lbl, st in ds:
                v = st.value
                src = None
                if isinstance(v, ir.Expr) and v.op in ("getiter", "cast"):
                    src = v.value.name
                elif isinstance(v, ir.Var):
                    src = v.name
                if src in par_iters and name not in par_iters:
                    par_iters.add(name)
                    changed = True
    headers = set()
    for lbl, blk in blocks.items():
        for st in blk.body:
            if isinstance(st, ir.Assign) and isinstance(st.value, ir.Expr) and st.value.op == "iternext" and st.value.value.name in par_iters:
                headers.add(lbl)
    # induction variables of the prange loops (assigned from pair_first of their iternext)
    pairs, induction = set(), set()
    for name, ds in defs.items():
        for lbl, st in ds:
            v = st.value
            if isinstance(v, ir.Expr) and v.op == "iternext" and v.value.name in par_iters:
                pairs.add(name)
    for _ in range(4):
        for name, ds in defs.items():
            for lbl, st in ds:
                v = st.value
                if isinstance(v, ir.Expr) and v.op == "pair_first" and v.value.name in pairs:
                    induction.add(name)
                elif isinstance(v, ir.Var) and v.name in induction:
                    induction.add(name)
    ind_names = {blocks_var_unversioned(n) for n in induction}
    cfg = compute_cfg_from_blocks(blocks)
    out = []
    for loop in cfg.loops().values():
        if loop.header not in headers:
            continue
        body = set(loop.body) - {loop.header}
        inside, outside = set(), set()
        for lbl, blk in blocks.items():
            if lbl == loop.header:
                continue
            for st in blk.body:
                if isinstance(st, ir.Assign) and not st.target.name.startswith("$"):
                    (inside if lbl in body else outside).add(st.target.unversioned_name)
        out += sorted((inside & outside) - ind_names)
    return sorted(set(out)), len(headers)


def blocks_var_unversioned(name):
    return name.split(".")[0]


def race_work(P, name):
    sp = specs()[name]
    cap = capture(sp["disp"], sp["argtys"])
    S = {n: z3.Int(n) for n in sp["sizes"]}
    found = []

    def run(ctx):
        # pass 1: which arrays does an iteration write?  Arrays nobody writes load equal values at equal indices in
        # both iterations (uninterpreted LD_<array>(index)); written ones keep independent fresh values.
        it0 = RaceInterp(cap, "P", list(sp["pre"](S)), sp["lc"](S))
        try:
            it0.run(sp["sym"](S))
        except Exception as e:  # noqa: BLE001
            if type(e).__name__ != "KernelRaise":
                raise
        written = {a[0] for a in it0.acc if a[2] == "W"}
        stable = {a[0] for a in it0.acc} - written
        cons = list(sp["pre"](S))
        logs, loads = [], []
        for tag in ("A", "B"):
            it = RaceInterp(cap, tag, cons, sp["lc"](S), stable=stable)
            args = sp["sym"](S)
            for a in args:   # machine-width range of every scalar argument
                if isinstance(a, Sym) and isinstance(a.ty, types.Integer):
                    lo, hi = irange(a.ty)
                    cons += [a.t >= lo, a.t <= hi]
            try:
                it.run(args)
            except Exception as e:  # KernelRaise on a path = that iteration raised; keep its accesses
                if type(e).__name__ != "KernelRaise":
                    raise
            logs.append(it.acc)
            loads.extend(getattr(it, "loads", []))
        return cons, logs, loads

    def on_path(ctx, out):
        cons, logs, loads = out
        for c in cons:
            ctx.assume(c)
        P.reached += 1
        confs = conflict_conditions(logs[0], logs[1]) + conflict_conditions(logs[1], logs[0])
        if not confs:
            P.obligation(f"{name}/no-write-in-parallel-body", "holds", symbolic=False)
        seen = set()
        for arr, fld, kinds, cond in confs:
            key = (arr, fld, kinds, str(cond))
            if key in seen:
                continue
            seen.add(key)
            r = ctx.check(cond)
            oname = f"{name}/{arr}{'.' + fld if fld else ''}/{kinds}"
            if r == z3.unsat:
                P.obligation(oname, "holds", symbolic=True, accesses=len(logs[0]))
                continue
            # prefer a witness the replay can allocate: small sizes, a small thread pool
            small = [S[n] <= 64 for n in S] + [z3.Int("num_threads") <= 16]
            if ctx.check(cond, *small) != z3.sat:
                ctx.check(cond)
            m = ctx.solver.model()
            V = {n: m.eval(S[n], model_completion=True).as_long() for n in S}
            pa = [m.eval(t, model_completion=True).as_long() for t in {a[4] for a in logs[0]}]
            pb = [m.eval(t, model_completion=True).as_long() for t in {a[4] for a in logs[1]}]
            ld = {}
            for an, terms, vt in loads:
                if len(terms) == 1:
                    iv, vv = m.eval(terms[0], model_completion=True), m.eval(vt, model_completion=True)
                    if z3.is_int_value(iv) and z3.is_int_value(vv) and 0 <= iv.as_long() < 4096:
                        ld.setdefault(an, {})[str(iv.as_long())] = vv.as_long()
            nthr = m.eval(z3.Int("num_threads"), model_completion=True)
            params = dict(kernel=name, sizes=V, it_a=pa[0] if pa else 0, it_b=pb[0] if pb else 1, array=arr, loads=ld,
                          num_threads=nthr.as_long() if z3.is_int_value(nthr) and nthr.as_long() >= 1 else None)
            src = ("import sys, json\nfrom symx.concrete import c19\n"
                   f"sys.exit(c19.main(json.loads({json.dumps(json.dumps(params))})))\n")
            found.append(params)
            P.violation(f"race-{name}-{arr}-{kinds}", f"iterations {params['it_a']} and {params['it_b']} of the prange loop of {name} touch the same "
                        f"element of `{arr}` ({kinds}) with sizes {V}", src, model=params)
            if len(found) >= 2:
                return "stop"
        return None

    explore(run, bound=3, on_path=on_path, deadline_s=300, stats=P.stats)
    if not found:
        # witnesses: the kernel's real Python body, run for two single iterations with access-recording arrays, must
        # agree that no element is shared (two pairs of iterations, small sizes)
        for ia, ib in ((0, 1), (1, 3)):
            P.witness("c19", dict(kernel=name, sizes={n: 6 for n in sp["sizes"]}, it_a=ia, it_b=ib), f"race-witness-{name}-{ia}-{ib}", name)
    # shared scalar state
    sh, nloops = shared_scalars(cap)
    P.stats.queries += 1
    if nloops < 1:
        P.inconclusive_(f"{name}: no prange loop found in the typed IR")
    if sh:
        P.extra.setdefault("shared_scalars", {})[name] = sh
        params = dict(kernel=name, sizes={n: 64 for n in sp["sizes"]}, threads=True)
        src = ("import sys, json\nfrom symx.concrete import c19\n"
               f"sys.exit(c19.main_threads(json.loads({json.dumps(json.dumps(params))})))\n")
        P.violation(f"shared-scalar-{name}", f"scalar(s) {sh} are assigned both before and inside the prange body of {name}", src, model=params)
    else:
        P.obligation(f"{name}/body-scalars-are-iteration-local", "holds", symbolic=False)


def run(R):
    from sigpyproc.core import kernels
    sp = specs()
    for name, s in sp.items():
        R.encode(s["disp"])
    # inventory: every parallel=True dispatcher of kernels.py must be in the table or listed as outside
    par = [n for n, v in vars(kernels).items() if hasattr(v, "targetoptions") and v.targetoptions.get("parallel")]
    missing = sorted(set(par) - set(sp) - {"simulate_ism"})
    if missing:
        R.inconclusive_(f"parallel kernels without a race harness: {missing}")
    R.extra["parallel_kernels_found"] = sorted(par)
    R.bounds.update(dict(sizes="all size arguments symbolic and unbounded (nchans, nsamps, index, maxdelay, factors >= their documented minimum)",
                         iterations="two arbitrary distinct prange iterations; inner sequential loops: one arbitrary iteration each",
                         kernels=sorted(sp)))
    R.assume("arrays passed by callers do not alias each other", "call-site preconditions: " + "; ".join(f"{n}: {s['note']}" for n, s in sp.items() if s["note"]),
             "numba privatises scalars assigned in a prange body; its scheduler/reduction machinery is trusted",
             "loop-carried scalars of inner loops do not feed array indices (true for all kernels in the table; indices are affine in loop counters)")
    R.out_of_claim("simulate_ism (FFT based, not in the property's list)", "fastmath reassociation on non-exact inputs",
                   "equality with the sequential definition is established separately by the kernel contracts (C06/C07/C10/C14)")
    parts = R.pmap(race_work, sorted(sp))
    R.vacuity_witness("c19-race", sum(p.reached for p in parts) > 0)
    # reachability twin: the same query machinery must find the conflict in a deliberately racy kernel
    from numba import njit, prange

    @njit(["void(u1[:], f4[:], i4, i4)"], parallel=True, fastmath=True)
    def racy_bpass(inarray, outarray, nchans, nsamps):
        for isamp in prange(nsamps):
            for ichan in range(nchans):
                outarray[ichan] += inarray[nchans * isamp + ichan]

    s0 = sp["extract_bpass"]
    cap = capture(racy_bpass, racy_bpass.nopython_signatures[0].args)
    S = {n: z3.Int(n) for n in s0["sizes"]}
    cons = list(s0["pre"](S))
    logs = []
    for tag in ("A", "B"):
        it = RaceInterp(cap, tag, cons)
        it.run(s0["sym"](S))
        logs.append(it.acc)
    sol = z3.Solver()
    sol.add(*cons)
    hit = any(sol.check(c) == z3.sat for _, _, _, c in conflict_conditions(logs[0], logs[1]))
    R.stats.queries += 1
    R.vacuity_witness("c19-twin(racy variant of extract_bpass must be flagged)", hit)
