"""C20 - a partially written output is always a valid prefix of the final file.

(1) write traces of every streaming writer (from the C07 harness, real FileWriter/prep_outfile
    bytecode): header first and complete, then append-only whole-sample blocks in time order;
(2) every byte-length truncation of an output at or after the header: the real parse_header
    arithmetic on a file of symbolic length + the real FilReader.read_block return exactly the
    first k complete samples."""
from __future__ import annotations

import json

import z3

from ..arrays import iterm
from ..core import Ctx, Inconclusive, SInt, explore, rebind, s_int
from ..fileshim import FS, FileData, stream_elem, stream_unpacked
from ..stack import build_filreader, make_reader, RecHeader
from . import c07

DT = c07.DT


class HybridFile:
    """binary file object: concrete header bytes followed by `datalen` (symbolic) data bytes"""

    def __init__(self, hdr, datalen):
        self.hdr, self.datalen, self.pos = hdr, datalen, 0

    def read(self, n):
        if not isinstance(self.pos, int) or self.pos + n > len(self.hdr):
            raise Inconclusive("parse_header read outside the concrete header")
        b = self.hdr[self.pos:self.pos + n]
        self.pos += n
        return b

    def tell(self):
        return self.pos

    def seek(self, off, whence=0):
        if whence == 2:
            self.pos = SInt(len(self.hdr) + self.datalen) + off
        else:
            self.pos = off

    def __enter__(self):
        return self

    def __exit__(self, *a):
        return False


class FakePath:
    def __init__(self, f):
        self.f = f

    def open(self, mode):
        return self.f

    def as_posix(self):
        return "trunc.fil"


def trunc_harness(st, nbits, nchans):
    from sigpyproc.io import sigproc
    from ..concrete.sigfile import header_bytes
    hdr = header_bytes(nchans, nbits)

    def run(ctx):
        L = z3.Int("datalen")      # surviving data bytes (any truncation point at or after the header)
        ctx.assume(L >= 0)
        hf = HybridFile(hdr, L)
        ph = rebind(sigproc.parse_header, validate_path=lambda fn: FakePath(hf), int=s_int)
        h = ph("trunc.fil")
        viol = []
        k = h["nsamples"]
        ke = iterm(k)
        stride_bits = nbits * nchans
        viol.append(("hdrlen = header bytes", z3.BoolVal(h["hdrlen"] != len(hdr))))
        viol.append(("inferred samples = complete samples on disk", z3.Or(ke * stride_bits > 8 * L, (ke + 1) * stride_bits <= 8 * L)))
        rec = c07.Rec()
        rec.vars = dict(L=L)
        rec.viol = viol
        rec.err = None
        # reader over the truncated file
        FS.reset()
        FS.files["trunc.fil"] = FileData("trunc.fil", 0, z3.IntVal(len(hdr)), L, z3.IntVal(0))
        r = object.__new__(st["FilReader"])
        r._filenames = ["trunc.fil"]
        r._header = RecHeader(nchans, k, nbits)
        sp = st["sigproc"]
        ent = sp.FileInfo(filename="trunc.fil", hdrlen=h["hdrlen"], datalen=h["datalen"], nsamples=k, tstart=0.0, tsamp=1.0)
        r._file = st["FileReader"](st["StreamInfo"]([ent]), mode="r", nbits=nbits)
        if ctx.branch(ke >= 1):
            c, t = z3.Int("c!sk"), z3.Int("t!sk")
            try:
                blk = r.read_block(0, k)
            except (ValueError, IndexError, OSError, TypeError) as e:
                rec.err = type(e).__name__
                viol.append((f"read_block(0,k) of the surviving file raised {rec.err}", z3.BoolVal(True)))
                return rec
            d = blk.data
            q = t * nchans + c
            want = stream_unpacked(nbits, q) if nbits < 8 else stream_elem(DT[nbits], q)
            viol.append(("survivor shape = (nchans, k)", z3.Or(d.rows != nchans, d.cols != ke)))
            viol.append(("survivor values = first k samples", z3.And(c >= 0, c < nchans, t >= 0, t < ke, d.fn(c, t) != want)))
        return rec
    return run


def trunc_work(P, item):
    _, nbits, nchans = item
    st = build_filreader()
    label = f"truncation[nbits={nbits},nchans={nchans}]"

    def on_path(ctx, rec):
        Ctx.cur = ctx
        P.reached += 1
        for name, c in rec.viol:
            if ctx.check(c) == z3.unsat:
                P.obligation(f"{label}/{name}", "holds")
                continue
            m = ctx.solver.model()
            Lv = m.eval(rec.vars["L"], model_completion=True).as_long()
            params = dict(nbits=nbits, nchans=nchans, datalen=Lv)
            src = ("import sys, json\nfrom symx.concrete import c20\n"
                   f"sys.exit(c20.main_trunc(json.loads({json.dumps(json.dumps(params))})))\n")
            P.violation(f"{label}-{name}".replace(" ", "_").replace("/", "-"), f"{name} with {params}", src, model=params)
        Ctx.cur = None
    explore(trunc_harness(st, nbits, nchans), bound=3, on_path=on_path, stats=P.stats, deadline_s=300)


def work(P, item):
    if item[0] == "trunc":
        return trunc_work(P, item)
    return c07.work(P, item)


def run(R):
    from sigpyproc.io import sigproc, fileio
    quick = c07.common_setup(R)
    R.encode(sigproc.parse_header, fileio.FileBase.__init__)
    R.bounds["truncation"] = "surviving data length: any integer >= 0 (unbounded); header: a concrete well-formed header per (nbits, nchans)"
    R.assume("io.FileIO is unbuffered and write() appends (the writer object is checked to be io.FileIO on the real FileBase)",
             "a crash happens between two write calls (a torn single write and file-system durability are outside the claim)")
    # the real writer must be the unbuffered raw file object
    import io
    fb = fileio.FileBase.__new__(fileio.FileBase)
    src = ("import io, sys, tempfile, os\nfrom sigpyproc.io.fileio import FileWriter\n"
           "d = tempfile.mkdtemp(); w = FileWriter(os.path.join(d, 'x'), mode='w', nbits=8)\n"
           "ok = type(w.file_obj) is io.FileIO\nw.close()\nprint('unbuffered' if ok else 'MISMATCH: FileWriter does not write through an unbuffered io.FileIO')\nsys.exit(0 if ok else 1)\n")
    import tempfile, os
    with tempfile.TemporaryDirectory() as d:
        w = fileio.FileWriter(os.path.join(d, "x"), mode="w", nbits=8)
        ok = type(w.file_obj) is io.FileIO
        w.close()
    R.stats.queries += 1
    if ok:
        R.obligation("writer-is-unbuffered-io.FileIO", "holds", symbolic=False)
    else:
        R.violation("writer-buffered", "FileWriter no longer uses the unbuffered io.FileIO", src)
    items = c07.items_for(R.tier, "viol20")
    cfgs = [(8, 2), (2, 4), (32, 1), (16, 3)] if quick else [(1, 8), (2, 4), (4, 2), (8, 1), (8, 3), (16, 3), (32, 2)]
    items += [("trunc", b, c) for b, c in cfgs]
    parts = R.pmap(work, items)
    R.vacuity_witness("c20", sum(p.reached for p in parts) > 0)
    st = build_filreader()
    tw = [0]

    def twin(ctx, rec):
        if ctx.check() == z3.sat and len(rec.viol) > 2:
            tw[0] += 1
    explore(trunc_harness(st, 8, 2), bound=3, on_path=twin, stats=R.stats)
    R.vacuity_witness("c20-twin(read_block on a surviving file is reached)", tw[0] > 0)
