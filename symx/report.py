"""Evidence, replay and known-finding plumbing shared by all property harnesses."""
from __future__ import annotations

import hashlib
import inspect
import json
import os
import subprocess
import sys
import time

from .core import Stats

VERIF = os.path.dirname(os.path.dirname(os.path.abspath(__file__)))
REPO = os.environ.get("SYMX_REPO", "/repo")
PY = os.path.join(VERIF, ".venv", "bin", "python")

EXIT_OK, EXIT_VIOLATION, EXIT_INCONCLUSIVE = 0, 1, 2


def _jsonable(x):
    from fractions import Fraction
    if isinstance(x, dict):
        return {str(k): _jsonable(v) for k, v in x.items()}
    if isinstance(x, (list, tuple, set)):
        return [_jsonable(v) for v in x]
    if isinstance(x, Fraction):
        return float(x) if x.denominator != 1 else int(x)
    if isinstance(x, (int, float, str, bool)) or x is None:
        return x
    try:
        import numpy as np
        if isinstance(x, np.generic):
            return x.item()
        if isinstance(x, np.ndarray):
            return x.tolist()
    except ImportError:
        pass
    return str(x)


def load_known():
    p = os.path.join(VERIF, "known_findings.json")
    if not os.path.exists(p):
        return []
    with open(p) as f:
        return json.load(f).get("findings", [])


class Part:
    """Picklable partial result produced by a worker process (same reporting surface as Run)."""

    def __init__(self):
        self.obligations, self.cands, self.inconcl = [], [], []
        self.stats = Stats()
        self.validated_n = 0
        self.reached = 0
        self.extra = {}

    def obligation(self, name, verdict, **detail):
        d = dict(name=name, verdict=verdict)
        d.update(_jsonable(detail))
        self.obligations.append(d)

    def violation(self, key, desc, replay_src, model=None):
        self.cands.append((key, desc, replay_src, _jsonable(model)))
        return "candidate"

    def validated(self, n=1):
        self.validated_n += n

    def witness(self, driver, params, key, desc):
        """Path witness: run the property's concrete driver (real library) on a solver model of a path whose
        obligations all hold.  Agreement is counted as a validated trace; a failure there is a candidate violation
        (replayed like any other) - the harness said 'holds' where the real code does not."""
        import contextlib
        import importlib
        import io
        import json
        mod = importlib.import_module(f"symx.concrete.{driver}")
        buf = io.StringIO()
        try:
            with contextlib.redirect_stdout(buf), contextlib.redirect_stderr(buf):
                rc = mod.main(json.loads(json.dumps(params)))
        except BaseException as e:  # noqa: BLE001
            import traceback
            tb = traceback.extract_tb(e.__traceback__)
            if tb and tb[-1].filename.startswith(os.path.join(REPO, "sigpyproc") + os.sep):
                # the library itself raised on this (valid) witness: a candidate violation, decided by the replay
                src = (f"import sys, json\nfrom symx.concrete import {driver}\n"
                       f"sys.exit({driver}.main(json.loads({json.dumps(json.dumps(params))})))\n")
                self.cands.append((key, f"{desc}: the real library raised {type(e).__name__}: {e} on a witness of a path the harness decided as holding", src, params))
                return False
            self.inconcl.append(f"path witness {key}: driver raised {type(e).__name__}: {e} with {json.dumps(params)[:400]} :: {traceback.format_exc()[-700:]}")
            return False
        if rc == 0:
            self.validated_n += 1
            return True
        src = (f"import sys, json\nfrom symx.concrete import {driver}\n"
               f"sys.exit({driver}.main(json.loads({json.dumps(json.dumps(params))})))\n")
        self.cands.append((key, f"{desc}: the real library breaks the property on a witness of a path the harness decided as holding: {buf.getvalue()[-300:]}", src, params))
        return False

    def inconclusive_(self, msg):
        self.inconcl.append(str(msg))


def _work(args):
    fn, item = args
    part = Part()
    try:
        fn(part, item)
    except BaseException as e:  # noqa: BLE001 - a crashing worker is inconclusive, never a pass
        import traceback
        part.inconcl.append(f"worker {item!r}: {type(e).__name__}: {e} :: {traceback.format_exc()[-600:]}")
    return part


class Run:
    """Collects what one check run covered and turns it into exit code + evidence."""

    def merge(self, part):
        for item in part.stats.xc:
            if len(self.xc_samples) < (16 if self.tier == "quick" else 48):
                self.xc_samples.append(item)
        part.stats.xc = []
        self.stats.add(part.stats)
        for d in part.obligations:
            self.obligations.append(d)
            if len(self.samples) < 12 or (d["verdict"] != "holds" and len(self.samples) < 40):
                self.samples.append(d)
        self.traces_validated += part.validated_n
        self.inconclusive.extend(part.inconcl)
        for key, desc, src, model in part.cands:
            self.violation(key, desc, src, model=model)
        return part

    def pmap(self, fn, items, procs=None):
        """run fn(part, item) for every item in worker processes; merge in order.
        Workers are *spawned* (not forked): numba's threading layers are not fork-safe and a
        worker that dies would otherwise be silently replaced."""
        import multiprocessing as mp
        from concurrent.futures import ProcessPoolExecutor
        from concurrent.futures.process import BrokenProcessPool
        items = list(items)
        procs = procs or min(int(os.environ.get("SYMX_PROCS", "14")), max(1, len(items)))
        if procs <= 1 or len(items) <= 1:
            parts = [_work((fn, it)) for it in items]
        else:
            parts = []
            with ProcessPoolExecutor(max_workers=procs, mp_context=mp.get_context("spawn")) as ex:
                futs = [ex.submit(_work, (fn, it)) for it in items]
                for it, f in zip(items, futs):
                    try:
                        parts.append(f.result())
                    except BrokenProcessPool as e:
                        p = Part()
                        p.inconcl.append(f"worker process died on {it!r}: {e}")
                        parts.append(p)
        for p in parts:
            self.merge(p)
        return parts

    def __init__(self, pid, tier, seed):
        self.pid, self.tier, self.seed = pid, tier, seed
        self.t0 = time.time()
        self.stats = Stats()
        self.functions = {}
        self.sources = {}
        self.obligations = []
        self.samples = []
        self.violations = []
        self.known_lines = []
        self.inconclusive = []
        self.assumptions = []
        self.stubs = []
        self.outside = []
        self.bounds = {}
        self.vacuity = []
        self.encoder_validation = []
        self.crosscheck = []
        self.xc_samples = []
        self.traces_validated = 0
        self.max_replays = 2
        self.unreplayed = 0
        self.not_reproduced = 0
        self.extra = {}
        self.known = [k for k in load_known() if k.get("property") == pid]
        os.makedirs(os.path.join(os.environ.get("SYMX_REPLAY_DIR", os.path.join(VERIF, "replays")), pid), exist_ok=True)

    # ---- bookkeeping
    def encode(self, *fns):
        """Record that these real functions were symbolically executed."""
        for fn in fns:
            f = fn
            while hasattr(f, "__wrapped__"):
                f = f.__wrapped__
            if isinstance(f, property):
                f = f.fget
            if hasattr(f, "py_func"):
                f = f.py_func
            if isinstance(f, (staticmethod, classmethod)):
                f = f.__func__
            try:
                path = inspect.getsourcefile(f)
                name = f"{f.__module__}.{f.__qualname__}"
            except TypeError:
                path, name = None, repr(f)
            self.functions[name] = path
            if path and path not in self.sources and os.path.exists(path):
                with open(path, "rb") as fh:
                    self.sources[path] = hashlib.sha256(fh.read()).hexdigest()

    def stub(self, *names):
        for n in names:
            if n not in self.stubs:
                self.stubs.append(n)

    def assume(self, *texts):
        for t in texts:
            if t not in self.assumptions:
                self.assumptions.append(t)

    def out_of_claim(self, *texts):
        for t in texts:
            if t not in self.outside:
                self.outside.append(t)

    def obligation(self, name, verdict, **detail):
        """verdict: 'holds' (negation unsat), 'violated' (sat+replayed), 'known', 'witness' (vacuity twin sat)."""
        d = dict(name=name, verdict=verdict)
        d.update(detail)
        self.obligations.append(d)
        if len(self.samples) < 12 or (verdict != "holds" and len(self.samples) < 40):
            self.samples.append(_jsonable(d))

    def sample(self, s):
        if len(self.samples) < 40:
            self.samples.append(_jsonable(s))

    def inconclusive_(self, msg):
        self.inconclusive.append(msg)

    def vacuity_witness(self, name, reached):
        self.vacuity.append(dict(harness=name, reached=reached))
        if not reached:
            self.inconclusive.append(f"vacuity: harness {name} never reaches its assertion")

    def validated(self, n=1):
        self.traces_validated += n

    # ---- known findings
    def known_entry(self, key):
        for k in self.known:
            if k.get("key") == key and k.get("status") == "known":
                return k
        return None

    # ---- violations
    def replay_path(self, name):
        safe = "".join(c if c.isalnum() or c in "-_." else "_" for c in name)
        return os.path.join(os.environ.get("SYMX_REPLAY_DIR", os.path.join(VERIF, "replays")), self.pid, safe + ".py")

    def run_replay(self, path, timeout=600):
        env = dict(os.environ)
        env["PYTHONPATH"] = REPO + os.pathsep + VERIF
        env.setdefault("NUMBA_CACHE_DIR", os.path.join(VERIF, ".cache", "numba"))
        p = subprocess.run([PY, path], capture_output=True, text=True, timeout=timeout, env=env)
        rc, out = p.returncode, p.stdout + p.stderr
        if rc == 1 and "MISMATCH" not in out:
            # an uncaught exception also exits with 1: only a driver that *states* the mismatch has reproduced something ...
            frames = [ln for ln in out.splitlines() if ln.lstrip().startswith('File "')]
            lib = os.path.join(REPO, "sigpyproc") + os.sep
            if "Traceback" in out and frames and lib in frames[-1]:
                # ... or the library itself raised on the (valid) scenario the driver was exercising
                out += "\nMISMATCH: the library raised on a valid scenario (innermost frame inside sigpyproc)\n"
            else:
                rc = 70
        return rc, out[-2000:]

    def violation(self, key, desc, replay_src, model=None):
        """A solver model broke an obligation.  Write a replay script against the real
        library, run it; report only what reproduces (exit 1 of the script).
        Returns 'violated' / 'known' / 'not-reproduced'."""
        path = self.replay_path(key)
        if len(self.violations) >= self.max_replays or self.not_reproduced >= 3:
            # enough reproduced violations already: do not spend a replay on every further model
            self.obligation(key, "violated-unreplayed", desc=desc, model=model)
            self.unreplayed += 1
            return "violated"
        with open(path, "w") as f:
            f.write(replay_src)
        rc, out = self.run_replay(path)
        if rc == 1:
            ke = self.known_entry(key)
            if ke is not None:
                line = f"KNOWN-FINDING: property={self.pid} {ke.get('what', desc)}"
                if line not in self.known_lines:
                    self.known_lines.append(line)
                self.obligation(key, "known", desc=desc, model=model, replay=path)
                return "known"
            self.violations.append((key, desc, path))
            self.obligation(key, "violated", desc=desc, model=model, replay=path, output=out[-400:])
            return "violated"
        self.not_reproduced += 1
        self.inconclusive.append(f"counterexample for {key} did not reproduce on the real code (rc={rc}): {desc}; model={model}; out={out[-300:]}")
        self.obligation(key, "not-reproduced", desc=desc, model=model, replay=path)
        return "not-reproduced"

    def known_witness(self, key, replay_src):
        """Re-run the stored witness of a listed finding; print KNOWN-FINDING iff it still fails."""
        ke = self.known_entry(key)
        if ke is None:
            return False
        path = self.replay_path("known-" + key)
        with open(path, "w") as f:
            f.write(replay_src)
        rc, out = self.run_replay(path)
        if rc == 1:
            line = f"KNOWN-FINDING: property={self.pid} {ke.get('what', key)}"
            if line not in self.known_lines:
                self.known_lines.append(line)
            self.obligation(key, "known", replay=path)
            return True
        if rc != 0:
            self.inconclusive.append(f"known-finding witness {key} crashed rc={rc}: {out[-300:]}")
        return False

    # ---- second solver
    def run_crosscheck(self):
        """Re-decide a sample of this run's queries with cvc5 (wheel in the overlay venv).  A verdict that differs from
        z3's makes the run inconclusive; cvc5 timeouts / unsupported syntax carry no information and are counted."""
        for item in self.stats.xc:
            if len(self.xc_samples) < (16 if self.tier == "quick" else 48):
                self.xc_samples.append(item)
        if not self.xc_samples:
            return
        try:
            import cvc5
        except Exception as e:  # noqa: BLE001
            self.crosscheck.append(dict(solver="cvc5", status=f"not available: {e}"))
            return
        tl = "5000" if self.tier == "quick" else "20000"
        agree = disagree = noinfo = 0
        reasons = []
        t0 = time.time()
        for txt, zv in self.xc_samples:
            if time.time() - t0 > (60 if self.tier == "quick" else 600):
                noinfo += 1
                continue
            verdict = "error"
            for attempt in (0, 1):
                try:
                    if attempt == 1:
                        # z3 prints unary sums/products, which cvc5 rejects: re-print the simplified assertions
                        import z3
                        q = z3.Solver()
                        q.add(*[z3.simplify(a) for a in z3.parse_smt2_string(txt)])
                        txt = q.to_smt2()
                    slv = cvc5.Solver()
                    slv.setOption("tlimit-per", tl)
                    par = cvc5.InputParser(slv)
                    par.setStringInput(cvc5.InputLanguage.SMT_LIB_2_6, "(set-logic ALL)\n" + txt, "q")
                    sm = par.getSymbolManager()
                    while True:
                        cmd = par.nextCommand()
                        if cmd.isNull():
                            break
                        out = cmd.invoke(slv, sm).strip()
                        if out in ("sat", "unsat", "unknown"):
                            verdict = out
                    break
                except Exception as e:  # noqa: BLE001
                    verdict = f"error: {str(e)[:80]}"
            if verdict in ("sat", "unsat"):
                if verdict == zv:
                    agree += 1
                else:
                    disagree += 1
                    self.inconclusive.append(f"solver cross-check: z3 says {zv}, cvc5 says {verdict} on a sampled query ({len(txt)} bytes)")
            else:
                noinfo += 1
                if verdict not in reasons:
                    reasons.append(verdict)
        self.crosscheck.append(dict(solver="cvc5 (python wheel)", sampled_queries=len(self.xc_samples), agree=agree, disagree=disagree,
                                    no_information=noinfo, no_information_reasons=reasons[:4], per_query_limit_ms=int(tl), wall_s=round(time.time() - t0, 2)))

    # ---- last resort when the solver-based run could not decide
    def run_fallback_scenarios(self):
        """Only when the run is inconclusive (the harness left the modelled subset, a worker crashed, a query stayed
        undecided) and found no violation: replay the stored corner scenarios of this property (symx/scenarios.json -
        solver counterexamples of earlier seeded changes, all passing on the pinned tree) on the real library.  A
        scenario that fails is a reproduced violation; if none fails the run stays inconclusive (exit 2).  This never
        turns an undecided run into a pass."""
        path = os.path.join(VERIF, "symx", "scenarios.json")
        if not os.path.exists(path):
            return
        with open(path) as f:
            scen = json.load(f).get(self.pid, [])
        ran = failed = 0
        t0 = time.time()
        for i, sc in enumerate(scen):
            if failed >= 2 or time.time() - t0 > 300:
                break
            src = (f"import sys, json\nfrom symx.concrete import {sc['driver']}\n"
                   f"sys.exit({sc['driver']}.{sc['entry']}(json.loads({json.dumps(json.dumps(sc['params']))})))\n")
            rp = self.replay_path(f"fallback-scenario-{i}")
            with open(rp, "w") as f:
                f.write(src)
            try:
                rc, out = self.run_replay(rp, timeout=120)
            except Exception:  # noqa: BLE001
                continue
            ran += 1
            if rc == 1:
                failed += 1
                key = f"fallback-scenario-{i}"
                self.violations.append((key, "stored corner scenario fails on the real library (run was otherwise inconclusive)", rp))
                self.obligation(key, "violated", desc="stored corner scenario fails on the real library", model=sc["params"], replay=rp, output=out[-400:], found_by="fallback replay")
        self.extra["fallback_scenarios"] = dict(ran=ran, failed=failed, reason="run inconclusive")

    # ---- finish
    def finish(self):
        if self.inconclusive and not self.violations:
            try:
                self.run_fallback_scenarios()
            except Exception as e:  # noqa: BLE001
                self.inconclusive.append(f"fallback scenarios crashed: {type(e).__name__}: {e}")
        try:
            self.run_crosscheck()
        except Exception as e:  # noqa: BLE001
            self.crosscheck.append(dict(solver="cvc5", status=f"cross-check crashed: {type(e).__name__}: {e}"[:200]))
        for reason, text in (("time-budget", "paths left unexplored when an item's wall-clock budget ran out (cut reason 'time-budget')"),
                             ("solver-unknown", "paths whose branch feasibility z3 left undecided within 60 s + 180 s (cut reason 'solver-unknown')"),
                             ("depth", "paths deeper than 200 decisions (cut reason 'depth')")):
            if self.stats.cut_reasons.get(reason):
                self.out_of_claim(f"{self.stats.cut_reasons[reason]} {text}")
        wall = time.time() - self.t0
        n_obl = len(self.obligations)
        holds = sum(1 for o in self.obligations if o["verdict"] == "holds")
        states = max(self.stats.paths + n_obl, 0)
        cov = dict(
            states=states,
            transitions=self.stats.queries,
            traces_validated_against_impl=self.traces_validated,
            samples=self.samples[:40] or [dict(note="no obligations were generated")],
            evaluations=n_obl,
            distinct_nontrivial=len({o["name"] for o in self.obligations if o.get("symbolic", True)}),
            rule="one case = one solver-discharged obligation (negated property + path condition) over symbolic inputs; "
                 "non-trivial = the query involved at least one symbolic variable; distinct = distinct obligation name",
            obligations=n_obl,
            discharged=holds,
            exhaustive=False,
            functions_encoded=sorted(self.functions),
            source_sha256=self.sources,
            bounds=self.bounds,
            paths=self.stats.paths,
            cuts=self.stats.cuts,
            cut_reasons=self.stats.cut_reasons,
            queries=self.stats.queries,
            solver_s=round(self.stats.solver_s, 3),
            stubs=self.stubs,
            vacuity_witnesses=self.vacuity,
            encoder_validation=self.encoder_validation,
            crosscheck=self.crosscheck,
            outside_claim=self.outside,
            known_findings=self.known_lines,
            inconclusive=self.inconclusive,
        )
        cov.update(self.extra)
        ev = dict(
            property_id=self.pid, tier=self.tier, seed=self.seed, level="model_checking",
            coverage=_jsonable(cov), assumptions=self.assumptions, wall_s=round(wall, 2),
            violations=len(self.violations),
        )
        if states < 1 or self.stats.queries < 1:
            self.inconclusive.append("no states/queries were explored")
        evdir = os.environ.get("SYMX_EVIDENCE_DIR", os.path.join(VERIF, "evidence"))
        os.makedirs(evdir, exist_ok=True)
        with open(os.path.join(evdir, f"{self.pid}.json"), "w") as f:
            json.dump(ev, f, indent=1)
        for line in self.known_lines:
            print(line)
        print(f"[{self.pid}] tier={self.tier} obligations={n_obl} holds={holds} paths={self.stats.paths} cuts={self.stats.cuts} "
              f"queries={self.stats.queries} solver_s={self.stats.solver_s:.2f} validated={self.traces_validated} wall={wall:.1f}s")
        if self.violations:
            for key, desc, path in self.violations:
                print(f"VIOLATION property={self.pid} replay={path}")
                print(f"  {key}: {desc}")
            return EXIT_VIOLATION
        if self.inconclusive:
            for m in self.inconclusive[:20]:
                print(f"INCONCLUSIVE: {m}", file=sys.stderr)
            return EXIT_INCONCLUSIVE
        return EXIT_OK
