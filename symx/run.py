"""CLI: python -m symx.run <ID> [--tier quick|thorough] [--replay path]"""
from __future__ import annotations

import argparse
import importlib
import os
import subprocess
import sys
import traceback

from .core import Inconclusive
from .report import EXIT_INCONCLUSIVE, PY, REPO, VERIF, Run


def main(argv=None):
    ap = argparse.ArgumentParser()
    ap.add_argument("pid")
    ap.add_argument("--tier", default=os.environ.get("VERIF_TIER", "quick"), choices=["quick", "thorough"])
    ap.add_argument("--replay")
    a = ap.parse_args(argv)
    pid = a.pid.upper()
    if a.replay:
        env = dict(os.environ)
        env["PYTHONPATH"] = REPO + os.pathsep + VERIF
        pr = subprocess.run([PY, a.replay], env=env, capture_output=True, text=True)
        sys.stdout.write(pr.stdout)
        sys.stderr.write(pr.stderr)
        rc = pr.returncode
        if rc == 1 and "MISMATCH" not in pr.stdout + pr.stderr:
            frames = [ln for ln in pr.stderr.splitlines() if ln.lstrip().startswith('File "')]
            if not (frames and os.path.join(REPO, "sigpyproc") + os.sep in frames[-1]):
                rc = EXIT_INCONCLUSIVE      # the replay script itself crashed: nothing was reproduced
        if rc == 1:
            print(f"VIOLATION property={pid} replay={a.replay}")
        return rc
    seed = int(os.environ.get("VERIF_SEED", "0") or 0)
    R = Run(pid, a.tier, seed)
    try:
        mod = importlib.import_module(f"symx.props.{pid.lower()}")
        mod.run(R)
    except Inconclusive as e:
        R.inconclusive_(f"{type(e).__name__}: {e}")
        traceback.print_exc()
    except Exception as e:  # harness crash: never a pass, never a violation
        R.inconclusive_(f"harness error {type(e).__name__}: {e}")
        traceback.print_exc()
    return R.finish()


if __name__ == "__main__":
    sys.exit(main())
