"""Builds the rebound (real-bytecode) I/O stack over the symbolic raw-file layer.

Every class here carries the *real* methods of /repo's current source, re-created
with a listed set of global names substituted (the stubs).  Nothing in the real
modules is mutated.
"""
from __future__ import annotations

import z3

from .arrays import MV, SymBuf, s_len
from .core import SInt, rebind, rebind_class, s_int, s_max, s_min, term
from .fileshim import FS, FileData, IOshim, NPfile, OSshim, SymFile, UnpackKernels

FILEIO_STUBS = ["io.FileIO->SymFile", "os.fstat/os.SEEK_*", "np.fromfile/frombuffer/concatenate/where/cumsum/zeros",
                "memoryview->MV", "len->s_len", "min->ite", "kernels.unpack*/pack* -> C03 contracts"]


def build_fileio(R=None):
    """returns dict(FileBase, FileReader, FileWriter, StreamInfo, unpack, pack, allocate_buffer)"""
    from sigpyproc.io import bits, fileio, sigproc
    kern = UnpackKernels()
    bsub = dict(np=NPfile, kernels=kern)
    unpack = rebind(bits.unpack, **bsub)
    pack = rebind(bits.pack, **bsub)
    sub = dict(io=IOshim, os=OSshim, np=NPfile, memoryview=MV, len=s_len, min=s_min, unpack=unpack, pack=pack)
    RB = rebind_class(fileio.FileBase, sub)
    RR = rebind_class(fileio.FileReader, sub, bases=(RB,))
    RW = rebind_class(fileio.FileWriter, sub, bases=(RB,))
    alloc = rebind(fileio.allocate_buffer, memoryview=MV, len=s_len)

    class SI(sigproc.StreamInfo):
        cumsum_datalens = rebind(sigproc.StreamInfo.__dict__["cumsum_datalens"], np=NPfile)

    if R is not None:
        R.encode(bits.unpack, bits.pack, fileio.allocate_buffer, sigproc.StreamInfo.__dict__["cumsum_datalens"],
                 sigproc.StreamInfo.get_combined, sigproc.StreamInfo.get_info_list)
        for cls in (fileio.FileBase, fileio.FileReader):
            for n, v in vars(cls).items():
                if callable(v) or isinstance(v, property):
                    if n.startswith("__") and n not in ("__init__", "__enter__", "__exit__"):
                        continue
                    R.encode(v)
        R.stub(*FILEIO_STUBS)
    return dict(FileBase=RB, FileReader=RR, FileWriter=RW, StreamInfo=SI, unpack=unpack, pack=pack,
                allocate_buffer=alloc, sigproc=sigproc)


def make_files(ctx, nfiles, itemsize=1, min_data=0, prefix=""):
    """declare nfiles symbolic raw files; returns (names, hdrlens, datalens, total)"""
    FS.reset()
    names, hl, dl = [], [], []
    cum = z3.IntVal(0)
    for i in range(nfiles):
        h, d = z3.Int(f"{prefix}h{i}"), z3.Int(f"{prefix}d{i}")
        ctx.assume(z3.And(h >= 0, d >= min_data))
        if itemsize > 1:
            ctx.assume(d % itemsize == 0)
        name = f"{prefix}f{i}"
        FS.files[name] = FileData(name, i, h, d, cum)
        cum = cum + d
        names.append(name)
        hl.append(h)
        dl.append(d)
    return names, hl, dl, cum


def make_reader(st, names, nbits):
    """real FileReader.__init__ over the symbolic files"""
    sp = st["sigproc"]
    ents = [sp.FileInfo(filename=n, hdrlen=SInt(FS.files[n].hdrlen), datalen=SInt(FS.files[n].datalen),
                        nsamples=SInt(FS.files[n].datalen), tstart=0.0, tsamp=1.0) for n in names]
    return st["FileReader"](st["StreamInfo"](ents), mode="r", nbits=nbits)
