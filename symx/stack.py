"""Builds the rebound (real-bytecode) I/O stack over the symbolic raw-file layer.

Every class here carries the *real* methods of /repo's current source, re-created
with a listed set of global names substituted (the stubs).  Nothing in the real
modules is mutated.
"""
from __future__ import annotations

import z3

from .arrays import MV, SymBuf, s_len
from .core import SInt, rebind, rebind_class, s_int, s_max, s_min, term
from .fileshim import FS, FileData, IOshim, NPfile, OSshim, SymFile, UnpackKernels

FILEIO_STUBS = ["io.FileIO->SymFile", "os.fstat/os.SEEK_*", "np.fromfile/frombuffer/concatenate/where/cumsum/zeros",
                "memoryview->MV", "len->s_len", "min->ite", "kernels.unpack*/pack* -> C03 contracts"]


def build_fileio(R=None):
    """returns dict(FileBase, FileReader, FileWriter, StreamInfo, unpack, pack, allocate_buffer)"""
    from sigpyproc.io import bits, fileio, sigproc
    kern = UnpackKernels()
    bsub = dict(np=NPfile, kernels=kern)
    unpack = rebind(bits.unpack, **bsub)
    pack = rebind(bits.pack, **bsub)
    sub = dict(io=IOshim, os=OSshim, np=NPfile, memoryview=MV, len=s_len, min=s_min, unpack=unpack, pack=pack)
    RB = rebind_class(fileio.FileBase, sub)
    RR = rebind_class(fileio.FileReader, sub, bases=(RB,))
    RW = rebind_class(fileio.FileWriter, sub, bases=(RB,))
    alloc = rebind(fileio.allocate_buffer, memoryview=MV, len=s_len)

    class SI(sigproc.StreamInfo):
        cumsum_datalens = rebind(sigproc.StreamInfo.__dict__["cumsum_datalens"], np=NPfile)

    if R is not None:
        R.encode(bits.unpack, bits.pack, fileio.allocate_buffer, sigproc.StreamInfo.__dict__["cumsum_datalens"],
                 sigproc.StreamInfo.get_combined, sigproc.StreamInfo.get_info_list)
        for cls in (fileio.FileBase, fileio.FileReader):
            for n, v in vars(cls).items():
                if callable(v) or isinstance(v, property):
                    if n.startswith("__") and n not in ("__init__", "__enter__", "__exit__"):
                        continue
                    R.encode(v)
        R.stub(*FILEIO_STUBS)
    return dict(FileBase=RB, FileReader=RR, FileWriter=RW, StreamInfo=SI, unpack=unpack, pack=pack,
                allocate_buffer=alloc, sigproc=sigproc)


def make_files(ctx, nfiles, itemsize=1, min_data=0, prefix=""):
    """declare nfiles symbolic raw files; returns (names, hdrlens, datalens, total)"""
    FS.reset()
    names, hl, dl = [], [], []
    cum = z3.IntVal(0)
    for i in range(nfiles):
        h, d = z3.Int(f"{prefix}h{i}"), z3.Int(f"{prefix}d{i}")
        ctx.assume(z3.And(h >= 0, d >= min_data))
        if itemsize > 1:
            ctx.assume(d % itemsize == 0)
        name = f"{prefix}f{i}"
        FS.files[name] = FileData(name, i, h, d, cum)
        cum = cum + d
        names.append(name)
        hl.append(h)
        dl.append(d)
    return names, hl, dl, cum


def make_reader(st, names, nbits):
    """real FileReader.__init__ over the symbolic files"""
    sp = st["sigproc"]
    ents = [sp.FileInfo(filename=n, hdrlen=SInt(FS.files[n].hdrlen), datalen=SInt(FS.files[n].datalen),
                        nsamples=SInt(FS.files[n].datalen), tstart=0.0, tsamp=1.0) for n in names]
    return st["FileReader"](st["StreamInfo"](ents), mode="r", nbits=nbits)


# ---------------------------------------------------------------- FilReader layer

class RecHeader:
    """Header stand-in: concrete channelisation, symbolic nsamples; records derived headers.
    (The real Header is an attrs class validated by astropy; its field arithmetic is the
    subject of C05/C08, not of the streaming properties.)"""

    def __init__(self, nchans, nsamples, nbits, fch1=1500.0, foff=-1.0, tsamp=1.0, parent=None, updates=None):
        self.nchans, self.nsamples, self.nbits = nchans, nsamples, nbits
        self.fch1, self.foff, self.tsamp = fch1, foff, tsamp
        self.basename = "sym"
        self.updates = updates
        self.parent = parent
        self.derived = [] if parent is None else parent.derived

    @property
    def dtype(self):
        from sigpyproc.io.bits import BitsInfo
        return BitsInfo(self.nbits).dtype

    def mjd_after_nsamps(self, n):
        return ("mjd_after_nsamps", n)

    def __getattr__(self, name):
        # anything else the library asks of a header (band geometry, ids, ...) is the real Header's own property / method
        # evaluated on this stand-in's fields
        if name.startswith("__"):
            raise AttributeError(name)
        from sigpyproc.header import Header
        a = Header.__dict__.get(name)
        if isinstance(a, property):
            return a.fget(self)
        if callable(a):
            import types as _t
            return _t.MethodType(a, self)
        raise AttributeError(name)

    def new_header(self, update_dict=None):
        h = RecHeader(self.nchans, self.nsamples, self.nbits, self.fch1, self.foff, self.tsamp, parent=self,
                      updates=dict(update_dict or {}))
        for k, v in (update_dict or {}).items():
            if k in ("nchans", "nsamples", "nbits", "fch1", "foff", "tsamp"):
                setattr(h, k, v)
        self.derived.append(h)
        return h


class RecBlock:
    """FilterbankBlock / TimeSeries recorder"""

    def __init__(self, data, header, dm=0, *a, **k):
        self.data, self.header, self.dm = data, header, dm
        # the real containers (TimeSeries._check_input / FilterbankBlock) reject a header whose
        # nsamples differs from the data length
        n = getattr(data, "length", None) if getattr(data, "ndim", 1) == 1 else getattr(data, "cols", None)
        hn = getattr(header, "nsamples", None)
        if n is not None and hn is not None:
            from .core import SBool, term
            if SBool(term(hn) != n):
                raise ValueError("Input data length does not match header nsamples (symbolic)")


def passthrough_track(it, **kw):
    return it


READER_STUBS = ["np.frombuffer -> functional view", "bytearray -> SymBuf", "memoryview -> MV", "int -> trunc on symbolic reals",
                "min -> ite", "rich.progress.track -> identity", "FilterbankBlock/TimeSeries -> recorder", "Header -> RecHeader (records new_header updates)"]


def build_filreader(R=None, st=None):
    """rebound FilReader class (real read_plan/read_block/... bytecode)"""
    from sigpyproc import readers
    st = st or build_fileio(R)
    sub = dict(np=NPfile, allocate_buffer=st["allocate_buffer"], track=passthrough_track, memoryview=MV, bytearray=SymBuf,
               int=s_int, min=s_min, max=s_max, len=s_len, FilterbankBlock=RecBlock, FileReader=st["FileReader"])
    RF = rebind_class(readers.FilReader, sub, name="RFilReader")
    if R is not None:
        R.encode(readers.FilReader.read_plan, readers.FilReader.read_block, readers.FilReader.__dict__["chan_stride"],
                 readers.FilReader.__dict__["samp_stride"], readers.FilReader.__dict__["bitsinfo"])
        R.stub(*READER_STUBS)
    st = dict(st)
    st["FilReader"] = RF
    return st


def make_filreader(ctx, st, nbits, nchans, nfiles, cls=None):
    """A FilReader over nfiles symbolic files holding n_i whole samples each.
    returns (reader, N term, samples-per-file terms)"""
    from sigpyproc.io.bits import BitsInfo
    bi = BitsInfo(nbits)
    stride_bits = nchans * nbits
    assert stride_bits % 8 == 0
    stride = stride_bits // 8
    names, hl, dl, T = make_files(ctx, nfiles)
    ns = []
    for i, d in enumerate(dl):
        n = z3.Int(f"n{i}")
        ctx.assume(z3.And(n >= 0, d == n * stride))
        ns.append(n)
    N = z3.Sum(ns) if len(ns) > 1 else ns[0]
    ctx.assume(N >= 1)
    cls = cls or st["FilReader"]
    r = object.__new__(cls)
    r._filenames = names
    r._header = RecHeader(nchans, SInt(N), nbits)
    r._file = make_reader(st, names, nbits)
    return r, N, ns, (hl, dl)
