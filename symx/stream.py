"""Streaming layer for the E2 engine: rebound Filterbank methods (base.py) on top of the rebound
FilReader, numpy stubs on functional arrays, kernel *contracts* (established from the numba IR
by symx.contracts) and recorders for the containers / writers."""
from __future__ import annotations

from contextlib import ExitStack

import numpy as np
import z3

from .arrays import F2, FArr, MV, SymBuf, _r, iterm, s_len
from .core import (Ctx, SBool, SInt, SReal, Unsupported, is_sym, rebind, rebind_class, s_int, s_max, s_min, term, wrap)
from .fileshim import FS, NPfile, SymFile
from .stack import RecBlock, RecHeader, build_fileio, make_files, make_reader, passthrough_track

RealS, IntS = z3.RealSort(), z3.IntSort()


class KC:
    """Kernel contracts on functional arrays.  Each call is logged; `pre` collects the
    preconditions (index ranges) the real kernel relies on - numba does no bounds checking,
    so a violated precondition is undefined behaviour and is reported as a violation."""

    def __init__(self):
        self.calls = []
        self.pre = []

    def need(self, name, cond):
        self.pre.append((name, cond))

    # out[index+i] = sum_c in[nchans*i + c],  i < nsamps
    def extract_tim(self, inarray, outarray, nchans, nsamps, index):
        C = int(nchans)
        n, idx = iterm(nsamps), iterm(index)
        self.need("extract_tim: input holds nsamps*nchans elements", inarray.length >= C * n)
        self.need("extract_tim: writes inside the output", z3.And(idx >= 0, idx + n <= outarray.length))
        f, old = inarray.snapshot(), outarray.fn
        self.calls.append(("extract_tim", n, idx))
        outarray.fn = lambda k: z3.If(z3.And(k >= idx, k < idx + n), z3.Sum([_r(f(C * (k - idx) + c)) for c in range(C)]), old(k))

    # out[c] += sum_{i<nsamps} in[nchans*i + c]   (abstract: the segment is recorded, the harness checks the tiling)
    def extract_bpass(self, inarray, outarray, nchans, nsamps):
        C = int(nchans)
        n = iterm(nsamps)
        self.need("extract_bpass: input holds nsamps*nchans elements", inarray.length >= C * n)
        self.need("extract_bpass: output holds nchans elements", outarray.length >= C)
        self.calls.append(("extract_bpass", n, inarray.snapshot(), outarray))
        k = len([c for c in self.calls if c[0] == "extract_bpass"])
        acc = z3.Function(f"BPACC{k}", IntS, RealS)
        outarray.fn = lambda c: acc(c)
        outarray.accumulated = getattr(outarray, "accumulated", []) + [(inarray.snapshot(), n)]

    # out[index+i] += sum_c in[nchans*(i+d_c)+c],  i < nsamps - maxdelay
    def dedisperse(self, inarray, outarray, delays, maxdelay, nchans, nsamps, index):
        C = int(nchans)
        n, idx, D = iterm(nsamps), iterm(index), iterm(maxdelay)
        d = [iterm(delays[c]) for c in range(C)]
        self.need("dedisperse: input holds nsamps*nchans elements", inarray.length >= C * n)
        self.need("dedisperse: 0<=delay<=maxdelay", z3.And([z3.And(x >= 0, x <= D) for x in d]))
        self.need("dedisperse: writes inside the output", z3.Or(n - D <= 0, z3.And(idx >= 0, idx + (n - D) <= outarray.length)))
        f, old = inarray.snapshot(), outarray.fn
        self.calls.append(("dedisperse", n, idx, D))
        outarray.fn = lambda k: z3.If(z3.And(k >= idx, k < idx + (n - D)),
                                      _r(old(k)) + z3.Sum([_r(f(C * ((k - idx) + d[c]) + c)) for c in range(C)]), old(k))

    # --- file-to-file kernels (C07)
    def invert_freq(self, array, nchans, nsamps):
        C = int(nchans)
        n = iterm(nsamps)
        self.need("invert_freq: input holds nsamps*nchans elements", array.length >= C * n)
        f = array.snapshot()
        g = z3.Function(f"garbage_inv!{len(self.calls)}", IntS, IntS if array.dt != "f4" else RealS)
        self.calls.append(("invert_freq", n))
        # np.empty_like(array): elements beyond nsamps*nchans stay uninitialised
        return FArr(array.length, lambda k: z3.If(z3.And(k >= 0, k < C * n), f(C * (k / C) + (C - 1 - k % C)), g(k)), array.dt, "inverted")

    def mask_channels(self, array, mask, maskvalue, nchans, nsamps):
        C = int(nchans)
        n = iterm(nsamps)
        self.need("mask_channels: array holds nsamps*nchans elements", array.length >= C * n)
        mv = maskvalue.e if is_sym(maskvalue) else term(maskvalue)
        f = array.snapshot()
        mk = [mask[c] for c in range(C)]
        mk = [m.e if isinstance(m, SBool) else z3.BoolVal(bool(m)) for m in mk]
        self.calls.append(("mask_channels", n))

        def g(k):
            r = f(k)
            sel = z3.BoolVal(False)
            for c in range(C):
                sel = z3.If(k % C == c, mk[c], sel)
            val = mv if r.sort() == mv.sort() else (z3.ToReal(mv) if r.sort() == RealS else mv)
            return z3.If(z3.And(k >= 0, k < C * n, sel), val, r)
        _write_through(array, g)

    def downsample_2d_mean_flat(self, array, factor1, factor2, dim1, dim2):
        f1, f2 = int(factor1), int(factor2)
        d1, d2 = iterm(dim1), iterm(dim2)
        nd1, nd2 = d1 / f1, d2 / f2
        self.need("downsample: input holds dim1*dim2 elements", array.length >= d1 * d2)
        f = array.snapshot()
        self.calls.append(("downsample_2d_mean_flat", d1, d2))
        dt = array.dt

        def g(k):
            i, j = k / nd2, k % nd2
            tot = z3.Sum([_r(f(d2 * i * f1 + j * f2 + a * d2 + b)) for a in range(f1) for b in range(f2)]) / (f1 * f2)
            return cast_store(tot, dt)
        return FArr(z3.simplify(nd1 * nd2), g, dt, "downsampled")

    def subband(self, inarray, outarray, delays, chan_to_sub, maxdelay, nchans, nsubs, nsamps):
        C, NS = int(nchans), int(nsubs)
        n, D = iterm(nsamps), iterm(maxdelay)
        d = [iterm(delays[c]) for c in range(C)]
        c2s = [int(chan_to_sub[c]) for c in range(C)]
        self.need("subband: input holds nsamps*nchans elements", inarray.length >= C * n)
        self.need("subband: 0<=delay<=maxdelay", z3.And([z3.And(x >= 0, x <= D) for x in d]))
        self.need("subband: chan_to_sub < nsubs", z3.BoolVal(all(0 <= s < NS for s in c2s)))
        self.need("subband: writes inside the output", z3.Or(n - D <= 0, NS * (n - D) <= outarray.length))
        f, old = inarray.snapshot(), outarray.fn
        self.calls.append(("subband", n, D))

        def g(k):
            i, s = k / NS, k % NS
            r = _r(old(k))
            add = z3.RealVal(0)
            for sub in range(NS):
                tot = z3.Sum([_r(f(C * (i + d[c]) + c)) for c in range(C) if c2s[c] == sub] or [z3.RealVal(0)])
                add = z3.If(s == sub, tot, add)
            return z3.If(z3.And(k >= 0, k < NS * (n - D)), r + add, old(k))
        outarray.fn = g

    def remove_zerodm(self, inarray, outarray, bpass, chanwts, nchans, nsamps):
        C = int(nchans)
        n = iterm(nsamps)
        self.need("remove_zerodm: input holds nsamps*nchans elements", inarray.length >= C * n)
        self.need("remove_zerodm: output holds nsamps*nchans elements", outarray.length >= C * n)
        f, old = inarray.snapshot(), outarray.fn
        bp, cw = bpass.snapshot(), chanwts.snapshot()
        dt = outarray.dt
        self.calls.append(("remove_zerodm", n))

        def g(k):
            i, c = k / C, k % C
            zdm = z3.Sum([_r(f(C * i + cc)) for cc in range(C)])
            res = (_r(f(k)) - zdm * _r(cw(c))) + _r(bp(c))
            return z3.If(z3.And(k >= 0, k < C * n), cast_store(res, dt), old(k))
        outarray.fn = g


TRUNC = z3.Function("TRUNC", RealS, IntS)   # abstract float->integer store (used by the streaming harnesses)
ABSTRACT_CAST = [True]


def cast_store(t, dt):
    """store of a float64 value into an array of dtype dt (numba: truncation toward zero for integers;
    out-of-range results are outside the exactness premise).  The streaming harnesses only need
    *which value* is stored where, so there the conversion is an uninterpreted function (congruence
    decides equality); the contract establishment (symx.contracts) uses the concrete formula."""
    if dt in ("f4", "f8"):
        return t
    if ABSTRACT_CAST[0]:
        return TRUNC(t)
    fl = z3.ToInt(t)
    return z3.If(z3.Or(t >= 0, z3.ToReal(fl) == t), fl, fl + 1)


def _write_through(arr, g):
    wt = getattr(arr, "write_through", None)
    if wt is not None:
        wt(arr.length, g)
    else:
        arr.fn = g
        arr.snap = None     # the kernel's result is the content of this array object from now on


class RecStats:
    """ChannelStats recorder"""
    instances = []

    def __init__(self, nchans, nsamps):
        self.nchans, self.nsamps, self.pushes = nchans, nsamps, []
        RecStats.instances.append(self)

    def push_data(self, array, start_index, mode="basic"):
        self.pushes.append((array.snapshot(), array.length, start_index, mode))


class SymList:
    """small concrete-length sequence of symbolic scalars with numpy-ish surface (delays, masks)"""
    _symx_seq = True

    def __init__(self, items, maxv=None):
        self.items, self.maxv = list(items), maxv

    def __getitem__(self, k):
        return self.items[k]

    def __len__(self):
        return len(self.items)

    def max(self):
        return self.maxv if self.maxv is not None else s_max(*self.items)

    def astype(self, *a, **k):
        return self

    @property
    def fn(self):
        items = [term(x) for x in self.items]

        def f(k):
            r = items[-1]
            for i in range(len(items) - 2, -1, -1):
                r = z3.If(k == i, items[i], r)
            return r
        return f


class _F32:
    """np.float32(mask_value): only .astype(dtype) is used on it"""

    def __init__(self, v):
        self.v = v

    def astype(self, dt):
        return self.v


class _NPbase:
    """numpy names used by base.py on functional arrays (trusted stubs); anything else is real numpy"""

    def __getattr__(self, n):
        return getattr(np, n)

    class _F32T:
        _symx_dt = "f4"

        def __call__(self, v):
            return _F32(v) if is_sym(v) else np.float32(v)

    float32 = _F32T()

    def zeros(self, shape, dtype=None):
        import symx.arrays as A
        if not is_sym(shape) and not isinstance(shape, tuple):
            pass
        dt = A._dt(dtype)
        zero = z3.RealVal(0) if dt in ("f4", "f8") else z3.IntVal(0)
        return FArr(shape, lambda k: zero, dt, "zeros")

    def empty(self, shape, dtype=None):
        import symx.arrays as A
        dt = A._dt(dtype)
        Ctx.cur.nfresh += 1
        g = z3.Function(f"uninit!{Ctx.cur.nfresh}", IntS, RealS if dt in ("f4", "f8") else IntS)
        a = FArr(shape, lambda k: g(k), dt, "empty")
        a.uninit = g
        return a

    def array(self, x, *a, **k):
        if isinstance(x, (SymList, FArr)):
            return x
        return np.array(x, *a, **k)

    def ceil(self, x):
        if isinstance(x, SReal):
            return SReal(z3.ToReal(x.ceil().e))
        return np.ceil(x)


NPbase = _NPbase()


class HdrBytes:
    """the encoded header written first into every output file (content: C05; here only identity + length)"""

    def __init__(self, hdr):
        self.hdr = hdr
        self.length = z3.Int(f"outhdrlen!{id(hdr) % 100000}")

    def slen(self):
        return SInt(self.length)


class SigprocStub:
    @staticmethod
    def encode_header(d):
        return HdrBytes(d)


class StreamHeader(RecHeader):
    """RecHeader + the real Header.prep_outfile bytecode"""

    def to_sigproc(self):
        return self

    def new_header(self, update_dict=None):
        h = StreamHeader(self.nchans, self.nsamples, self.nbits, self.fch1, self.foff, self.tsamp, parent=self, updates=dict(update_dict or {}))
        for k, v in (update_dict or {}).items():
            if k in ("nchans", "nsamples", "nbits", "fch1", "foff", "tsamp"):
                setattr(h, k, v)
        h.delays = getattr(self, "delays", None)
        self.derived.append(h)
        return h

    def get_dmdelays(self, dm, *a, **k):
        return self.delays



BASE_STUBS = ["np.zeros/empty -> functional arrays (np.empty = fresh uninterpreted garbage)", "kernels.* -> contracts (established from the numba IR, see kernel_contracts in the evidence)",
              "TimeSeries/FoldedData -> recorder", "ChannelStats -> recorder of pushed segments", "Header -> StreamHeader (real prep_outfile bytecode, encode_header -> opaque bytes)",
              "max/min -> ite", "int -> trunc"]


def build_stream(R=None):
    from sigpyproc import base, header, readers
    from .stack import build_filreader, READER_STUBS
    st = build_fileio(R)
    kc_holder = {"kc": KC()}

    class KCproxy:
        def __getattr__(self, n):
            return getattr(kc_holder["kc"], n)
    sub = dict(np=NPbase, kernels=KCproxy(), TimeSeries=RecBlock, ChannelStats=RecStats, FoldedData=RecBlock, int=s_int, max=s_max, min=s_min,
               len=s_len, ExitStack=ExitStack)
    RFB = rebind_class(base.Filterbank, sub, name="RFilterbank")
    rsub = dict(np=NPfile, allocate_buffer=st["allocate_buffer"], track=passthrough_track, memoryview=MV, bytearray=SymBuf,
                int=s_int, min=s_min, max=s_max, len=s_len, FilterbankBlock=RecBlock, FileReader=st["FileReader"])
    RF = rebind_class(readers.FilReader, rsub, bases=(RFB,), name="RFilReader")
    StreamHeader.prep_outfile = rebind(header.Header.prep_outfile, FileWriter=st["FileWriter"], sigproc=SigprocStub)
    # band geometry: the real Header properties (their bytecode runs on the stand-in's fch1 / foff / nchans)
    for nm in ("bandwidth", "ftop", "fbottom", "fcenter", "chan_freqs", "fmax", "fmin"):
        setattr(StreamHeader, nm, property(getattr(header.Header, nm).fget))
    if R is not None:
        R.encode(readers.FilReader.read_plan, header.Header.prep_outfile)
        R.stub(*READER_STUBS)
        R.stub(*BASE_STUBS)
    st = dict(st)
    st.update(Filterbank=RFB, FilReader=RF, kc=kc_holder, base=base)
    return st


def make_fil(ctx, st, nbits, nchans, nfiles, delays=None):
    """FilReader (rebound) over symbolic files with a StreamHeader; resets the contract log."""
    stride = nchans * nbits // 8
    names, hl, dl, T = make_files(ctx, nfiles)
    ns = []
    for i, d in enumerate(dl):
        n = z3.Int(f"n{i}")
        ctx.assume(z3.And(n >= 0, d == n * stride))
        ns.append(n)
    N = z3.Sum(ns) if len(ns) > 1 else ns[0]
    ctx.assume(N >= 1)
    st["kc"]["kc"] = KC()
    RecStats.instances = []
    r = object.__new__(st["FilReader"])
    r._filenames = names
    r._header = StreamHeader(nchans, SInt(N), nbits)
    r._header.delays = delays
    r._file = make_reader(st, names, nbits)
    r._chan_stats = None
    import logging
    r.logger = logging.getLogger("symx")
    return r, N, ns
