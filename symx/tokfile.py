"""Token-level model of binary header files: `struct` and file objects as trusted stubs.

A byte string is a sequence of tokens: raw concrete bytes, or ("pack", fmt, term) = the
struct.pack(fmt, v) image of a symbolic value v (pack/unpack are bijections between values of the
format and byte strings of its size - trusted).  Key names, string values and all lengths are
concrete, so parsing proceeds concretely while field *values* stay symbolic."""
from __future__ import annotations

import struct as _struct

import z3

from .core import SBool, SInt, SReal, Unsupported, is_sym, term, wrap


class SB:
    """symbolic byte string"""

    def __init__(self, tokens=()):
        self.tokens = []
        for t in tokens:
            self._push(t)

    def _push(self, t):
        if t[0] == "raw":
            if not t[1]:
                return
            if self.tokens and self.tokens[-1][0] == "raw":
                self.tokens[-1] = ("raw", self.tokens[-1][1] + t[1])
                return
        self.tokens.append(t)

    @staticmethod
    def of(x):
        if isinstance(x, SB):
            return x
        if isinstance(x, (bytes, bytearray)):
            return SB([("raw", bytes(x))])
        raise Unsupported(f"bytes-like {type(x).__name__}")

    def __add__(self, o):
        return SB(self.tokens + SB.of(o).tokens)

    def __radd__(self, o):
        return SB(SB.of(o).tokens + self.tokens)

    def __len__(self):
        return sum(len(t[1]) if t[0] == "raw" else _struct.calcsize(t[1]) for t in self.tokens)

    def slen(self):
        return len(self)

    def decode(self, *a):
        if len(self.tokens) == 1 and self.tokens[0][0] == "raw":
            return self.tokens[0][1].decode(*a)
        if not self.tokens:
            return ""
        raise Unsupported("decode of symbolic bytes")

    def flat(self):
        """list of ('byte', int) | ('pack', fmt, term) for comparison"""
        out = []
        for t in self.tokens:
            if t[0] == "raw":
                out.extend(("byte", b) for b in t[1])
            else:
                out.append(t)
        return out


def differs(a, b):
    """z3 condition: the two symbolic byte strings differ (None if they differ structurally)"""
    fa, fb = SB.of(a).flat(), SB.of(b).flat()
    if len(fa) != len(fb):
        return z3.BoolVal(True)
    conds = []
    for x, y in zip(fa, fb):
        if x[0] != y[0]:
            return z3.BoolVal(True)
        if x[0] == "byte":
            if x[1] != y[1]:
                return z3.BoolVal(True)
        else:
            if x[1].lstrip("<>=@!") != y[1].lstrip("<>=@!"):
                return z3.BoolVal(True)
            conds.append(x[2] != y[2])
    return z3.Or(conds) if conds else z3.BoolVal(False)


class StructShim:
    error = _struct.error
    calcsize = staticmethod(_struct.calcsize)

    @staticmethod
    def pack(fmt, *vals):
        if not any(is_sym(v) for v in vals):
            return _struct.pack(fmt, *vals)
        if len(vals) != 1:
            raise Unsupported("multi-value pack")
        v = vals[0]
        code = fmt.lstrip("<>=@!")
        if code in ("I", "i", "b", "B", "H", "h", "q", "Q"):
            if not isinstance(v, SInt):
                raise _struct.error("required argument is not an integer (symbolic)")
            lo, hi = {"I": (0, 2**32 - 1), "i": (-2**31, 2**31 - 1), "b": (-128, 127), "B": (0, 255), "H": (0, 65535),
                      "h": (-32768, 32767), "q": (-2**63, 2**63 - 1), "Q": (0, 2**64 - 1)}[code]
            if not SBool(z3.And(v.e >= lo, v.e <= hi)):
                raise _struct.error("argument out of range (symbolic)")
            return SB([("pack", fmt, v.e)])
        if code in ("d", "f"):
            t = v.e if isinstance(v, SReal) else z3.ToReal(v.e)
            return SB([("pack", fmt, t)])
        raise Unsupported(f"struct format {fmt}")

    @staticmethod
    def unpack(fmt, b):
        if isinstance(b, (bytes, bytearray)):
            return _struct.unpack(fmt, b)
        b = SB.of(b)
        if len(b) != _struct.calcsize(fmt):
            raise _struct.error(f"unpack requires a buffer of {_struct.calcsize(fmt)} bytes")
        if len(b.tokens) == 1 and b.tokens[0][0] == "raw":
            return _struct.unpack(fmt, b.tokens[0][1])
        if len(b.tokens) == 1 and b.tokens[0][0] == "pack" and b.tokens[0][1].lstrip("<>=@!") == fmt.lstrip("<>=@!"):
            t = b.tokens[0][2]
            return (SInt(t) if t.sort() == z3.IntSort() else SReal(t),)
        # bytes of another format / mixed tokens: a value unrelated to what was packed
        code = fmt.lstrip("<>=@!")
        g = z3.FreshConst(z3.IntSort() if code not in ("d", "f") else z3.RealSort(), "reinterpreted")
        return (SInt(g) if code not in ("d", "f") else SReal(g),)


class TokFile:
    """binary file: header (symbolic byte string) followed by `datalen` opaque data bytes"""

    def __init__(self, header, datalen=0):
        self.content = SB.of(header)
        self.datalen = datalen
        self.pos = 0
        self.writes = []

    def read(self, n=-1):
        hl = len(self.content)
        if n < 0:
            raise Unsupported("read to EOF")
        if self.pos + n > hl:
            # reading into the data section: only whole-value reads past the header are unsupported
            avail = max(0, hl - self.pos)
            if avail == 0:
                g = z3.FreshConst(z3.IntSort(), "databytes")
                self.pos += n
                return SB([("pack", {1: "B", 2: "H", 4: "I", 8: "Q"}.get(n, "I"), g)]) if n in (1, 2, 4, 8) else SB([("raw", b"\0" * n)])
            raise _struct.error("short read at the header/data boundary")
        out, p = [], 0
        need_lo, need_hi = self.pos, self.pos + n
        for t in self.content.tokens:
            size = len(t[1]) if t[0] == "raw" else _struct.calcsize(t[1])
            lo, hi = p, p + size
            a, b = max(lo, need_lo), min(hi, need_hi)
            if a < b:
                if t[0] == "raw":
                    out.append(("raw", t[1][a - lo:b - lo]))
                elif a == lo and b == hi:
                    out.append(t)
                else:
                    raise Unsupported("read splits a packed value")
            p = hi
        self.pos += n
        res = SB(out)
        if len(res.tokens) == 1 and res.tokens[0][0] == "raw":
            return res.tokens[0][1]
        if not res.tokens:
            return b""
        return res

    def tell(self):
        return self.pos

    def seek(self, off, whence=0):
        if whence == 0:
            self.pos = off
        elif whence == 2:
            self.pos = len(self.content) + self.datalen + off
        else:
            self.pos += off
        return self.pos

    def write(self, b):
        b = SB.of(b)
        self.writes.append((self.pos, b))
        hl = len(self.content)
        if self.pos == 0 and len(b) == hl:
            self.content = b
        else:
            self.corrupted = True
        self.pos += len(b)
        return len(b)

    def __enter__(self):
        return self

    def __exit__(self, *a):
        return False


class TokPath:
    def __init__(self, f, name="hdr.fil"):
        self.f, self.name = f, name
        self.opened = []

    def open(self, mode="rb"):
        self.opened.append(mode)
        self.f.pos = 0
        return self.f

    def as_posix(self):
        return self.name
