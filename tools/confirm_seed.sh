#!/bin/bash
# tools/confirm_seed.sh <dir with patch.diff demo.py meta.json> <seed-id>   (e.g. C02-1)
# Confirms in a scratch worktree of /repo HEAD: patch applies, baseline suite result unchanged,
# demo fails with the patch and passes without. On success stores it under /verif/seeded/<seed-id>/.
src=$1; id=$2
wt=/tmp/wt_confirm_$$
git -C /repo worktree add -q $wt HEAD || exit 3
trap 'git -C /repo worktree remove --force '$wt EXIT
cp -r /repo/sigpyproc.egg-info $wt/ 2>/dev/null
cd $wt
git apply $src/patch.diff || { echo "APPLY FAILED"; exit 3; }
tests=$(/venv/bin/python -m pytest -q -p no:cacheprovider -n 8 --timeout=900 2>&1 | tail -1)
echo "tests with patch: $tests"
/venv/bin/python $src/demo.py >/tmp/demo_$$.out 2>&1; d1=$?
echo "demo with patch exit=$d1"; tail -3 /tmp/demo_$$.out
git checkout -q -- .
/venv/bin/python $src/demo.py >/tmp/demo_$$.out 2>&1; d0=$?
echo "demo without patch exit=$d0"
rm -f /tmp/demo_$$.out
case "$tests" in *"2 failed, 495 passed"*) ok=1;; *) ok=0;; esac
if [ $ok = 1 ] && [ $d1 != 0 ] && [ $d0 = 0 ]; then
  mkdir -p /verif/seeded/$id && cp $src/patch.diff $src/demo.py /verif/seeded/$id/
  python3 - "$src/meta.json" "/verif/seeded/$id/meta.json" "$tests" <<'PY'
import json,sys
m=json.load(open(sys.argv[1])); m["confirmed"]={"tests_with_patch":sys.argv[3],"demo_with_patch":"exit!=0","demo_without_patch":"exit 0","how":"tools/confirm_seed.sh in a scratch worktree of /repo HEAD"}
json.dump(m,open(sys.argv[2],"w"),indent=1)
PY
  echo "STORED $id"
else echo "NOT CONFIRMED $id"; exit 1; fi
