#!/usr/bin/env python3
"""Regenerates /verif/MANIFEST.json from the table below (single source of truth)."""
import json
import os

HERE = os.path.dirname(os.path.dirname(os.path.abspath(__file__)))

CHECKS = {
    "C02": dict(
        engine="E2 pysym (re-executing DSE of the real FileBase/FileReader bytecode) + z3",
        technique="dynamic symbolic execution of the real Python bytecode over symbolic raw files; z3 (LIA+UF) decides each obligation; models replayed on the real FileReader",
        text="Bounded symbolic model checking: every feasible path of the real seek/_seek_set/_seek2hdr/cread/creadinto/eos/cur_data_pos_stream "
             "code is executed over 1..3 files with unbounded symbolic header/data lengths. One inductive step from an arbitrary valid "
             "pre-state (any file, any position in its data section) plus one operation with symbolic arguments covers histories of any "
             "length; short histories from the freshly opened reader are unrolled as well. z3 shows the negated obligations unsat per path "
             "(values compared through an uninterpreted byte-array model, Skolem index), or returns a model that is replayed on the real "
             "FileReader over real files.",
        note="Trusted stubs: io.FileIO/os.fstat/np.fromfile/np.frombuffer semantics, bit-kernel contracts (C03). Files >= 1 data byte in the "
             "inductive step; 16/32-bit lengths/offsets multiples of the item size; histories longer than the unrolled bound rely on the invariant.",
        design="DESIGN.md section 4 (C02)"),
}

CHECKS["C01"] = dict(
    engine="E2 pysym (re-executing DSE of the real FilReader.read_plan + FileReader stack) + z3",
    technique="dynamic symbolic execution of the real read_plan/creadinto/seek bytecode over symbolic raw files; z3 (LIA+UF) decides tiling/value obligations per path; models replayed on the real FilReader",
    text="Bounded symbolic model checking of the block plan: N, gulp, start, nsamps (or None), skipback and the per-file sample counts are "
         "unbounded integers, the file set has 1..3 files, every depth {1,2,4,8,16,32}; every feasible path with at most 3 (quick) / 5 (thorough) "
         "blocks is executed on the real bytecode. Per path z3 proves: rejection only before the first yield, never for 2*skipback<=gulp, always "
         "for skipback>=gulp; each block is the stream slice at start+sum(len-skipback), 1<=len<=gulp, count=len/nchans, inside the request, "
         "last block ends at start+nsamps; every yielded element equals the model value (Skolem index, uninterpreted byte stream).",
    note="Trusted: io.FileIO/np.frombuffer semantics, C03 bit-kernel contracts, default allocator. Plans with more blocks than the bound or "
         "initial quotient nsamps//(gulp-skipback) above it are cut (counted in the evidence) and outside the claim.",
    design="DESIGN.md section 4 (C01)")

CHECKS["C03"] = dict(
    engine="E1 nbsym (symbolic interpreter of numba's typed IR, 8/64-bit bit-vectors) + E2 pysym on the bits.pack/unpack wrappers; z3",
    technique="symbolic execution of numba's typed IR of the 12 bit kernels over bit-vectors (all byte values), plus DSE of the real wrapper bytecode with symbolic sizes; z3 decides, models replayed on the compiled kernels",
    text="For each of the 12 dispatched kernels the typed IR numba compiles (types and resolved signatures of every operation taken from "
         "numba's own pipeline) is executed over free 8-bit bit-vectors: unpack(b)[k] equals the bit-field definition for the kernel's bit order, "
         "pack(unpack(b))=b, unpack(pack(v))=v for in-range v - complete over byte values, array lengths 0..3 (quick) / 0..6 (thorough). "
         "The real bits.unpack/bits.pack wrappers are executed symbolically with unbounded array and buffer sizes for every "
         "(nbits, bitorder, dtype, buffer) configuration: ValueError exactly for invalid arguments, dispatch to the kernel named by depth and order, "
         "caller buffer vs allocated buffer; output buffers hold arbitrary stale bytes before the call; constant lookup tables are if-then-else chains with unconstrained "
         "content outside the table. The interpreter is validated on every run against the compiled kernels on all 256 byte values.",
    note="Trusted: numba lowers the typed IR it reports. Kernel array lengths above the bound are outside the claim.",
    design="DESIGN.md section 4 (C03)")

CHECKS["C19"] = dict(
    engine="E1 nbsym race mode (two symbolic prange iterations on numba's typed IR) + z3",
    technique="two-iteration symbolic execution of each prange body from numba's typed IR with unbounded symbolic sizes; z3 (NIA) decides write/any aliasing between distinct iterations; models replayed on the real py_func with access-recording arrays",
    text="Every parallel=True kernel in scope is captured from numba's pipeline; its prange body is executed for two arbitrary distinct "
         "iteration indices with all size arguments symbolic (within their machine width) and inner loops summarised by one arbitrary iteration; "
         "all array accesses are logged as index terms and z3 proves that no write of one iteration can alias a read or write of the other "
         "(plus: scalars assigned in the body are iteration-local). Loads from arrays no iteration writes are the same function of the index in both iterations; "
         "sub-array views, symbolic modulo and the thread-pool size (>= 2) are modelled. A model gives concrete sizes, array contents, pool size and two iteration "
         "numbers, which are replayed on the kernel's real Python body with recording arrays (views included) to exhibit the shared element.",
    note="Assumes caller arrays do not alias and the listed call-site preconditions (0<=delay<=maxdelay, chan_to_sub<nsubs); numba's scheduler "
         "and scalar privatisation are trusted; simulate_ism is outside the property.",
    design="DESIGN.md section 4 (C19)")

CHECKS["C06"] = dict(
    engine="E2 pysym on the real Filterbank reductions + read_plan/FileReader stack, kernels as contracts established by E1 nbsym; z3",
    technique="dynamic symbolic execution of the real collapse/bandpass/read_chan/dedisperse/compute_stats bytecode over symbolic files with functional arrays; kernel contracts proved from numba's typed IR; z3 (LIA+UF, Skolem index) decides; models replayed on the real FilReader",
    text="The real reduction methods run on the real read_plan and multi-file reader over symbolic files; N, gulp, start, nsamps (or None), "
         "maxdelay, the per-channel delays and the channel index are unbounded integers, the number of blocks is bounded (3 quick / 4 thorough). "
         "Per path z3 proves: no in-range request raises, the output has the defined length, every output element equals its definition over the "
         "uninterpreted sample model (sum over channels, column, sum of delay-shifted channels), nothing is read uninitialised or accumulated "
         "twice, accumulating kernels receive consecutive slices that tile the request, divisors / accumulator sizes equal the samples seen, "
         "and every kernel precondition (numba does no bounds checks) holds. The kernel contracts are themselves established from numba's "
         "typed IR on arbitrary data at small shapes; a kernel that no longer meets its definition is replayed against a numpy oracle.",
    note="Arithmetic over the reals (exactness premise for float32 sums). Delays assumed 0 at channel 0, non-decreasing, <= maxdelay < nsamps. "
         "Kernel contracts are proved at small shapes and used at unbounded sizes (stated gap). Plans beyond the block bound are cut and counted.",
    design="DESIGN.md section 4 (C06)")

CHECKS["C07"] = dict(
    engine="E2 pysym on the real file-to-file transforms + real FileWriter/prep_outfile over a symbolic write log, kernels as contracts established by E1 nbsym; z3",
    technique="dynamic symbolic execution of the real invert_freq/apply_channel_mask/extract_*/downsample/subband/remove_zerodm bytecode over symbolic input files and a symbolic append log; kernel contracts proved from numba's typed IR; z3 (LIA+LRA+UF) decides; models replayed on real files",
    text="Each transform runs on the real read_plan/FileReader and the real FileWriter.cwrite/prep_outfile; the output is the recorded sequence of "
         "writes. N, gulp, start, nsamps, delays, mask and mask value are unbounded/arbitrary, the block count is bounded, tfactor/ffactor/nsub/"
         "channel selections are small concrete values. Per path and per output channel z3 proves: the data section holds exactly the defined "
         "number of samples at the declared item width (packed at sub-byte depths in the default bit order), and every output sample equals the "
         "whole-array definition over the uninterpreted sample model (permutation, constant fill, block mean then store, sums of delay-shifted "
         "channels, zero-DM formula); kernel preconditions hold. Kernel contracts are established from the typed IR with the concrete "
         "truncating store.",
    note="Exact arithmetic; the float->integer store is an uninterpreted function in the streaming harness (same function on both sides) and the "
         "concrete truncation in the contract proofs. Zero-DM: bandpass handed to the kernel from a small concrete alphabet. requantize is C04.",
    design="DESIGN.md section 4 (C07)")

CHECKS["C08"] = dict(
    engine="E2 pysym (header update dictionaries of every transform/container under the same path conditions) + z3 FP theory for the frequency->channel expression",
    technique="symbolic execution of the real header-update code paths (new_header/prep_outfile arguments) with symbolic start/nsamps/channel; the real float expression of read_block(fch1=...) executed over IEEE-754 doubles in z3's FP theory with a symbolic channel number; models replayed",
    text="Piggy-backs on the C06/C07 harnesses: every header handed to a container or written to a file is compared, under the path condition, "
         "with the data actually produced - nsamples/nchans/nbits, tsamp factor, tstart = mjd_after_nsamps(start) for start>0, DM, and channel "
         "labels (exact arithmetic on the double values, several channelisations incl. -0.1 and -1/3 MHz) against the centres of the input "
         "channels copied/averaged. read_block(fch1=label_k): the real bytecode runs with an IEEE-754 double label fch1_0+k*foff, k a symbolic "
         "16-bit integer <= 4096; z3 proves in the FP theory that the index expression returns k, then the slice and header are decided over "
         "the integers. mjd_after_nsamps/obs_time over an astropy Time contract (tstart + n*tsamp/86400); headers of containers derived from containers "
         "(TimeSeries.downsample/pad, FilterbankBlock.get_tim/dedisperse): tsamp*factor, nsamples = data length, dm = the DM applied to the block.",
    note="mjd_after_nsamps is uninterpreted (astropy Time accuracy outside the claim); channelisations from a stated list; float32 label arrays outside.",
    design="DESIGN.md section 4 (C08)")

CHECKS["C20"] = dict(
    engine="E2 pysym: write traces of the real streaming writers + real parse_header/read_block on a file of symbolic length; z3",
    technique="symbolic execution of the real writer call sequences (header first, append-only whole-sample blocks) and of the real parse_header length arithmetic + read_block on a truncated file of symbolic length; z3 decides; models replayed by wrapping the real writes",
    text="For every streaming writer the recorded sequence of raw writes is checked on every path: the first write is the complete encoded header, "
         "all later writes append whole output samples in time order, no seek or rewrite; the writer object is the unbuffered io.FileIO. For every "
         "truncation length L >= header length (unbounded integer) the real parse_header arithmetic infers k = floor(8(L-hdr)/nbits/nchans) and the "
         "real read_block(0,k) on the surviving file returns exactly the first k samples. Replays also compare every snapshot with the file as left when the call returns "
         "(nothing is patched afterwards) and the on-disk size after every cwrite (nothing is held back).",
    note="A crash inside a single OS write and file-system durability are outside the claim. Header content is C05.",
    design="DESIGN.md section 4 (C20)")

CHECKS["C10"] = dict(
    engine="E1 nbsym (numba typed IR of the moment kernels, exact reals + integer overflow obligations) + FP theory on ChannelStats' guarded divisions; z3 (nlsat)",
    technique="symbolic execution of numba's typed IR of update_moments/compute_online_moments(_basic)/add_online_moments over real-valued symbolic streams for every chunk composition and split; z3 nlsat decides the polynomial identities against the two-pass definitions; typed integer operations yield overflow obligations; IEEE float32/64 terms for the guarded divisions",
    text="For symbolic streams of length 1..5 (quick) / 1..7 (thorough), every composition into consecutive chunks, 1-2 channels, full and basic "
         "mode, and every split point followed by the Pebay merge, the values the typed IR computes for count/min/max/m1..m4 are proved equal to "
         "the two-pass definitions (polynomial identities over the reals, one query per field). Every integer operation of the typed IR of the "
         "merge and update kernels yields an overflow obligation over the whole int32 count range. One more identical sample keeps a constant "
         "channel's state. ChannelStats.var/skew/kurtosis are executed over IEEE float32/float64 terms: whenever the guard of a division is true "
         "its divisor is neither zero nor NaN for any finite moment record.",
    note="Exact real arithmetic for the recurrences (the float32 accumulation error bound is outside the claim). libm pow(x,1.5) is a trusted "
         "contract stub. Stream lengths above the bound are outside the claim.",
    design="DESIGN.md section 4 (C10)")

CHECKS["C09"] = dict(
    engine="E1 nbsym on roll_block/roll_block_valid/dmt_block/dmt_block_valid; E2 on the real FilterbankBlock.dedisperse/dmt_transform, compute_dmdelays (exact reals, object arrays) and FilReader.read_dedisp_block; z3",
    technique="symbolic execution of numba's typed IR of the rotation/DM-time kernels with symbolic data and symbolic integer shifts (paths forked per shift value), composed with the real block-method bytecode; real compute_dmdelays over exact symbolic reals; z3 decides per path; models replayed on the compiled kernels/blocks",
    text="Every dedispersion entry point is reduced to the index map it applies: kernels are executed from their typed IR for arbitrary data and "
         "every integer shift vector in a stated range; the real dedisperse/dmt_transform bytecode runs on top of the interpreted kernels with a "
         "symbolic delay table and must output x[c,(t+delay_c)] (cyclic for rotations, windowed for the valid variants) over the length its header "
         "declares; read_dedisp_block runs on a symbolic file for small concrete shapes with symbolic samples; the streamed path is C06. The delay "
         "law itself: the real compute_dmdelays is executed over exact reals (zero at the reference, odd in DM, monotone in frequency, within half "
         "a sample of the documented 4.148808e3*DM*(f^-2 - fref^-2)/tsamp) and Header.get_dmdelays hands the right reference frequency (ch1/max/min/band centre/number), "
         "channel frequencies and sampling time to it for symbolic fch1/foff of either sign (the real band-geometry properties run).",
    note="Shapes up to 3x3/2x4, shifts within +-(ncols+1); float32 evaluation of the delay formula near rounding boundaries is outside the claim; "
         "f^-2 is abstracted by an order-reversing positive real.",
    design="DESIGN.md section 4 (C09)")

CHECKS["C11"] = dict(
    engine="E1 nbsym on the fold kernel (typed IR, exact reals) + E2 pysym on the real Filterbank.fold / TimeSeries.fold callers; z3",
    technique="symbolic execution of numba's typed IR of fold with symbolic data, delays and block offset (paths forked per bin/sub-integration) against an independently written cell specification; DSE of the real streaming caller with a recording kernel contract; z3 decides; models replayed on the compiled kernel / real files",
    text="Kernel: for (tsamp, period) from a small alphabet of exactly representable values, symbolic uint8 data, symbolic per-channel delays in "
         "[0,maxdelay] and (for accel=0) a symbolic block offset, every path of the typed IR is compared cell by cell with an independent "
         "specification of the documented assignment (sub-integration by time, sub-band by channel, phase bin by the phase formula): each "
         "(sample, channel) adds its value and 1 to exactly that cell and the hit counts sum to the samples folded. Streaming: the real "
         "Filterbank.fold runs on the real read_plan over symbolic files; the blocks handed to the kernel are consecutive stream slices, index "
         "is the absolute offset of each block, the folded samples tile [start, start+nsamps-maxdelay), the same accumulators are divided and "
         "reshaped. TimeSeries.fold makes the single-channel call on its own data.",
    note="Exact arithmetic for the phase (float32 evaluation near bin edges outside the claim); small shapes; accel != 0 only with enumerated offsets.",
    design="DESIGN.md section 4 (C11)")

CHECKS["C17"] = dict(
    engine="E2/E3 pysym on the real FoldedData.update_dm/update_period/_get_dmdelays/_get_pdelays with the real compute_dmdelays over exact symbolic reals; z3",
    technique="symbolic execution of the real update/bookkeeping bytecode over histories of re-tuning operations with free real DM targets (profiles modelled as rotation offsets); z3 (LIRA with to_int) decides equality with a fresh cube and with an independent shift specification; models replayed on the real FoldedData",
    text="For every history of length <= 3 (quick) / 4 (thorough) over update_dm(free real target), update_dm(folding DM), update_dm(previous "
         "target) and update_period(p) for p in a small alphabet, the real methods run symbolically on a cube whose profiles are rotation "
         "offsets; on every path z3 proves that each profile's rotation equals that of a fresh cube re-tuned once to the final targets and the "
         "independently specified shift of the final DM/period relative to the folding values (so repeats are no-ops and returning to the "
         "folding values restores the cube), and that dm/period report the last targets; histories over two nearby periods on a four-sub-integration cube cover "
         "increments in which only a middle sub-integration moves.",
    note="Exact arithmetic with half-even rounding; DM targets in [0,1000]; absolute-shift obligation excludes a 1e-6 neighbourhood of rounding "
         "boundaries; period targets from an alphabet; profile contents are not modelled (updates only call np.roll).",
    design="DESIGN.md section 4 (C17)")

CHECKS["C18"] = dict(
    engine="E2 pysym on the real PFITSReader.read_block/read_plan and PFITSFile.read_subints index arithmetic; E3 on read_subint/read_subint_pol over object arrays of symbolic reals; z3",
    technique="dynamic symbolic execution of the real PSRFITS reader bytecode with NSBLK, row count, start, nsamps, gulp, skipback as unbounded integers (row reads as a contract); value pipeline over exact symbolic reals; z3 decides; models replayed on the repository's PSRFITS test file",
    text="read_block: for every (start, nsamps) the rows requested exist, are consecutive, the slice is exactly [start, start+nsamps), out-of-range "
         "requests raise ValueError, in-range ones never do, channels come out descending. read_plan: blocks hold exactly the reported samples "
         "and tile the request as in C01 (same obligations). Value pipeline: ((raw - zero_off)*scale + offset)*weight and the polarisation "
         "selection are proved for symbolic raw values/scales/offsets/weights at a small shape (replayed on a copy of the shipped file with rewritten weight/scale/offset "
         "columns; ascending-frequency behaviour on a twin with reversed DAT_FREQ). Header.from_pfits labels the channels as delivered (first label = highest frequency, "
         "negative spacing) for symbolic channel frequencies of either order. Streaming reductions then follow from C06, which only depends on the read_plan contract.",
    note="astropy.io.fits is FFI: row access is a contract stub; header value types are outside; replay only at the shape of tests/data/parkes_4bit.sf; "
         "single-polarisation layouts are not claimed.",
    design="DESIGN.md section 4 (C18)")

CHECKS["C14"] = dict(
    engine="E1 nbsym on downsample_1d_mean / downsample_2d_mean_flat / detrend_1d; E3 (real numpy over object arrays of symbolic reals) on running_filter, downsample_1d/2d/2d_flat, TimeSeries.deredden, FilterbankBlock.downsample; z3",
    technique="symbolic execution of numba's typed IR of the decimation/detrend kernels and of the real numpy glue bytecode over object arrays of symbolic reals (np.pad, reshape, mean(axis) are numpy's own); z3 (LRA/NRA + UF for medians) decides every shape/factor/window; models replayed against brute-force numpy definitions",
    text="Every (length, factor) up to the bound for the 1-D mean kernel (float32 and uint8: accumulate without wrap, truncate once), every small "
         "non-square shape and factor pair for the flattened 2-D kernel, and detrend_1d (both normal equations and linearity of the removed trend) "
         "are decided from the typed IR. The real running_filter runs on numpy object arrays through numpy's own symmetric pad for every "
         "(n, window) up to the bound, both methods: each output equals the mean/median of the centred window over the symmetrically reflected "
         "series and the length is preserved; the real 1-D/2-D/flat decimators (mean via the interpreted kernels, median via numpy reshape) give "
         "the group statistic of every full group on both axes (also for arrays declared uint8: no wrap, no truncation in the 2-D non-flat path; a valid factor is never refused); "
         "deredden is input minus filter; FilterbankBlock.downsample's header follows the factors.",
    note="bottleneck's moving windows and the median are trusted stubs (median = uninterpreted function of its ordered window); exact arithmetic; "
         "running_filter_fast is outside the claim.",
    design="DESIGN.md section 4 (C14)")

CHECKS["C04"] = dict(
    engine="E2 pysym: byte accounting of the real writers/readers (cwrite, prep_outfile, to_/from_ tim, dat, spec, fft, to_file, requantize) over a symbolic write log; z3",
    technique="dynamic symbolic execution of the real writer and reader bytecode with dtype-tagged functional arrays; the reader's np.fromfile window is mapped back onto the bytes written; z3 (LIA+UF, Skolem index) decides counts, widths and element identity; models replayed on real files",
    text="cwrite through prep_outfile for every depth {1,2,4,8,16,32} x in-memory dtype {uint8,uint16,int64,float32,float64}: either the write is "
         "refused before any data byte, or bytes*8 = samples*nchans*nbits, the item type (or packing) is the declared depth's, representable "
         "values are stored unchanged in order and the reader's inferred sample count equals the samples written. .tim/.dat/.spec/.fft: the "
         "real from_* reader run on the bytes the real to_* writer produced returns the same number of samples/bins with identical values "
         "(no header byte read as a sample). to_file writes a 32-bit time-major block after one header; requantize writes at nbits_out. Packed writes use the bit "
         "order the readers unpack that depth with; every scenario is preceded by an unrelated depth-changing write (process-level state must not leak).",
    note="np.tofile/fromfile and encode_header are trusted stubs; .inf text and astropy formatting outside; values assumed representable at the declared depth.",
    design="DESIGN.md section 4 (C04)")

CHECKS["C05"] = dict(
    engine="E2 pysym on the real header codec (encode_header/encode_key/parse_header/_read_string/edit_header/parse_radec, from_sigproc frame mapping) over a token model of struct/files; z3",
    technique="dynamic symbolic execution of the real SIGPROC header codec with symbolic field values (struct and file objects as token-level stubs); z3 decides byte/field equality per path; parse_radec's sexagesimal string is parsed back symbolically; models replayed with real struct and files",
    text="For every tuple of 1..2 (quick) / 3 (thorough) recognised keys in any order with symbolic numeric values: encode(parse(bytes)) = bytes, "
         "parse(encode(h)) = h, hdrlen = bytes consumed, datalen = file length - hdrlen. edit_header for every recognised key (and an unknown "
         "one) with symbolic/shorter/longer values: either only that key's value bytes change at constant length, or it raises with nothing "
         "written. from_sigproc maps the (pulsarcentric, barycentric) flags written by to_sigproc back to the same frame; to_sigproc followed by from_sigproc "
         "returns every physical field (channelisation, sampling, epoch, depth, beams, DM, pointing angles as symbolic values; telescope/backend through every id of the tables, "
         "unknown names as Fake/FAKE; source, raw file, frame, data type, coordinate arguments) to the field it came from. parse_radec: for every "
         "DDMMSS.S/HHMMSS.S the sexagesimal string it builds decodes to the same magnitude and to the sign of src_dej, including 0 > dec > -1 deg.",
    note="struct pack/unpack and astropy's sexagesimal parser are trusted stubs; string values from a small alphabet; 0.01-arcsec astropy accuracy outside.",
    design="DESIGN.md section 4 (C05)")

CHECKS["C12"] = dict(
    engine="E1 nbsym on fftconvolve/circular_pad_goodsize/form_mspec with the FFT as a trusted contract (symx/fftc.py); E2 on TimeSeries.rfft/correlate and FourierSeries.ifft; z3",
    technique="symbolic execution of numba's typed IR of the FFT-based kernels and of the real rfft/ifft/correlate bytecode with rfft/irfft replaced by a convolution-theorem contract (incl. irfft's default output length); z3 decides the resulting polynomial identities; models replayed on the real kernels",
    text="PARTIAL. Decided: the library's own bookkeeping around the FFT - good-size choice, zero padding, the [:n+m-1] slice, reversal for "
         "correlation, the length passed (or not passed) to irfft, header nsamples - for every series length up to the bound and kernel length "
         "<= n with symbolic real data: fftconvolve = full linear convolution, correlate = correlation at lags -(m-1)..n-1, rfft then ifft = "
         "input zero-padded to the transform length for every n (incl. odd good sizes), circular_pad_goodsize = periodic extension, "
         "form_mspec = modulus of each bin. NOT decided: that rocket-fft computes the discrete Fourier sum, Parseval's identity, and the float32 "
         "FFT error (the FFT is FFI; these remain assumptions).",
    note="FFT contract trusted (symx/fftc.py); rocket_fft.good_size evaluated concretely; exact arithmetic; lengths <= 6/10 (convolution) and <= 15/27 (round trip).",
    design="DESIGN.md section 4 (C12)")

CHECKS["C13"] = dict(
    engine="E1 nbsym on convolve_templates and normalize_template with the FFT contract; E2 on MatchedFilter._compute/__init__/get_box_width_spacing (numpy's own argmax on symbolic responses); z3",
    technique="symbolic execution of numba's typed IR of convolve_templates (typed lists of templates and reference bins) with the FFT contract and the normalisation as an elementwise map established from normalize_template's IR; symbolic execution of the real MatchedFilter bytecode with symbolic response matrices and spacing factor; z3 decides the bilinear identities and the argmax/ladder obligations; models replayed on the compiled kernel and the real class",
    text="PARTIAL. Decided: for every data length up to the bound (incl. odd good FFT sizes), template length <= 3 and reference bin, "
         "convs[i,t] = sum_k zp[(t+k-ref) mod N]*Hn[k] with zp the data periodically extended to the good size N and Hn the zero-padded template after normalisation; "
         "normalize_template gives zero mean and unit power through one affine map for all bins (unchanged when the power is zero); MatchedFilter hands the z-scores and the bank "
         "(templates, reference bins, in order) to convolve_templates, reports the maximum response as S/N and its row/column as best template/peak bin, and standardises the data "
         "with the requested estimators only (so offset/positive-scale invariance reduces to C15's equivariance); the boxcar width ladder starts at 1, strictly increases, stays "
         "within the maximum and is maximal for every spacing factor. NOT decided: FFT accuracy; gaussian/lorentzian generators (exp); end-to-end boxcar recovery.",
    note="FFT contract trusted; exact arithmetic with sqrt as a fresh non-negative root; small shapes (response matrices up to 3x3).",
    design="DESIGN.md section 4 (C13), section 10")

CHECKS["C15"] = dict(
    engine="E3: the real estimate_loc/estimate_scale/estimate_zscore/_scale_* (incl. the 1-D qn/gapper/diffcov bodies and doublemad) and utils.apply_along_axes bytecode on numpy object arrays of symbolic reals; order statistics as uninterpreted functions of their ordered lane under a trusted contract; z3",
    technique="symbolic execution of the real estimator code over numpy object arrays (numpy's own broadcasting/moveaxis/reshape), with every order statistic (median, percentile, k-th order statistic of sort/partition, std, cov, sqrt) an uninterpreted function of the ordered lane it receives, constrained by instances of its affine contract; z3 (EUF+LRA) decides lane-consistency, shapes, the zero-scale guard and affine equivariance for concrete multipliers and symbolic offsets/data; models replayed on the real estimators",
    text="Decided within bounds: apply_along_axes hands each lane (or the flattened data) to the 1-D estimator in order for axis in {None, int, "
         "negative, tuple}; estimate_loc (mean, median) and estimate_scale (std, iqr, mad, sn, qn, gapper, diffcov) along an axis equal the 1-D "
         "estimator on each lane and over the whole array equal it on the flattened data, keepdims results broadcast against the input; "
         "estimate_zscore's divisor is never zero (a near-zero scale is replaced by one) and z-scores keep the input's shape; "
         "affine equivariance loc(a*x+b)=a*loc(x)+b, scale(a*x+b)=|a|*scale(x) (std, iqr, mad with its fallback, doublemad, sn, qn, gapper, diffcov) and "
         "zscore(a*x+b)=sign(a)*zscore(x) for non-degenerate scale, for the listed multipliers a of both signs, symbolic b and symbolic lanes. "
         "PARTIAL: the biweight estimator (astropy internals), finiteness under float32 overflow, and multipliers other than the listed rationals are not decided.",
    note="Order statistics are trusted uninterpreted functions of the ordered lane plus their affine contract; exact arithmetic; lanes of 5 (quick) / 8 (thorough) elements, doublemad 3 / 4; scale estimates strictly between 0 and 1e-5 excluded (np.isclose threshold).",
    design="DESIGN.md section 4 (C15), section 10")

CHECKS["C16"] = dict(
    engine="E3 on RFIMask.apply_mask/apply_method/apply_funcn, double_mad_mask, iqrm_mask, RFIMask.to_file/from_file (object arrays of symbolic booleans/reals, HDF5 as a store contract) + E2 on Filterbank.clean_rfi orchestration and the apply_channel_mask streaming harness of C07; z3",
    technique="symbolic execution of the real mask-combination, outlier-definition and mask-file bytecode with symbolic channel frequencies, range edges, thresholds, statistics and arbitrary symbolic per-statistic/custom/previous masks (numpy's own pad/as_strided/indexing on object arrays; h5py replaced by a store contract); recorder-based execution of clean_rfi; the C07 streaming harness for the per-block masking; z3 decides; models replayed on the real RFIMask/clean_rfi/h5py",
    text="Decided within bounds: user mask = closed-interval membership of each channel centre frequency in any given range; statistics mask = union "
         "of the variance/skewness/kurtosis masks computed with the mask's threshold by the method named; double_mad_mask = |doublemad z-score| > threshold, "
         "iqrm_mask = any lag in +-1..radius whose lagged difference x[i]-x[clip(i+lag)] has |IQR z-score| > threshold, non-positive thresholds rejected; "
         "final mask = previous OR user OR statistics OR custom, and no step ever unmasks a channel; clean_rfi applies the masks in order and hands the final mask, "
         "the mask value and the same plan to apply_channel_mask, whose output (masked channels = mask value, every other sample bit-identical, every block, every gulp) "
         "is the C07 harness re-run here; to_file/from_file reproduce every array, the threshold and every header field except stream_info over an HDF5 store contract. "
         "PARTIAL: h5py itself is FFI (contract; replays use the real library), the z-scores are those of C15, the default mask value is not decided.",
    note="The per-statistic mask functions and the custom function are arbitrary boolean vectors in the combination harness; 2-7 channels, 0-2 ranges, radius <= 5.",
    design="DESIGN.md section 4 (C16), section 10")

NOT_APPLICABLE = {}

PENDING = "check not built yet in this round (see DESIGN.md section 8 for the build order); no claim is made"


def main():
    props = [json.loads(l) for l in open(os.path.join(HERE, "properties.jsonl"))]
    checks, na = [], []
    for p in props:
        pid = p["id"]
        c = CHECKS.get(pid)
        if c is None:
            na.append(dict(property_id=pid, reason=NOT_APPLICABLE.get(pid, PENDING)))
            continue
        checks.append(dict(
            property_id=pid,
            quick_cmd=f"./check {pid} --tier quick",
            thorough_cmd=f"./check {pid} --tier thorough",
            evidence_file=f"/verif/evidence/{pid}.json",
            replay_cmd_template=f"./check {pid} --replay {{path}}",
            engine=c["engine"],
            level_claimed=dict(category="model_checking", text=c["text"], design_ref=c["design"]),
            level_note=c["note"],
            technique=c["technique"],
        ))
    man = dict(
        version=1,
        setup_cmd="./setup.sh",
        hooks=dict(guard="SIGPYPROC3_VERIF",
                   enable="no source hooks: harnesses re-create the real functions with substituted globals at check time; "
                          "checks export SIGPYPROC3_VERIF=1 but /repo contains no guarded code",
                   baseline_off_cmd="cd /repo && /venv/bin/python -m pytest -ra -q -p no:cacheprovider --timeout=900 --continue-on-collection-errors",
                   source_commits=[], add_only=True),
        engines=[
            dict(name="pysym", path="symx/core.py", kind_free_text="E2: re-execution based dynamic symbolic execution of real Python bytecode with z3; functional symbolic arrays; symbolic raw-file layer",
                 serves_properties=sorted(k for k in CHECKS if "E2" in CHECKS[k]["engine"])),
            dict(name="nbsym", path="symx/nbsym.py", kind_free_text="E1: symbolic interpreter of numba's typed IR (captured from numba's own pipeline), bit-vector / Int+Real modes, two-iteration race mode",
                 serves_properties=sorted(k for k in CHECKS if "E1" in CHECKS[k]["engine"])),
        ],
        checks=checks,
        notes="Solver-based checking of the real code; see DESIGN.md. exit 0 = held within the stated bounds, 1 = replayed violation, 2 = inconclusive (never a pass).",
        not_applicable=na,
    )
    with open(os.path.join(HERE, "MANIFEST.json"), "w") as f:
        json.dump(man, f, indent=1)
    print("claimed:", [c["property_id"] for c in checks], "n/a:", len(na))


if __name__ == "__main__":
    main()
