#!/bin/bash
# tools/mkmut.sh <file relative to repo> <old text> <new text> <out.diff> : build a one-replacement patch in a scratch
# worktree (never touches /repo's working tree)
f=$1; old=$2; new=$3; out=$(readlink -f "$4")
wt=$(mktemp -d /tmp/wt_mk_XXXXXX); rmdir $wt
git -C /repo worktree add -q $wt HEAD || exit 3
trap 'git -C /repo worktree remove --force '$wt EXIT
python3 - "$wt/$f" "$old" "$new" <<'PY' || exit 3
import sys
p, old, new = sys.argv[1:4]
s = open(p).read()
assert s.count(old) >= 1, "text not found"
open(p, "w").write(s.replace(old, new, 1))
PY
git -C $wt diff > "$out"
