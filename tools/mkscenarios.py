#!/usr/bin/env python3
"""tools/mkscenarios.py : (re)build symx/scenarios.json - the concrete corner scenarios replayed on the real library
when (and only when) a solver-based run ends inconclusive.  Sources: (1) the replay scripts of earlier reproduced or
attempted counterexamples under /verif/replays (solver models), (2) a small grid over every streaming transform /
reduction so that each public entry point of the c06/c07 family appears with start > 0 and a gulp that does not divide
the range.  Only scenarios that PASS on the current (pinned + repaired) tree are kept.
Run with the overlay venv:  PYTHONPATH=/repo:/verif /verif/.venv/bin/python tools/mkscenarios.py"""
import contextlib
import glob
import importlib
import io
import json
import os
import re
import sys
import time

HERE = os.path.dirname(os.path.dirname(os.path.abspath(__file__)))
cand = {}


def add(pid, drv, entry, params):
    cand.setdefault(pid, [])
    key = json.dumps([drv, entry, params], sort_keys=True)
    if key not in {json.dumps([d, e, p], sort_keys=True) for d, e, p in cand[pid]} and len(key) < 1500:
        cand[pid].append((drv, entry, params))


# (2) grid first (so that it survives the per-property cap)
from symx.props import c06, c07  # noqa: E402
for which, pid, drv in (("viol", "C07", "c07"), ("viol08", "C08", "c08"), ("viol20", "C20", "c20")):
    seen = set()
    for it in c07.items_for("quick", which):
        op, nbits, nchans, nfiles, none, prm, nb, bud, dl, w = it
        if (op, nbits) in seen:
            continue
        seen.add((op, nbits))
        p = dict(op=op, nbits=nbits, nchans=nchans, splits=[3, 6], gulp=4, start=1, nsamps=7, seed=1, check=w)
        p.update(prm)
        if op in ("subband",):
            p["delays"] = [0, 1, 1, 2][:nchans] if nchans <= 4 else [0] * nchans
        if op == "apply_channel_mask":
            p["mask"], p["maskvalue"] = [True] + [False] * (nchans - 1), 3
        add(pid, drv, "main", p)
for op in ("collapse", "bandpass", "read_chan", "dedisperse", "compute_stats"):
    for nbits, nchans in ((8, 2), (2, 4)):
        p = dict(op=op, nbits=nbits, nchans=nchans, splits=[3, 6], gulp=4, start=1, nsamps=7, seed=1)
        if op == "dedisperse":
            p["delays"] = [0, 1, 2, 2][:nchans]
        if op == "read_chan":
            p["ichan"] = 1
        add("C06", "c06", "main", p)

# (1) harvested solver models
for pid in sorted(os.listdir(os.path.join(HERE, "replays"))):
    for f in sorted(glob.glob(os.path.join(HERE, "replays", pid, "*.py"))):
        s = open(f).read()
        m = re.search(r'from symx\.concrete import (\w+)\nsys\.exit\(\1\.(\w+)\(json\.loads\((".*")\)\)\)', s, re.S)
        if not m:
            continue
        try:
            params = json.loads(json.loads(m.group(3)))
        except Exception:  # noqa: BLE001
            continue
        add(pid, m.group(1), m.group(2), params)
# keep what is already stored (replays/ is not under version control)
old = os.path.join(HERE, "symx", "scenarios.json")
if os.path.exists(old):
    for pid, lst in json.load(open(old)).items():
        for sc in lst:
            add(pid, sc["driver"], sc["entry"], sc["params"])

good = {}
for pid, lst in sorted(cand.items()):
    good[pid] = []
    for drv, entry, params in lst:
        if len(good[pid]) >= 24:
            break
        mod = importlib.import_module(f"symx.concrete.{drv}")
        buf = io.StringIO()
        t = time.time()
        try:
            with contextlib.redirect_stdout(buf), contextlib.redirect_stderr(buf):
                rc = getattr(mod, entry)(json.loads(json.dumps(params)))
        except BaseException as e:  # noqa: BLE001
            rc = f"EXC {type(e).__name__}: {e}"
        if rc == 0 and time.time() - t < 20:
            good[pid].append(dict(driver=drv, entry=entry, params=params))
        else:
            print("skip", pid, drv, entry, str(rc)[:80], json.dumps(params)[:120], file=sys.stderr)
    print(pid, len(lst), "->", len(good[pid]))
json.dump(good, open(old, "w"), indent=0, sort_keys=True)
