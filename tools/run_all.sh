#!/bin/bash
# tools/run_all.sh <tier> [ids...] : run checks sequentially, print one line per check with wall time and exit code
tier=${1:-quick}; shift
ids=${@:-C01 C02 C03 C04 C05 C06 C07 C08 C09 C10 C11 C12 C13 C14 C15 C16 C17 C18 C19 C20}
cd "$(dirname "$0")/.."
mkdir -p .cache
for id in $ids; do
  s=$(date +%s)
  ./check $id --tier $tier > .cache/run_all.$id.out 2>&1
  rc=$?
  e=$(date +%s)
  out=$(grep -E "^\[C|VIOLATION|INCONCLUSIVE|KNOWN-FINDING" .cache/run_all.$id.out | head -3 | cut -c1-200)
  echo "$id tier=$tier rc=$rc wall=$((e-s))s :: $out"
done
