#!/bin/bash
# tools/run_all.sh <tier> [ids...] : run checks sequentially, print one line per check with wall time and exit code
tier=${1:-quick}; shift
ids=${@:-C01 C02 C03 C04 C05 C06 C07 C08 C09 C10 C11 C12 C13 C14 C15 C16 C17 C18 C19 C20}
cd /verif
for id in $ids; do
  s=$(date +%s)
  out=$(./check $id --tier $tier 2>&1 | grep -E "^\[C|VIOLATION|INCONCLUSIVE" | head -3 | cut -c1-200)
  rc=${PIPESTATUS[0]}
  e=$(date +%s)
  echo "$id tier=$tier wall=$((e-s))s :: $out"
done
