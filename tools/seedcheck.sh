#!/bin/bash
# tools/seedcheck.sh [seed-id ...] : run the quick check of each stored seeded change's property on a scratch
# worktree with the change applied; every one must be reported (exit 1 + VIOLATION).  Up to $JOBS at a time.
cd "$(dirname "$0")/.."
ids=${@:-$(ls seeded)}
JOBS=${JOBS:-3}
mkdir -p .cache/seedcheck
run_one() {
  s=$1; pid=${s%%-*}
  out=$(tools/trymut.sh seeded/$s/patch.diff $pid 2>&1)
  rc=$(echo "$out" | grep -o "exit=[0-9]*" | tail -1)
  v=$(echo "$out" | grep -c "^VIOLATION property=$pid")
  if [ "$rc" = "exit=1" ] && [ "$v" -gt 0 ]; then echo "CAUGHT  $s"; else echo "MISSED  $s ($rc, $v violation lines)"; echo "$out" | tail -5 | cut -c1-300; fi
}
export -f run_one
printf '%s\n' $ids | xargs -P $JOBS -I{} bash -c 'run_one {}'
