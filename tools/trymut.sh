#!/bin/bash
# tools/trymut.sh <patch.diff> <ID> [<ID>...]
# Apply a seeded change to a scratch worktree of /repo HEAD (never to /repo itself), run the named checks on it
# (quick tier unless VERIF_TIER is set) with evidence/replays written to a scratch directory, remove everything.
patch=$(readlink -f "$1"); shift
wt=$(mktemp -d /tmp/wt_mut_XXXXXX); rmdir $wt
git -C /repo worktree add -q $wt HEAD || exit 3
trap 'git -C /repo worktree remove --force '$wt' 2>/dev/null; rm -rf '$wt'.scratch' EXIT
cp -r /repo/sigpyproc.egg-info $wt/ 2>/dev/null
git -C $wt apply "$patch" || { echo "patch does not apply" >&2; exit 3; }
mkdir -p $wt.scratch
rc=0
for id in "$@"; do
  echo "=== $id on $(basename $(dirname $patch))"
  SYMX_REPO=$wt SYMX_EVIDENCE_DIR=$wt.scratch/evidence SYMX_REPLAY_DIR=$wt.scratch/replays SYMX_NUMBA_CACHE=$wt.scratch/numba \
    /verif/check "$id" --tier "${VERIF_TIER:-quick}" 2>&1 | tail -${TAILN:-6}
  r=${PIPESTATUS[0]}; echo "exit=$r"; [ $r -ne 0 ] && rc=$r
done
exit $rc
