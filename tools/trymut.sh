#!/bin/bash
# tools/trymut.sh <patch.diff> <ID> [<ID>...] [-- extra check args]
# apply a seeded change to /repo, run the named checks (quick tier unless VERIF_TIER is set), always undo.
patch=$1; shift
cd /repo || exit 3
if [ -n "$(git status --porcelain --untracked-files=no)" ]; then echo "/repo not clean" >&2; exit 3; fi
trap 'git -C /repo checkout -- . ' EXIT
git apply "$patch" || { echo "patch does not apply" >&2; exit 3; }
rc=0
for id in "$@"; do
  echo "=== $id on $(basename $(dirname $patch))"
  /verif/check "$id" --tier "${VERIF_TIER:-quick}" 2>&1 | tail -${TAILN:-6}
  r=${PIPESTATUS[0]}; echo "exit=$r"; [ $r -ne 0 ] && rc=$r
done
exit $rc
